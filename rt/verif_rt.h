#ifndef VERIF_RT_H
#define VERIF_RT_H
#include <stdint.h>
#include <stddef.h>
#include <string.h>
#include <stdlib.h>
#include <math.h>
#ifdef __CPROVER__
#define VERIF_ATOMIC_BEGIN() __CPROVER_atomic_begin()
#define VERIF_ATOMIC_END() __CPROVER_atomic_end()
#define VERIF_UNREACHABLE() __CPROVER_assert(0, "llvm unreachable reached")
#define VERIF_TRAP() __CPROVER_assert(0, "llvm.trap reached")
#define VERIF_ASSUME(c) __CPROVER_assume(c)
#else
#include <stdio.h>
#define VERIF_ATOMIC_BEGIN()
#define VERIF_ATOMIC_END()
#define VERIF_UNREACHABLE() do { fprintf(stderr, "unreachable reached\n"); abort(); } while (0)
#define VERIF_TRAP() abort()
#define VERIF_ASSUME(c) do { if (!(c)) { fprintf(stderr, "assumption failed: %s\n", #c); exit(3); } } while (0)
#endif
#define DIVS(W,U,S) \
 static inline U verif_udiv##W(U a, U b){ return b ? a / b : 0; } \
 static inline U verif_urem##W(U a, U b){ return b ? a % b : 0; } \
 static inline U verif_sdiv##W(S a, S b){ if (!b) return 0; if (b == -1) return (U)0 - (U)a; return (U)(a / b); } \
 static inline U verif_srem##W(S a, S b){ if (!b || b == -1) return 0; return (U)(a % b); } \
 static inline U verif_shl##W(U a, U b){ return b >= W ? 0 : (U)(a << b); } \
 static inline U verif_lshr##W(U a, U b){ return b >= W ? 0 : (U)(a >> b); } \
 static inline U verif_ashr##W(S a, U b){ return b >= W ? (U)(a < 0 ? -1 : 0) : (U)(a >> b); }
DIVS(8,uint8_t,int8_t) DIVS(16,uint16_t,int16_t) DIVS(32,uint32_t,int32_t) DIVS(64,uint64_t,int64_t)
DIVS(128,unsigned __int128,__int128)
static inline double verif_bits_to_double(uint64_t b){ double d; memcpy(&d,&b,8); return d; }
static inline uint64_t verif_double_to_bits(double d){ uint64_t b; memcpy(&b,&d,8); return b; }
static inline float verif_bits_to_float(uint32_t b){ float d; memcpy(&d,&b,4); return d; }
static inline uint32_t verif_float_to_bits(float d){ uint32_t b; memcpy(&b,&d,4); return b; }
#define OV(W,U,S) \
 static inline void verif_uadd_ov##W(U a,U b,U*r,uint8_t*o){ *r=(U)(a+b); *o = *r < a; } \
 static inline void verif_usub_ov##W(U a,U b,U*r,uint8_t*o){ *r=(U)(a-b); *o = a < b; } \
 static inline void verif_umul_ov##W(U a,U b,U*r,uint8_t*o){ *r=(U)(a*b); *o = a && (*r / a != b); }
OV(32,uint32_t,int32_t) OV(64,uint64_t,int64_t)
/* ---- exception protocol ---- */
extern int verif_exc_pending; extern void* verif_exc_obj; extern void* verif_exc_type;
void* verif_ti_base(void* ti);
void verif_throw(void* obj, void* ti);
void verif_rethrow(void);
int verif_landingpad(int n, void** clauses, int cleanup);
int verif_typeid_for(void* ti);
void* verif_alloca(size_t n);
static inline uint64_t vl_strlen(uint8_t* s){ return strlen((const char*)s); }
static inline uint8_t* vl_memchr(uint8_t* s, uint32_t c, uint64_t n){ return (uint8_t*)memchr(s,(int)c,n); }
static inline uint8_t* vl_strchr(uint8_t* s, uint32_t c){ return (uint8_t*)strchr((const char*)s,(int)c); }
static inline uint32_t vl_strcmp(uint8_t* a, uint8_t* b){ return (uint32_t)strcmp((const char*)a,(const char*)b); }
static inline uint32_t vl_strncmp(uint8_t* a, uint8_t* b, uint64_t n){ return (uint32_t)strncmp((const char*)a,(const char*)b,n); }
static inline uint32_t vl_memcmp(uint8_t* a, uint8_t* b, uint64_t n){ return (uint32_t)memcmp(a,b,n); }
static inline uint32_t vl_bcmp(uint8_t* a, uint8_t* b, uint64_t n){ return (uint32_t)memcmp(a,b,n); }
static inline void vl_abort(void){ VERIF_TRAP(); }
#endif
