#include "verif_rt.h"
int verif_exc_pending; void* verif_exc_obj; void* verif_exc_type;
static void* verif_ti_reg[16]; static int verif_ti_n;
int verif_typeid_for(void* ti){ for (int i=0;i<verif_ti_n;i++) if (verif_ti_reg[i]==ti) return i+1; verif_ti_reg[verif_ti_n++]=ti; return verif_ti_n; }
void verif_throw(void* obj, void* ti){ verif_exc_pending=1; verif_exc_obj=obj; verif_exc_type=ti; }
void verif_rethrow(void){ verif_exc_pending=1; }
static int verif_ti_matches(void* thrown, void* want){ for (int d=0; d<8 && thrown; d++){ if (thrown==want) return 1; thrown=verif_ti_base(thrown);} return 0; }
int verif_landingpad(int n, void** cl, int cleanup){ verif_exc_pending=0; for (int i=0;i<n;i++){ if (cl[i]==0 || verif_ti_matches(verif_exc_type, cl[i])) return verif_typeid_for(cl[i]); } return 0; }
void* verif_alloca(size_t n){ return malloc(n); }
uint8_t* __cxa_allocate_exception(uint64_t n){ uint8_t* p = malloc(n); VERIF_ASSUME(p!=0); return p; }
void __cxa_free_exception(uint8_t* p){ }
uint8_t* __cxa_begin_catch(uint8_t* p){ verif_exc_pending=0; return (uint8_t*)verif_exc_obj; }
void __cxa_end_catch(void){ }
uint8_t* _Znwm(uint64_t n){ uint8_t* p = malloc(n); VERIF_ASSUME(p!=0); return p; }
uint8_t* _Znam(uint64_t n){ uint8_t* p = malloc(n); VERIF_ASSUME(p!=0); return p; }
void _ZdlPv(uint8_t* p){ free(p); }
void _ZdaPv(uint8_t* p){ free(p); }
