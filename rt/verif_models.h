/* hand-written models of libstdc++ externals; included after the struct definitions */
#ifdef HAVE_TYPE_S_class_2estd_3a_3a__cxx11_3a_3abasic_string
typedef struct S_class_2estd_3a_3a__cxx11_3a_3abasic_string vstring;
#define VSTR_LOCAL(s) ((uint8_t*)&(s)->f2)
#define VSTR_CAP(s) ((s)->f0.f0 == VSTR_LOCAL(s) ? (uint64_t)15 : (s)->f2.f0)
#ifdef HAVE__ZNSt7__cxx1112basic_stringIcSt11char_traitsIcESaIcEE9_M_createERmm
uint8_t* _ZNSt7__cxx1112basic_stringIcSt11char_traitsIcESaIcEE9_M_createERmm(vstring* s, uint64_t* cap, uint64_t old){
  if (*cap > old && *cap < 2*old) *cap = 2*old;
  uint8_t* p = malloc(*cap + 1); VERIF_ASSUME(p != 0); return p; }
#endif
static void vstr_reserve(vstring* s, uint64_t need){
  uint64_t cap = VSTR_CAP(s);
  if (need <= cap) return;
  uint64_t nc = need < 2*cap ? 2*cap : need;
  uint8_t* p = malloc(nc + 1); VERIF_ASSUME(p != 0);
  memcpy(p, s->f0.f0, s->f1 + 1);
  if (s->f0.f0 != VSTR_LOCAL(s)) free(s->f0.f0);
  s->f0.f0 = p; s->f2.f0 = nc; }
#ifdef HAVE__ZNSt7__cxx1112basic_stringIcSt11char_traitsIcESaIcEE9_M_appendEPKcm
vstring* _ZNSt7__cxx1112basic_stringIcSt11char_traitsIcESaIcEE9_M_appendEPKcm(vstring* s, uint8_t* d, uint64_t n){
  vstr_reserve(s, s->f1 + n); memcpy(s->f0.f0 + s->f1, d, n); s->f1 += n; s->f0.f0[s->f1] = 0; return s; }
#endif
#endif /* string */
#ifdef HAVE__ZNSt11range_errorC2ERKNSt7__cxx1112basic_stringIcSt11char_traitsIcESaIcEEE
void _ZNSt11range_errorC2ERKNSt7__cxx1112basic_stringIcSt11char_traitsIcESaIcEEE(struct S_class_2estd_3a_3arange_error* e, vstring* s){ }
#endif
#ifdef HAVE__ZNSt11range_errorD2Ev
void _ZNSt11range_errorD2Ev(struct S_class_2estd_3a_3arange_error* e){ }
#endif
#ifdef HAVE__ZNKSt13runtime_error4whatEv
uint8_t* _ZNKSt13runtime_error4whatEv(struct S_class_2estd_3a_3aruntime_error* e){ return (uint8_t*)""; }
#endif
#ifdef HAVE__ZSt20__throw_length_errorPKc
uint8_t* g__ZTISt12length_error_dummy;
void _ZSt20__throw_length_errorPKc(uint8_t* m){ verif_throw(0, &g__ZTISt12length_error_dummy); }
#endif
#ifdef HAVE__ZSt19__throw_logic_errorPKc
uint8_t* g__ZTISt11logic_error_dummy;
void _ZSt19__throw_logic_errorPKc(uint8_t* m){ verif_throw(0, &g__ZTISt11logic_error_dummy); }
#endif

#define NOOP_CTOR(name, T) void name(T* e, uint8_t* m){ }
#define NOOP_DTOR(name, T) void name(T* e){ }
#ifdef HAVE__ZNSt11logic_errorC1EPKc
NOOP_CTOR(_ZNSt11logic_errorC1EPKc, struct S_class_2estd_3a_3alogic_error)
#endif
#ifdef HAVE__ZNSt11logic_errorD1Ev
NOOP_DTOR(_ZNSt11logic_errorD1Ev, struct S_class_2estd_3a_3alogic_error)
#endif
#ifdef HAVE__ZNSt12length_errorC1EPKc
NOOP_CTOR(_ZNSt12length_errorC1EPKc, struct S_class_2estd_3a_3alength_error)
#endif
#ifdef HAVE__ZNSt12length_errorD1Ev
NOOP_DTOR(_ZNSt12length_errorD1Ev, struct S_class_2estd_3a_3alength_error)
#endif
#ifdef HAVE__ZNSt13runtime_errorC2EPKc
NOOP_CTOR(_ZNSt13runtime_errorC2EPKc, struct S_class_2estd_3a_3aruntime_error)
#endif
#ifdef HAVE__ZNSt13runtime_errorD2Ev
NOOP_DTOR(_ZNSt13runtime_errorD2Ev, struct S_class_2estd_3a_3aruntime_error)
#endif
#ifdef HAVE__ZNSt16invalid_argumentC1EPKc
NOOP_CTOR(_ZNSt16invalid_argumentC1EPKc, struct S_class_2estd_3a_3ainvalid_argument)
#endif
#ifdef HAVE__ZNSt16invalid_argumentD1Ev
NOOP_DTOR(_ZNSt16invalid_argumentD1Ev, struct S_class_2estd_3a_3ainvalid_argument)
#endif
#ifdef HAVE__ZSt9terminatev
void _ZSt9terminatev(void){ VERIF_TRAP(); }
#endif
