"""C14 — text escaping is injective and exactly undone by the parsers (E2, BV mode)"""
import z3
from fw import Harness
from llsym import Finding, Sym
from irparse import IntTy
i8, i32 = IntTy(8), IntTy(32)
OPL_STRUCT = b' ,=@\n\r\t'
XML_STRUCT = b'<>"\'\n\r\t'


def utf8_encode(I, cp):
    """reference UTF-8 encoder for a symbolic scalar value (forks on the encoded length); returns list of byte terms"""
    t = I.term(cp, 32)
    bv = lambda e: z3.Extract(7, 0, e)
    if I.decide(Sym(z3.ULT(t, 0x80), 1), 'len1'): return [bv(t)]
    if I.decide(Sym(z3.ULT(t, 0x800), 1), 'len2'): return [bv(0xc0 | z3.LShR(t, 6)), bv(0x80 | (t & 0x3f))]
    if I.decide(Sym(z3.ULT(t, 0x10000), 1), 'len3'):
        return [bv(0xe0 | z3.LShR(t, 12)), bv(0x80 | (z3.LShR(t, 6) & 0x3f)), bv(0x80 | (t & 0x3f))]
    return [bv(0xf0 | z3.LShR(t, 18)), bv(0x80 | (z3.LShR(t, 12) & 0x3f)), bv(0x80 | (z3.LShR(t, 6) & 0x3f)), bv(0x80 | (t & 0x3f))]


def scalar(I, name):
    cp = I.named(name, 32); t = I.term(cp, 32)
    I.assume(z3.And(z3.UGE(t, 1), z3.ULE(t, 0x10FFFF), z3.Or(z3.ULT(t, 0xD800), z3.UGT(t, 0xDFFF))))
    return cp


def put_string(I, bytes_, name='in'):
    buf = I.new_obj(len(bytes_) + 1, name, 'heap')          # exact size: any read past the terminator is an out-of-bounds finding
    for k, b in enumerate(bytes_): I.store(buf + k, i8, Sym(z3.simplify(b), 8) if z3.is_expr(b) else b)
    I.store(buf + len(bytes_), i8, 0)
    return buf


def get_string(I, buf, lenp):
    n = I.concretize(I.load(lenp, i32), 'length')
    return [I.load(buf + k, i8) for k in range(n)]


def escape(I, kind, inbuf, cap=96):
    out = I.new_obj(cap, 'esc', 'heap'); ln = I.new_obj(4, 'esclen', 'heap')
    rc = I.concretize(I.call('@verif_escape', [kind, inbuf, out, cap, ln]), 'rc')
    return rc, (get_string(I, out, ln) if rc == 0 else None), out


def h_opl_roundtrip(I, job):
    """k symbolic scalar values -> UTF-8 -> escape -> opl_parse_string == original; escaped form free of structural characters"""
    bs = []
    for k in range(job['cps']): bs += utf8_encode(I, scalar(I, 'cp%d' % k))
    inbuf = put_string(I, bs)
    rc, esc, escbuf = escape(I, 0, inbuf)
    I.observe('rc', rc)
    if rc != 0: raise Finding('escape-rejects', 'escaper rejects a valid UTF-8 string (rc=%d)' % rc)
    I.observe('esclen', len(esc))
    for k, ch in enumerate(esc):
        bad = z3.Or([I.term(ch, 8) == x for x in OPL_STRUCT])
        I.obligation(z3.Not(bad), 'structural-char', 'escaped form contains a structural character at offset %d' % k)
    # '%' only as delimiter of a hex escape: the parser is the judge of that (round trip below)
    out = I.new_obj(64, 'out', 'heap'); ol = I.new_obj(4, 'ol', 'heap'); cons = I.new_obj(4, 'cons', 'heap')
    rc2 = I.concretize(I.call('@verif_opl_parse_string', [escbuf, out, 64, ol, cons]), 'rc2')
    if rc2 != 0: raise Finding('parse-rejects', 'OPL parser rejects the escaper\'s output (rc=%d)' % rc2)
    res = get_string(I, out, ol)
    if len(res) != len(bs): raise Finding('roundtrip-length', 'unescaped length %d != %d' % (len(res), len(bs)))
    for k in range(len(bs)):
        I.obligation(I.term(res[k], 8) == bs[k], 'roundtrip', 'byte %d differs after escape + parse' % k)
    I.obligation(I.icmp('eq', 32, I.load(cons, i32), len(esc)), 'consumed', 'parser stops before the end of the escaped string')
    I.reach('end')


def seqlen(I, b):
    t = I.term(b, 8)
    if I.decide(Sym(z3.ULT(t, 0x80), 1), 'l1'): return 1
    if I.decide(Sym(z3.LShR(t, 5) == 6, 1), 'l2'): return 2
    if I.decide(Sym(z3.LShR(t, 4) == 0xe, 1), 'l3'): return 3
    if I.decide(Sym(z3.LShR(t, 3) == 0x1e, 1), 'l4'): return 4
    return 0


def h_bytes(I, job):
    """every NUL-free byte string of length L in an exact-size buffer: no read past the terminator; exception class as documented"""
    L = job['len']; kind = job['kind']
    bs = [I.named('b%d' % k, 8) for k in range(L)]
    for b in bs: I.assume(I.term(b, 8) != 0)
    inbuf = put_string(I, [I.term(b, 8) for b in bs])
    # reference scan
    want = 0; p = 0
    if kind != 1:
        while p < L:
            n = seqlen(I, bs[p])
            if n == 0: want = 2; break
            if L - p < n: want = 1; break
            p += n
    rc, esc, _ = escape(I, kind, inbuf, cap=160)
    I.observe('rc', rc)
    if rc != want:
        raise Finding('exception-class', 'escaper returns rc=%d, reference scan says %d (1 = out_of_range for a cut-off sequence, 2 = runtime_error for an invalid lead byte)' % (rc, want))
    I.reach('end')


def xml_unescape(I, esc):
    """XML 1.0 attribute-value decoding of the escaper's output (predefined entities, hex character references)"""
    ENT = {b'amp;': 38, b'quot;': 34, b'apos;': 39, b'lt;': 60, b'gt;': 62, b'#xA;': 10, b'#xD;': 13, b'#x9;': 9}
    out = []; p = 0
    def is_(ch, c): return I.decide(I.icmp('eq', 8, ch, c), 'xml')
    while p < len(esc):
        if is_(esc[p], 38):
            for name, val in ENT.items():
                if p + 1 + len(name) <= len(esc) and all(is_(esc[p + 1 + j], name[j]) for j in range(len(name))):
                    out.append(val); p += 1 + len(name); break
            else:
                raise Finding('xml-entity', 'escaped output contains "&" that does not start a known entity')
        else:
            for c in XML_STRUCT:
                if is_(esc[p], c): raise Finding('structural-char', 'XML-escaped form contains raw character %r' % chr(c))
            out.append(esc[p]); p += 1
    return out


def h_xml(I, job):
    L = job['len']
    bs = [I.named('b%d' % k, 8) for k in range(L)]
    for b in bs: I.assume(I.term(b, 8) != 0)
    inbuf = put_string(I, [I.term(b, 8) for b in bs])
    rc, esc, _ = escape(I, 1, inbuf, cap=8 * L + 8)
    I.observe('rc', rc)
    if rc != 0: raise Finding('escape-rejects', 'rc=%d' % rc)
    I.observe('esclen', len(esc))
    dec = xml_unescape(I, esc)
    if len(dec) != L: raise Finding('roundtrip-length', 'decoded length %d != %d' % (len(dec), L))
    for k in range(L):
        I.obligation(I.icmp('eq', 8, dec[k], bs[k]), 'roundtrip', 'byte %d differs after XML escape + reference decode' % k)
    I.reach('end')


def gen_bytes(L, names='b'):
    def g(rnd):
        out = []
        for _ in range(25):
            out.append({'%s%d' % (names, k): rnd.choice([rnd.randint(1, 255), rnd.choice(b' %,=@\n&<>"\'azAZ09\xc3\xa4\xe2\x82\xac\xf0\x9f')]) for k in range(L)})
        return out
    return g


def gen_cps(n):
    def g(rnd):
        out = []
        for _ in range(25):
            d = {}
            for k in range(n):
                while True:
                    c = rnd.choice([rnd.randint(1, 0x7f), rnd.randint(0x80, 0x7ff), rnd.randint(0x800, 0xffff), rnd.randint(0x10000, 0x10ffff), 0x25, 0x20, 0xa0, 0xad, 0x5ff, 0x600])
                    if not 0xD800 <= c <= 0xDFFF: break
                d['cp%d' % k] = c
            out.append(d)
        return out
    return g


def harnesses(tier):
    q = tier == 'quick'
    hs = [
        Harness('opl_roundtrip_1cp', 'escape', h_opl_roundtrip, jobs=[{'cps': 1}], testgen=gen_cps(1),
                desc='every Unicode scalar value U+0001..U+10FFFF (symbolic): opl_parse_string(append_utf8_encoded_string(utf8(cp))) == utf8(cp), escaped form has no structural character, fully consumed; implies injectivity per code point',
                bounds='none on the code point (all scalar values)'),
        Harness('opl_roundtrip_2cp', 'escape', h_opl_roundtrip, jobs=[{'cps': 2}], testgen=gen_cps(2),
                desc='every string of two scalar values: round trip and structural-character freedom (concatenation behaviour)', bounds='strings of 2 code points', wall=900),
    ]
    for kind, nm in ((0, 'opl'), (2, 'debug')):
        Ls = (1, 2, 3) if q else (1, 2, 3, 4)
        hs.append(Harness('%s_bytes' % nm, 'escape', h_bytes, jobs=[{'len': L, 'kind': kind} for L in Ls], testgen=lambda rnd, g=gen_bytes(3): [dict(_job=2, **t) for t in g(rnd)],
                          desc='every NUL-free byte string up to length %d in an exact-size buffer through the %s escaper: no access past the terminator; out_of_range exactly when the last sequence is cut off, runtime_error exactly on an invalid lead byte' % (Ls[-1], nm),
                          bounds='byte strings of length <= %d' % Ls[-1], sanitize=True))
    Lx = (1, 2, 3) if q else (1, 2, 3, 4)
    hs.append(Harness('xml_roundtrip', 'escape', h_xml, jobs=[{'len': L} for L in Lx], testgen=lambda rnd, g=gen_bytes(3): [dict(_job=2, **t) for t in g(rnd)],
                      desc='every NUL-free byte string up to length %d: reference XML attribute decoding of append_xml_encoded_string(s) == s; output has no raw markup/quote/line-break/tab characters, "&" only starts a known entity' % Lx[-1],
                      bounds='byte strings of length <= %d' % Lx[-1]))
    return hs
