"""C03 — malformed or hostile input never causes memory errors, aborts or hangs (E2, BV mode, memory-checked; per decoder kernel)"""
import z3
from fw import Harness
from llsym import Finding, Sym
from irparse import IntTy
from pbfenc import *
import C06
i8, i32, i64 = IntTy(8), IntTy(32), IntTy(64)


def sym_bytes(I, n, name='b', nonzero=False):
    out = []
    for k in range(n):
        b = I.named('%s%d' % (name, k), 8)
        if nonzero: I.assume(I.term(b, 8) != 0)
        out.append(b)
    return out


def h_opl_line(I, job):
    """a line that starts with a concrete prefix followed by symbolic bytes, in an exact-size buffer"""
    pre = job['prefix']; k = job['sym']; post = job.get('suffix', b'')
    bs = list(pre) + sym_bytes(I, k, nonzero=True) + list(post)
    buf = I.new_obj(len(bs) + 1, 'line', 'heap')
    for j, b in enumerate(bs): I.store(buf + j, i8, b)
    I.store(buf + len(bs), i8, 0)
    out = I.new_obj(2048, 'out', 'heap'); ol = I.new_obj(4, 'ol', 'heap')
    rc = I.concretize(I.call('@verif_opl_line', [buf, out, 2048, ol]), 'rc'); I.observe('rc', rc)
    if rc == 3: raise Finding('exception-type', 'an exception not derived from std::exception leaves the OPL line parser')
    I.reach('end')
    if rc == 0: I.reach('accepted')
    else: I.reach('rejected')


def h_o5m(I, job):
    """o5m file: header, one dataset of symbolic type whose payload bytes are symbolic, end marker; complete traversal of what is delivered"""
    k = job['sym']; pre = job.get('prefix', b'')
    payload = list(pre) + sym_bytes(I, k)
    ty = job['type'] if 'type' in job else None
    f = list(C06.O5M_HDR) + ([ty] if ty is not None else [I.named('dstype', 8)]) + [len(payload)] + payload + [0xfe]
    data = I.new_obj(len(f), 'file', 'heap')
    for j, b in enumerate(f): I.store(data + j, i8, b)
    I.call('@verif_set_summary', [2])
    out = I.new_obj(2048, 'out', 'heap'); ol = I.new_obj(4, 'ol', 'heap'); c = I.new_obj(4, 'cuts', 'heap')
    rc = I.concretize(I.call('@verif_o5m_run', [data, len(f), c, 0, out, 2048, ol]), 'rc'); I.observe('rc', rc)
    I.call('@verif_set_summary', [0])
    I.reach('end')
    if rc == 0: I.reach('accepted')
    else: I.reach('rejected')


def h_pbf_block(I, job):
    """PrimitiveBlock with a dense node carrying one tag; symbolic bytes inside the string table entries and at chosen structural positions"""
    kb = sym_bytes(I, job['keylen'], 'k'); vb = sym_bytes(I, 1, 'v')
    st = f_bytes(1, b'') + f_bytes(1, [I.term(b, 8) for b in kb]) + f_bytes(1, [I.term(b, 8) for b in vb])
    kv = job.get('keys_vals', [1, 2, 0])
    info = []
    if job.get('user_sid'):
        # DenseInfo with a symbolic (zig-zag) user string index: negative and too large indexes included
        us = I.named('user_sid', 7)
        info = f_bytes(5, f_bytes(1, varint(1)) + f_bytes(5, [z3.ZeroExt(1, I.term(us, 7))]))
    dense = f_bytes(1, varint(zigzag(10))) + info + f_bytes(8, varint(zigzag(5))) + f_bytes(9, varint(zigzag(7))) + f_bytes(10, sum((varint(x) for x in kv), []))
    msg = f_bytes(1, st) + f_bytes(2, f_bytes(2, dense))
    if job.get('mutate') is not None:
        m = I.named('mut', 8); msg = list(msg); msg[job['mutate'] % len(msg)] = I.term(m, 8)
    buf = I.new_obj(len(msg), 'msg', 'heap')
    for j, b in enumerate(msg): I.store(buf + j, i8, Sym(b, 8) if z3.is_expr(b) else b)
    out = I.new_obj(1024, 'out', 'heap'); ol = I.new_obj(4, 'ol', 'heap')
    rc = I.concretize(I.call('@verif_primitive_block', [buf, len(msg), 1, out, 1024, ol]), 'rc'); I.observe('rc', rc)
    I.reach('end')
    if rc == 0: I.reach('accepted')
    else: I.reach('rejected')


def setup_xml(I):
    I.overrides[C06.SEND] = lambda I_, q, b: I_.call('@verif_model_send', [q, b])


def h_xml_events(I, job):
    """XMLParser::start_element / characters / end_element inside <osm><changeset> with a symbolic event list (balanced by construction)"""
    n = job['n']
    em = I.new_obj(n, 'events', 'heap')
    for k in range(n):
        e = I.named('ev%d' % k, 8); I.assume(z3.And(z3.UGE(I.term(e, 8), 1), z3.ULE(I.term(e, 8), 6)))
        I.store(em + k, i8, I.concretize(e, 'event'))
    out = I.new_obj(2048, 'out', 'heap'); ol = I.new_obj(4, 'ol', 'heap')
    rc = I.concretize(I.call('@verif_xml_events', [em, n, out, 2048, ol]), 'rc'); I.observe('rc', rc)
    if rc == 3: raise Finding('exception-type', 'an exception not derived from std::exception leaves the XML callbacks')
    I.reach('end')
    if rc == 0: I.reach('accepted')
    else: I.reach('rejected')


XML_TARGETS = [
    # (context events before, element, fixed attributes, attribute made hostile)
    ('osm', 'node', 'id'), ('osm', 'node', 'version'), ('osm', 'node', 'timestamp'), ('osm', 'node', 'uid'), ('osm', 'node', 'changeset'), ('osm', 'node', 'visible'), ('osm', 'node', 'lat'), ('osm', 'node', 'lon'), ('osm', 'node', 'user'),
    ('way', 'nd', 'ref'), ('way', 'nd', 'lat'), ('relation', 'member', 'type'), ('relation', 'member', 'ref'), ('relation', 'member', 'role'), ('node', 'tag', 'k'), ('node', 'tag', 'v'),
    ('osm', 'bounds', 'minlat'), ('top', 'osm', 'version'), ('osm', 'changeset', 'id'), ('osm', 'changeset', 'created_at'), ('osm', 'changeset', 'num_changes'), ('osm', 'changeset', 'min_lon'), ('osm', 'changeset', 'open'),
    ('discussion', 'comment', 'date'), ('discussion', 'comment', 'uid'), ('osm', 'node', None), ('osm', None, None), ('node', None, None), ('top', None, None), ('osmChange', None, None),
]
XML_AFFIX = dict(timestamp=('2015-01-01T00:00:', ''), created_at=('2015-01-01T00:', ':00Z'), date=('2015-01-', 'T00:00:00Z'), lat=('1.', ''), lon=('-', 'e1'), min_lon=('17', '.5'), id=('-', ''), ref=('1', '1'), version=('', '0'), uid=('42949672', ''))
XML_DEFAULTS = dict(node=[('id', '7'), ('version', '2'), ('timestamp', '2015-01-01T00:00:00Z'), ('uid', '3'), ('user', 'u'), ('changeset', '9'), ('visible', 'true'), ('lat', '1.5'), ('lon', '2.5')],
                    nd=[('ref', '5'), ('lat', '1'), ('lon', '2')], member=[('type', 'way'), ('ref', '8'), ('role', 'outer')], tag=[('k', 'key'), ('v', 'value')],
                    bounds=[('minlat', '1'), ('minlon', '2'), ('maxlat', '3'), ('maxlon', '4')], osm=[('version', '0.6'), ('generator', 'g')],
                    changeset=[('id', '4'), ('created_at', '2015-01-01T00:00:00Z'), ('closed_at', '2015-01-01T01:00:00Z'), ('num_changes', '2'), ('min_lon', '1'), ('min_lat', '2'), ('max_lon', '3'), ('max_lat', '4'), ('uid', '3'), ('user', 'u'), ('open', 'false'), ('comments_count', '1')],
                    comment=[('date', '2015-01-01T00:00:00Z'), ('uid', '5'), ('user', 'c')])


def h_xml_hostile(I, job):
    """one attribute value, attribute name or element name of an otherwise well-formed element script consists of arbitrary non-NUL bytes"""
    from xmlenc import S, E, run_script
    ctx, el, attr = XML_TARGETS[job['target']]; K = job['sym']
    hb = sym_bytes(I, K)
    for b in hb: I.assume(I.term(b, 8) != 0)
    hostile = list(hb)
    pre = {'top': [], 'osm': [S('osm', XML_DEFAULTS['osm'])], 'osmChange': [S('osmChange', XML_DEFAULTS['osm'])],
           'node': [S('osm', XML_DEFAULTS['osm']), S('node', XML_DEFAULTS['node'])], 'way': [S('osm', XML_DEFAULTS['osm']), S('way', XML_DEFAULTS['node'][:6])],
           'relation': [S('osm', XML_DEFAULTS['osm']), S('relation', XML_DEFAULTS['node'][:6])],
           'discussion': [S('osm', XML_DEFAULTS['osm']), S('changeset', XML_DEFAULTS['changeset']), S('discussion')]}[ctx]
    if el is None: ev = pre + [S(hostile, [('id', '1'), ('k', 'a'), ('version', '0.6')]), E]                                   # hostile element name
    elif attr is None: ev = pre + [S(el, [(hostile, '1')] + XML_DEFAULTS[el]), E]                                              # hostile attribute name
    else:
        pf, sf = XML_AFFIX.get(attr, ('', '')) if job.get('affix') else ('', '')
        ev = pre + [S(el, [(k, [pf, hostile, sf] if k == attr else v) for k, v in XML_DEFAULTS[el]]), E]
    if ctx in ('node', 'way', 'relation'): ev += [S('tag', XML_DEFAULTS['tag']), E]
    ev += [E] * len(pre)
    rc, out, n, hdr = run_script(I, ev)
    I.observe('rc', rc)
    if rc == 3: raise Finding('exception-type', 'an exception not derived from std::exception leaves the XML callbacks')
    I.reach('end')
    if rc == 0: I.reach('accepted')
    else: I.reach('rejected')


def harnesses(tier):
    q = tier == 'quick'
    K = 3 if q else 4
    opl = [dict(prefix=b'', sym=K), dict(prefix=b'n', sym=K), dict(prefix=b'n1 ', sym=K), dict(prefix=b'n1 T', sym=K), dict(prefix=b'n1 Tk=', sym=K), dict(prefix=b'n1 x', sym=K), dict(prefix=b'n1 t', sym=K - 1, suffix=b'-01-01T00:00:00Z'),
           dict(prefix=b'w1 N', sym=K), dict(prefix=b'r1 M', sym=K), dict(prefix=b'r1 Mn1@', sym=K), dict(prefix=b'c1 ', sym=K), dict(prefix=b'c1 x1 y1 X', sym=K), dict(prefix=b'n1 u', sym=K), dict(prefix=b'n1 Tk=%', sym=K)]
    hs = [
        Harness('opl_line', 'hostile', h_opl_line, jobs=opl, reach=('end', 'accepted', 'rejected'), sanitize=True, wall=900,
                desc='opl_parse_line on lines made of a structural prefix and %d arbitrary non-NUL bytes in an exact-size buffer: no access outside owned memory (also not past the terminator), ends by return or an exception derived from std::exception, every delivered object is traversed completely' % K,
                bounds='%d symbolic bytes after each of %d prefixes' % (K, len(opl)), testgen=lambda rnd: [dict(_job=rnd.randrange(len(opl)), **{'b%d' % k: rnd.choice(b'n1 x,=@%T-9:Z\xc3') for k in range(K)}) for _ in range(10)]),
        Harness('o5m_dataset', 'chunk', h_o5m, setup=C06.setup_env, reach=('end', 'accepted', 'rejected'), sanitize=True, wall=900,
                jobs=[dict(type=0x10, sym=K), dict(type=0x11, sym=K), dict(type=0x12, sym=K), dict(type=0x10, prefix=bytes([2, 1, 2, 2]), sym=K - 1), dict(type=0x11, prefix=bytes([2, 0]), sym=K), dict(type=0x12, prefix=bytes([2, 0]), sym=K),
                      dict(type=0x10, prefix=bytes([2, 0, 2, 2]), sym=K), dict(sym=1), dict(type=0xdb, sym=K), dict(type=0xdc, sym=K)],
                desc='O5mParser on files whose single dataset (node / way / relation / bounding box / timestamp / symbolic type) has arbitrary payload bytes: decoders stay inside the dataset, string-table references are validated, what is delivered is traversed completely',
                bounds='payload of <= %d symbolic bytes after structural prefixes' % K),
        Harness('pbf_block', 'decode', h_pbf_block, reach=('end', 'accepted', 'rejected'), sanitize=True,
                jobs=[dict(keylen=3), dict(keylen=2, keys_vals=[1, 2, 1, 2, 0]), dict(keylen=1, keys_vals=[1, 9, 0]), dict(keylen=1, keys_vals=[1, 2]), dict(keylen=1, user_sid=1)] + [dict(keylen=1, mutate=m) for m in ((3, 9, 14, 17, 20, 23, 26) if q else range(2, 30))],
                desc='PBFPrimitiveBlockDecoder on a block with one dense node and one tag: arbitrary bytes (including NUL) inside the string-table entries, out-of-range string indexes (tags and the delta-coded user string index of DenseInfo, negative included), unterminated keys_vals, and one arbitrary byte at structural positions: memory-safe decoding and complete traversal of the delivered node (tags)',
                bounds='1 node, string table of 3 entries, <= 3 symbolic bytes per job'),
        Harness('xml_changeset_events', 'xml', h_xml_events, setup=setup_xml, reach=('end', 'accepted', 'rejected'), sanitize=True, tests=[dict(_job=0, ev0=1, ev1=6, ev2=5)], jobs=[dict(n=k) for k in (3, 4, 5, 6)],
                desc='XMLParser element callbacks (start_element, characters, end_element) inside <osm><changeset> for every well-nested sequence of <discussion>, <comment>, <text>, character data, <tag> and end events: memory-safe, std exceptions only, the delivered changeset (discussion comments, tags) is traversed completely in an exact-size copy',
                bounds='event lists of length <= %d over 6 event kinds; expat (tokenising, well-formedness) is not encoded' % 6),
        Harness('xml_hostile_attributes', 'xml', h_xml_hostile, mode='INT', setup=setup_xml, reach=('end', 'accepted', 'rejected'), sanitize=True, wall=900,
                jobs=[dict(target=t, sym=K) for t in range(len(XML_TARGETS))] + [dict(target=t, sym=K, affix=1) for t in range(len(XML_TARGETS)) if XML_TARGETS[t][2] in XML_AFFIX],
                desc='XMLParser element callbacks on element scripts in which one attribute value (every attribute of node, nd, member, tag, bounds, osm, changeset, comment), one attribute name or one element name (at top level, in <osm>, <osmChange>, <node>) consists of arbitrary non-NUL bytes, alone or embedded in an otherwise valid value (timestamps, coordinates, numbers near their limits): memory-safe, ends by return or an exception derived from std::exception, every delivered object is traversed completely in an exact-size copy',
                bounds='%d symbolic bytes per job, %d + 14 jobs; expat (tokenising, well-formedness, UTF-8 checking) is not encoded' % (K, len(XML_TARGETS))),
    ]
    return hs
