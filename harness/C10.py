"""C10 — exact geometric predicates behind area assembly (E2, INT mode with nonlinear integer arithmetic; floating point kept opaque)"""
import z3
from fw import Harness
from llsym import Finding, Sym
from irparse import IntTy
i8, i32, i64 = IntTy(8), IntTy(32), IntTy(64)
R = 1 << 29
FP_RANGE = (-(1 << 29), 1 << 29)      # integers obtained from the (opaque) floating-point intersection computation: inside the segment's bounding box (cbmc lemmas fp_ratio, fp_scale_x, fp_scale_y)
TR = 7


def seg_input(I, tag, R_=None):
    """four symbolic coordinates of a segment with distinct end points; returns (memory, signed Int terms)"""
    r = R_ or R
    mem = I.new_obj(16, 'seg' + tag, 'heap'); cs = []
    for k, nm in enumerate(('x0', 'y0', 'x1', 'y1')):
        v = I.named_signed(nm + tag, 32, -r, r)
        I.store(mem + 4 * k, i32, v); cs.append(I.sterm(v, 32))
    I.assume(z3.Not(z3.And(cs[0] == cs[2], cs[1] == cs[3])))
    return mem, cs


def orient(px, py, qx, qy, rx, ry): return (qx - px) * (ry - py) - (qy - py) * (rx - px)
def sgn(e): return z3.If(e > 0, 1, z3.If(e < 0, -1, 0))


def h_intersect(I, job):
    ma, (ax, ay, bx, by) = seg_input(I, 'a'); mb, (cx, cy, dx, dy) = seg_input(I, 'b')
    out = I.new_obj(8, 'out', 'heap')
    r = I.concretize(I.call('@verif_intersect', [ma, mb, out]), 'defined')
    o1, o2, o3, o4 = orient(ax, ay, bx, by, cx, cy), orient(ax, ay, bx, by, dx, dy), orient(cx, cy, dx, dy, ax, ay), orient(cx, cy, dx, dy, bx, by)
    d = (bx - ax) * (dy - cy) - (by - ay) * (dx - cx)
    share = z3.Or(z3.And(ax == cx, ay == cy), z3.And(ax == dx, ay == dy), z3.And(bx == cx, by == cy), z3.And(bx == dx, by == dy))
    meet = z3.And(sgn(o1) * sgn(o2) <= 0, sgn(o3) * sgn(o4) <= 0)
    ref_cross = z3.And(d != 0, meet, z3.Not(share))          # non-parallel segments with a common point that is not a shared end point
    if getattr(I, 'native', False): computed = bool(r) and z3.is_true(z3.simplify(d != 0))     # native run: a defined result for non-parallel segments
    else: computed = 'fdiv' in I.path_ops                # the intersection point was computed on this path (non-collinear branch)
    if computed:
        I.obligation(ref_cross, 'spurious-intersection', 'an intersection point is computed although the segments do not cross')
        I.reach('crossing')
    else:
        I.obligation(z3.Not(ref_cross), 'missed-intersection', 'the segments cross (non-parallel, common point, no shared end point) but no intersection is reported')
        if r:
            # collinear overlap: both on one line and the overlap has positive length
            collinear = z3.And(d == 0, o1 == 0)
            I.obligation(collinear, 'spurious-intersection', 'an overlap is reported for segments that are not on one line')
            I.reach('overlap')
        else: I.reach('none')
    I.reach('end')


def rel(I, what, ma, mb): return I.term(I.call('@verif_seg_rel', [what, ma, mb]), 32) != 0


def h_order(I, job):
    r = job['range']
    (ma, A), (mb, B) = [seg_input(I, t, r) for t in 'ab']
    lt = lambda p, q: rel(I, 0, p, q)
    ab, ba, aa = lt(ma, mb), lt(mb, ma), lt(ma, ma)
    I.obligation(z3.Not(aa), 'irreflexive', 's < s')
    I.obligation(z3.Not(z3.And(ab, ba)), 'asymmetric', 'a < b and b < a')
    eq = rel(I, 1, ma, mb)
    I.obligation(eq == z3.And(z3.Not(ab), z3.Not(ba)), 'equivalence', 'segments incomparable under < are not exactly the equal ones (duplicate detection relies on it)')
    I.reach('end')


def h_prune(I, job):
    """sweep pruning: outside_x_range(s2, s1) or no y overlap imply that calculate_intersection finds nothing"""
    ma, A = seg_input(I, 'a'); mb, B = seg_input(I, 'b')
    out = I.new_obj(8, 'out', 'heap')
    if job['what'] == 'x':
        pruned = I.decide(Sym(rel(I, 2, mb, ma), 1), 'outside_x_range')
    else:
        pruned = not I.decide(Sym(rel(I, 3, ma, mb), 1), 'y_range_overlap')
    if not pruned: I.reach('end'); return
    r = I.concretize(I.call('@verif_intersect', [ma, mb, out]), 'defined')
    if r or (not getattr(I, 'native', False) and 'fdiv' in I.path_ops): raise Finding('pruning', 'a segment pair skipped by the sweep (%s test) does intersect' % job['what'])
    I.reach('pruned'); I.reach('end')


def gen(tags, r=50):
    def g(rnd):
        out = []
        for _ in range(10):
            d = {}
            for t in tags:
                for nm in ('x0', 'y0', 'x1', 'y1'): d[nm + t] = rnd.randint(-r, r) & 0xffffffff
            out.append(d)
        return out
    return g


def py_orient(p, q, r): return (q[0] - p[0]) * (r[1] - p[1]) - (q[1] - p[1]) * (r[0] - p[0])


def ring_checks(I, ring, what):
    """ring = list of (x, y) z3 Int terms as delivered: closed, >= 4 points, no two non-adjacent segments with a common point, adjacent ones not folding back"""
    n = len(ring)
    if n < 4: raise Finding('ring-too-short', '%s has %d points' % (what, n))
    I.obligation(z3.And(ring[0][0] == ring[-1][0], ring[0][1] == ring[-1][1]), 'ring-not-closed', '%s: first and last point differ' % what)
    segs = [(ring[k], ring[k + 1]) for k in range(n - 1)]
    for (a, b) in segs: I.obligation(z3.Not(z3.And(a[0] == b[0], a[1] == b[1])), 'zero-length-segment', '%s contains a zero-length segment' % what)
    m = len(segs)
    for i in range(m):
        for j in range(i + 1, m):
            (a, b), (c, d) = segs[i], segs[j]
            o1, o2, o3, o4 = py_orient(a, b, c), py_orient(a, b, d), py_orient(c, d, a), py_orient(c, d, b)
            inbox = lambda p, q, r: z3.And(z3.If(p[0] < q[0], p[0], q[0]) <= r[0], r[0] <= z3.If(p[0] < q[0], q[0], p[0]), z3.If(p[1] < q[1], p[1], q[1]) <= r[1], r[1] <= z3.If(p[1] < q[1], q[1], p[1]))
            touch = z3.Or(z3.And(sgn(o1) * sgn(o2) < 0, sgn(o3) * sgn(o4) < 0),
                          z3.And(o1 == 0, inbox(a, b, c)), z3.And(o2 == 0, inbox(a, b, d)), z3.And(o3 == 0, inbox(c, d, a)), z3.And(o4 == 0, inbox(c, d, b)))
            adjacent = (j == i + 1) or (i == 0 and j == m - 1)
            if adjacent:
                # neighbours share exactly their common vertex: they must not be collinear and overlapping (fold back)
                shared, p, q = (b, a, d) if j == i + 1 else (a, b, c)
                fold = z3.And(py_orient(p, shared, q) == 0, (p[0] - shared[0]) * (q[0] - shared[0]) + (p[1] - shared[1]) * (q[1] - shared[1]) > 0)
                I.obligation(z3.Not(fold), 'ring-self-overlap', '%s: segments %d and %d fold back onto each other' % (what, i, j))
            else:
                I.obligation(z3.Not(touch), 'ring-self-intersection', '%s: segments %d and %d have a common point' % (what, i, j))


def signed_area2(ring):
    return sum(((ring[k][0] * ring[k + 1][1] - ring[k + 1][0] * ring[k][1]) for k in range(len(ring) - 1)), z3.IntVal(0))


def read_areas(I, out, total):
    """parse the wrapper's dump: returns (ok, counters, [ [ (outer ring, [inner rings]) ] per area ])"""
    pos = [0]
    def w(): v = I.load(out + 4 * pos[0], i32); pos[0] += 1; return v
    def cw(what): return I.concretize(w(), what)
    def sw():
        v = w()
        return I.sterm(v, 32) if isinstance(v, Sym) else z3.IntVal(v - (1 << 32) if v >= (1 << 31) else v)
    ok = cw('ok'); counters = [cw('counter') for _ in range(5)]
    areas = []
    for _ in range(cw('number of areas')):
        outers = []
        for _o in range(cw('number of outer rings')):
            ring = [(sw(), sw()) for _p in range(cw('outer ring size'))]
            inners = [[(sw(), sw()) for _p in range(cw('inner ring size'))] for _i in range(cw('number of inner rings'))]
            outers.append((ring, inners))
        areas.append(outers)
    return ok, counters, areas


def h_assemble_way(I, job):
    """Assembler on one closed way whose vertices have symbolic coordinates in a small grid"""
    ids = job['ids']; n = len(ids); r = job['range']
    I.fp2int_range = FP_RANGE; I.fp_model = 'real'
    pts = {}
    idm = I.new_obj(8 * n, 'ids', 'heap'); xm = I.new_obj(4 * n, 'xs', 'heap'); ym = I.new_obj(4 * n, 'ys', 'heap')
    T = []
    for k, nid in enumerate(ids):
        if nid not in pts:
            if nid in job.get('fixed', {}): pts[nid] = job['fixed'][nid]
            else: pts[nid] = (I.named_signed('x%d' % nid, 32, 0, r), I.named_signed('y%d' % nid, 32, 0, r))
        x, y = pts[nid]
        I.store(idm + 8 * k, i64, nid); I.store(xm + 4 * k, i32, x); I.store(ym + 4 * k, i32, y)
        T.append(tuple(I.sterm(c, 32) if isinstance(c, Sym) else z3.IntVal(c) for c in (x, y)))
    # distinct node ids have distinct locations in this harness (duplicate nodes are a different job)
    keys = sorted(pts)
    for a in range(len(keys)):
        for b in range(a + 1, len(keys)):
            ta, tb = [tuple(I.sterm(c, 32) if isinstance(c, Sym) else z3.IntVal(c) for c in pts[keys[z]]) for z in (a, b)]
            I.assume(z3.Not(z3.And(ta[0] == tb[0], ta[1] == tb[1])))
    out = I.new_obj(4 * 256, 'out', 'heap'); ol = I.new_obj(4, 'ol', 'heap')
    I.call('@verif_assemble_way', [n, idm, xm, ym, out, 256, ol])
    total = I.concretize(I.load(ol, i32), 'outlen')
    ok, counters, areas = read_areas(I, out, total)
    I.observe('ok', ok)
    # reference verdict for a closed way (first id == last id) visiting distinct points: valid iff its segments form a simple polygon
    segs = [(T[k], T[k + 1]) for k in range(n - 1)]
    m = len(segs); bad = []
    for i in range(m):
        for j in range(i + 1, m):
            (a, b), (c, d) = segs[i], segs[j]
            o1, o2, o3, o4 = py_orient(a, b, c), py_orient(a, b, d), py_orient(c, d, a), py_orient(c, d, b)
            inbox = lambda p, q, r_: z3.And(z3.If(p[0] < q[0], p[0], q[0]) <= r_[0], r_[0] <= z3.If(p[0] < q[0], q[0], p[0]), z3.If(p[1] < q[1], p[1], q[1]) <= r_[1], r_[1] <= z3.If(p[1] < q[1], q[1], p[1]))
            adjacent = (j == i + 1) or (i == 0 and j == m - 1)
            if adjacent:
                shared, p, q = (b, a, d) if j == i + 1 else (a, b, c)
                bad.append(z3.And(py_orient(p, shared, q) == 0, (p[0] - shared[0]) * (q[0] - shared[0]) + (p[1] - shared[1]) * (q[1] - shared[1]) > 0))
            else:
                bad.append(z3.Or(z3.And(sgn(o1) * sgn(o2) < 0, sgn(o3) * sgn(o4) < 0), z3.And(o1 == 0, inbox(a, b, c)), z3.And(o2 == 0, inbox(a, b, d)), z3.And(o3 == 0, inbox(c, d, a)), z3.And(o4 == 0, inbox(c, d, b))))
    simple = z3.Not(z3.Or(bad)) if bad else z3.BoolVal(True)
    if len(areas) > 1: raise Finding('area-count', '%d areas delivered for one way' % len(areas))
    if not ok and areas: raise Finding('area-on-failure', 'an area is committed although the assembler reports failure')
    if areas and areas[0]:
        # an area with rings (an area without rings is what the default configuration delivers for invalid geometry)
        I.reach('assembled')
        outers = areas[0]
        I.obligation(simple, 'invalid-input-assembled', 'an area is produced although the way\'s segments cross, touch or overlap')
        if len(outers) != 1: raise Finding('ring-count', 'a simple closed way gives %d outer rings' % len(outers))
        ring, inners = outers[0]
        if inners: raise Finding('ring-count', 'a single way gives %d inner rings' % len(inners))
        ring_checks(I, ring, 'outer ring')
        if len(ring) != n: raise Finding('ring-size', 'outer ring has %d points, the way has %d' % (len(ring), n))
        # same region: the ring is the way's vertex cycle (possibly rotated / reversed); the doubled signed area has the same magnitude and the documented sign
        a_in, a_out = signed_area2(T), signed_area2(ring)
        I.obligation(z3.Or(a_out == a_in, a_out == -a_in), 'region', 'outer ring does not enclose the way\'s region (doubled signed area differs)')
        I.obligation(a_out > 0, 'orientation', 'outer ring is not counter-clockwise (positive doubled signed area)')
        # every way vertex occurs in the ring
        for k in range(n - 1):
            I.obligation(z3.Or([z3.And(T[k][0] == p[0], T[k][1] == p[1]) for p in ring]), 'region', 'way vertex %d is missing from the outer ring' % k)
    else:
        I.reach('rejected')
        I.obligation(z3.Not(simple), 'valid-input-rejected', 'the way is a simple polygon but no area with rings is produced')
        if sum(counters) == 0: raise Finding('not-reported', 'invalid geometry rejected without any report to the problem reporter')
    I.reach('end')


def z_inbox(p, q, r): return z3.And(z3.If(p[0] < q[0], p[0], q[0]) <= r[0], r[0] <= z3.If(p[0] < q[0], q[0], p[0]), z3.If(p[1] < q[1], p[1], q[1]) <= r[1], r[1] <= z3.If(p[1] < q[1], q[1], p[1]))


def z_common(a, b, c, d):
    """closed segments ab and cd have a common point (exact)"""
    o1, o2, o3, o4 = py_orient(a, b, c), py_orient(a, b, d), py_orient(c, d, a), py_orient(c, d, b)
    return z3.Or(z3.And(sgn(o1) * sgn(o2) < 0, sgn(o3) * sgn(o4) < 0), z3.And(o1 == 0, z_inbox(a, b, c)), z3.And(o2 == 0, z_inbox(a, b, d)), z3.And(o3 == 0, z_inbox(c, d, a)), z3.And(o4 == 0, z_inbox(c, d, b)))


def z_proper(a, b, c, d):
    o1, o2, o3, o4 = py_orient(a, b, c), py_orient(a, b, d), py_orient(c, d, a), py_orient(c, d, b)
    return z3.And(sgn(o1) * sgn(o2) < 0, sgn(o3) * sgn(o4) < 0)


def z_fold(shared, p, q):
    """segments shared-p and shared-q are collinear and point the same way (they overlap beyond the shared end point)"""
    return z3.And(py_orient(p, shared, q) == 0, (p[0] - shared[0]) * (q[0] - shared[0]) + (p[1] - shared[1]) * (q[1] - shared[1]) > 0)


def z_on_ring(v, ring): return z3.Or([z3.And(py_orient(ring[k], ring[k + 1], v) == 0, z_inbox(ring[k], ring[k + 1], v)) for k in range(len(ring) - 1)])


def z_inside(v, ring):
    """crossing-number point-in-polygon (meaningful for v not on the ring)"""
    cnt = z3.IntVal(0)
    for k in range(len(ring) - 1):
        a, b = ring[k], ring[k + 1]
        straddle = (a[1] > v[1]) != (b[1] > v[1])
        lhs, rhs = (v[0] - a[0]) * (b[1] - a[1]), (b[0] - a[0]) * (v[1] - a[1])
        left = z3.If(b[1] > a[1], lhs < rhs, lhs > rhs)
        cnt = cnt + z3.If(z3.And(straddle, left), 1, 0)
    return cnt % 2 == 1


def zabs(e): return z3.If(e >= 0, e, -e)


def h_assemble_relation(I, job):
    """Assembler on a multipolygon relation: cycles of named points cut into member ways; some coordinates symbolic (offsets of symbolic variables)"""
    I.fp2int_range = FP_RANGE; I.fp_model = 'real'
    syms = {nm: I.named_signed(nm, 32, lo, hi) for nm, (lo, hi) in job['syms'].items()}
    def coord(spec):
        if isinstance(spec, tuple):
            v = syms[spec[0]]
            return ('sym', spec[0], spec[1])
        return spec
    names = sorted(job['pts']); pid = {nm: k + 1 for k, nm in enumerate(names)}
    T = {}
    for nm in names:
        c = []
        for spec in job['pts'][nm]:
            if isinstance(spec, tuple): c.append(I.sterm(syms[spec[0]], 32) + spec[1])
            else: c.append(z3.IntVal(spec))
        T[nm] = tuple(c)
    for a in range(len(names)):
        for b in range(a + 1, len(names)):
            pa, pb = T[names[a]], T[names[b]]
            I.assume(z3.Not(z3.And(pa[0] == pb[0], pa[1] == pb[1])))
    ways = job['ways']; total = sum(len(w) for w in ways)
    cnt = I.new_obj(4 * len(ways), 'cnt', 'heap'); idm = I.new_obj(8 * total, 'ids', 'heap'); xm = I.new_obj(4 * total, 'xs', 'heap'); ym = I.new_obj(4 * total, 'ys', 'heap')
    k = 0
    for wi, w in enumerate(ways):
        I.store(cnt + 4 * wi, i32, len(w))
        for nm in w:
            I.store(idm + 8 * k, i64, pid[nm])
            for mem, spec in ((xm, job['pts'][nm][0]), (ym, job['pts'][nm][1])):
                if isinstance(spec, tuple):
                    sv = syms[spec[0]]
                    val = I.binop('add', 32, sv, spec[1] & 0xffffffff, ()) if spec[1] else sv
                else: val = spec & 0xffffffff
                I.store(mem + 4 * k, i32, val)
            k += 1
    out = I.new_obj(4 * 512, 'out', 'heap'); ol = I.new_obj(4, 'ol', 'heap')
    I.call('@verif_assemble_relation', [len(ways), cnt, idm, xm, ym, out, 512, ol])
    tot = I.concretize(I.load(ol, i32), 'outlen')
    ok, counters, areas = read_areas(I, out, tot)
    I.observe('ok', ok)
    # reference reading of the input: cycles of named points
    cycles = [[T[nm] for nm in c] for c in job['cycles']]; cyc_names = job['cycles']
    bad = []; proper = []
    allsegs = [(ci, k, cyc_names[ci][k], cyc_names[ci][k + 1]) for ci in range(len(cycles)) for k in range(len(cycles[ci]) - 1)]
    for x in range(len(allsegs)):
        for y in range(x + 1, len(allsegs)):
            (c1, k1, a, b), (c2, k2, c, d) = allsegs[x], allsegs[y]
            sh = {a, b} & {c, d}
            if len(sh) == 2: bad.append(z3.BoolVal(True)); continue           # the same segment twice: not in these templates
            if len(sh) == 1:
                s_ = sh.pop(); p_ = b if a == s_ else a; q_ = d if c == s_ else c
                bad.append(z_fold(T[s_], T[p_], T[q_]))
            else:
                bad.append(z_common(T[a], T[b], T[c], T[d])); proper.append(z_proper(T[a], T[b], T[c], T[d]))
    valid = z3.Not(z3.Or(bad)) if bad else z3.BoolVal(True); crossing = z3.Or(proper) if proper else z3.BoolVal(False)
    if job.get('open'): valid = z3.BoolVal(False)
    if job.get('open') and areas and areas[0]: raise Finding('open-ring-assembled', 'an area with rings is produced from member ways that do not close')
    free = job.get('free') or [next(nm for nm in c if sum(nm in o for o in cyc_names) == 1) for c in cyc_names]
    depth = [sum((z3.If(z_inside(T[free[i]], cycles[j]), 1, 0) for j in range(len(cycles)) if j != i), z3.IntVal(0)) for i in range(len(cycles))]
    a_in = [zabs(signed_area2(c)) for c in cycles]
    exp_area = sum((z3.If(depth[i] % 2 == 0, a_in[i], -a_in[i]) for i in range(len(cycles))), z3.IntVal(0))
    exp_out = sum((z3.If(depth[i] % 2 == 0, 1, 0) for i in range(len(cycles))), z3.IntVal(0))
    if len(areas) > 1: raise Finding('area-count', '%d areas delivered for one relation' % len(areas))
    if not ok and areas: raise Finding('area-on-failure', 'an area is committed although the assembler reports failure')
    if areas and areas[0]:
        I.reach('assembled')
        outers = areas[0]
        I.obligation(z3.Not(crossing), 'invalid-input-assembled', 'an area is produced although segments of the member ways cross')
        n_in = 0; got = z3.IntVal(0)
        for oi, (ring, inners) in enumerate(outers):
            ring_checks(I, ring, 'outer ring %d' % oi)
            ao = signed_area2(ring); got = got + ao
            I.obligation(z3.Implies(valid, ao > 0), 'orientation', 'outer ring %d is not counter-clockwise' % oi)
            for ii, inner in enumerate(inners):
                n_in += 1
                ring_checks(I, inner, 'inner ring %d of outer ring %d' % (ii, oi))
                ai = signed_area2(inner); got = got + ai
                I.obligation(z3.Implies(valid, ai < 0), 'orientation', 'inner ring %d of outer ring %d is not clockwise' % (ii, oi))
                for vi, v in enumerate(inner[:-1]):
                    I.obligation(z3.Implies(valid, z3.Or(z_on_ring(v, ring), z_inside(v, ring))), 'inner-outside-outer', 'vertex %d of inner ring %d lies outside the outer ring %d it is attached to' % (vi, ii, oi))
        # an inner ring belongs to the innermost outer ring around it: no other outer ring may lie inside its outer ring and contain it
        # (otherwise the inner ring's interior is covered by that other polygon and the region is not the even-odd fill)
        for oi, (ring, inners) in enumerate(outers):
            for oj, (other, _x) in enumerate(outers):
                if oi == oj: continue
                other_in_ring = z3.Or([z3.And(z_inside(w, ring), z3.Not(z_on_ring(w, ring))) for w in other[:-1]])
                for ii, inner in enumerate(inners):
                    inner_in_other = z3.Or([z3.And(z_inside(v, other), z3.Not(z_on_ring(v, other))) for v in inner[:-1]])
                    I.obligation(z3.Implies(valid, z3.Not(z3.And(other_in_ring, inner_in_other))), 'inner-wrong-outer', 'inner ring %d is attached to outer ring %d although outer ring %d lies inside that ring and encloses the inner ring: its interior is covered by the other polygon (not the even-odd fill)' % (ii, oi, oj))
        I.obligation(z3.Implies(valid, got == exp_area), 'region', 'the area covered by the rings (outer minus inner) differs from the even-odd fill of the input cycles')
        if job.get('counts', True):
            I.obligation(z3.Implies(valid, exp_out == len(outers)), 'ring-count', '%d outer rings delivered; the even-odd nesting of the input cycles gives a different number' % len(outers))
            I.obligation(z3.Implies(valid, len(cycles) - exp_out == n_in), 'ring-count', '%d inner rings delivered; the even-odd nesting of the input cycles gives a different number' % n_in)
    else:
        I.reach('rejected')
        I.obligation(z3.Not(valid), 'valid-input-rejected', 'the member ways form a valid arrangement but no area with rings is produced')
        if sum(counters) == 0: raise Finding('not-reported', 'invalid geometry rejected without any report to the problem reporter')
    I.reach('end')


def _lib(so):
    import ctypes
    L = ctypes.CDLL(so); L.verif_ratio.restype = ctypes.c_double; L.verif_ratio.argtypes = [ctypes.c_long, ctypes.c_long]
    L.verif_scale_add.argtypes = [ctypes.c_double, ctypes.POINTER(ctypes.c_int), ctypes.POINTER(ctypes.c_int)]
    return L


def r_ratio(so, v):
    ua = _lib(so).verif_ratio(v.get('in_na', 0), v.get('in_d', 1))
    return not (0.0 <= ua <= 1.0), 'na=%d d=%d -> ua=%r' % (v.get('in_na', 0), v.get('in_d', 1), ua)


def r_scale(which):
    def f(so, v):
        import ctypes
        p = (ctypes.c_int * 4)(*[v.get('in_p%d' % k, 0) for k in range(4)]); out = (ctypes.c_int * 2)()
        _lib(so).verif_scale_add(v.get('in_ua', 0.0), p, out)
        lo, hi = min(p[which], p[which + 2]), max(p[which], p[which + 2])
        return not (lo <= out[which] <= hi), 'ua=%r p=%s -> %s' % (v.get('in_ua'), list(p), list(out))
    return f


def relation_templates(q):
    sq = dict(a0=(0, 0), a1=(8, 0), a2=(8, 8), a3=(0, 8))
    tri = dict(b0=(('dx', 0), ('dy', 0)), b1=(('dx', 2), ('dy', 0)), b2=(('dx', 0), ('dy', 2)))
    T = []
    # square cut into two open ways + a triangle translated over a grid that covers inside / touching / crossing / outside positions
    T.append(dict(name='square+triangle', pts=dict(sq, **tri), cycles=[['a0', 'a1', 'a2', 'a3', 'a0'], ['b0', 'b1', 'b2', 'b0']], ways=[['a0', 'a1', 'a2'], ['a2', 'a3', 'a0'], ['b0', 'b1', 'b2', 'b0']],
                  syms=dict(dx=(-3, 9), dy=(-3, 9)) if not q else dict(dx=(-3, 9), dy=(1, 3))))
    # same with the triangle listed first and the square in one reversed way
    T.append(dict(name='triangle+square(reversed)', pts=dict(sq, **tri), cycles=[['a0', 'a1', 'a2', 'a3', 'a0'], ['b0', 'b1', 'b2', 'b0']], ways=[['b0', 'b2', 'b1', 'b0'], ['a0', 'a3', 'a2', 'a1', 'a0']],
                  syms=dict(dx=(-3, 9), dy=(-3, 9)) if not q else dict(dx=(2, 4), dy=(-3, 9))))
    # concave outer ring R touched by two inner rings in A and B (two split locations: R is built from two partial rings that are joined backward);
    # the far vertices of the second inner ring move over a grid left and right of the ring's leftmost-lowest first part
    R = dict(A=(30, 0), X=(20, 10), B=(40, 30), M=(0, 50), T=(100, 100)); HA = dict(h1=(28, 6), h2=(32, 6)); HB = dict(g1=(('hx', 0), ('hy', 0)), g2=(('hx', 2), ('hy', 4)))
    T.append(dict(name='touching-rings', pts=dict(R, **HA, **HB), cycles=[['A', 'X', 'B', 'M', 'T', 'A'], ['A', 'h1', 'h2', 'A'], ['B', 'g1', 'g2', 'B']],
                  ways=[['A', 'X', 'B', 'M', 'T', 'A'], ['A', 'h1', 'h2', 'A'], ['B', 'g1', 'g2', 'B']], syms=dict(hx=(8, 24), hy=(46, 52)) if not q else dict(hx=(9, 11), hy=(49, 51))))
    # island inside a hole inside a square: depth 0 / 1 / 2
    big = dict(a0=(0, 0), a1=(12, 0), a2=(12, 12), a3=(0, 12)); hole = dict(c0=(2, 2), c1=(10, 2), c2=(10, 10), c3=(2, 10)); isl = dict(b0=(('dx', 0), ('dy', 0)), b1=(('dx', 2), ('dy', 0)), b2=(('dx', 0), ('dy', 2)))
    T.append(dict(name='island-in-hole', pts=dict(big, **hole, **isl), cycles=[['a0', 'a1', 'a2', 'a3', 'a0'], ['c0', 'c1', 'c2', 'c3', 'c0'], ['b0', 'b1', 'b2', 'b0']],
                  ways=[['c0', 'c1', 'c2', 'c3', 'c0'], ['b0', 'b1', 'b2', 'b0'], ['a0', 'a1', 'a2'], ['a2', 'a3', 'a0']], syms=dict(dx=(-1, 13), dy=(-1, 13)) if not q else dict(dx=(3, 7), dy=(4, 5))))
    # two separate squares and a triangle that moves from inside the first, across the gap, into the second: the enclosing ring must be the right one of two candidates
    sq1 = dict(a0=(0, 0), a1=(6, 0), a2=(6, 6), a3=(0, 6)); sq2 = dict(c0=(8, 1), c1=(14, 1), c2=(14, 7), c3=(8, 7)); t2 = dict(b0=(('dx', 0), 2), b1=(('dx', 2), 2), b2=(('dx', 0), 4))
    T.append(dict(name='two-squares', pts=dict(sq1, **sq2, **t2), cycles=[['a0', 'a1', 'a2', 'a3', 'a0'], ['c0', 'c1', 'c2', 'c3', 'c0'], ['b0', 'b1', 'b2', 'b0']],
                  ways=[['a0', 'a1', 'a2', 'a3', 'a0'], ['b0', 'b1', 'b2', 'b0'], ['c0', 'c3', 'c2', 'c1', 'c0']], syms=dict(dx=(-3, 15))))
    # nested squares where the outer one has a symbolic corner (shape change instead of translation), inner fixed
    T.append(dict(name='outer-corner', pts=dict(a0=(0, 0), a1=(10, 0), a2=(('px', 0), ('py', 0)), a3=(0, 10), c0=(2, 2), c1=(5, 2), c2=(5, 5), c3=(2, 5)), cycles=[['a0', 'a1', 'a2', 'a3', 'a0'], ['c0', 'c1', 'c2', 'c3', 'c0']],
                  ways=[['a1', 'a2', 'a3'], ['c0', 'c1', 'c2', 'c3', 'c0'], ['a3', 'a0', 'a1']], syms=dict(px=(1, 12), py=(1, 12)) if not q else dict(px=(3, 8), py=(6, 7))))
    # member ways that do not close: must be rejected and reported
    T.append(dict(name='open-ring', pts=dict(a0=(0, 0), a1=(8, 0), a2=(('dx', 0), ('dy', 0)), a3=(0, 8)), cycles=[], open=True, ways=[['a0', 'a1', 'a2'], ['a2', 'a3']], syms=dict(dx=(5, 9), dy=(5, 9)) if not q else dict(dx=(7, 8), dy=(8, 9))))
    # two rings that touch in two nodes P and Q: four open paths from P to Q, more than two partial rings end in each split location, so the complex
    # algorithm has to choose which paths to join (find_candidates); the whole figure is moved over positions around the coordinate origin
    for dy in ((-50,) if q else (-52, -50, -49)):
        fp = dict(P=(('dx', 50), 40 + dy), Q=(('dx', 50), 60 + dy), a=(('dx', 30), 50 + dy), b=(('dx', 40), 50 + dy), c=(('dx', 65), 50 + dy), d=(('dx', 100), 50 + dy))
        T.append(dict(name='four-paths(dy=%d)' % dy, pts=fp, cycles=[['P', 'a', 'Q', 'b', 'P'], ['P', 'c', 'Q', 'd', 'P']], ways=[['P', 'a', 'Q'], ['Q', 'b', 'P'], ['P', 'c', 'Q'], ['P', 'd', 'Q']], free=['a', 'c'], counts=False,
                      syms=dict(dx=(-56, -44)) if not q else dict(dx=(-52, -48))))
    # nesting of depth 5 (forest, lake, island, pond, islet) plus a clearing in the forest whose leftmost node moves over positions left of, above and
    # right of the inner rings: the rings crossed below it are [R1 R2 R2 R1 R3]-like sequences in which pairs have to cancel
    def rect(pfx, x0, y0, x1, y1): return {pfx + '0': (x0, y0), pfx + '1': (x1, y0), pfx + '2': (x1, y1), pfx + '3': (x0, y1)}
    def cyc(pfx): return [pfx + '0', pfx + '1', pfx + '2', pfx + '3', pfx + '0']
    deep = dict(rect('a', 0, 0, 100, 100), **rect('b', 10, 10, 90, 50), **rect('c', 20, 15, 80, 45), **rect('d', 30, 20, 70, 40), **rect('e', 40, 25, 60, 35))
    deep.update(p0=(('hx', 0), 60), p1=(('hx', 5), 60), p2=(('hx', 5), 70), p3=(('hx', 0), 70))
    T.append(dict(name='deep-nesting', pts=deep, cycles=[cyc('a'), cyc('b'), cyc('c'), cyc('d'), cyc('e'), cyc('p')], ways=[cyc('p'), cyc('e'), cyc('c'), cyc('a'), cyc('d'), cyc('b')],
                  syms=dict(hx=(3, 92)) if not q else dict(hx=(45, 58))))
    # four nested triangles that share their leftmost node P: every ring has two segments starting in P, the rings crossed 'below' a segment all
    # report the same y (that of P): the nearest enclosing outer ring has to be picked among ties
    nest = dict(P=(0, 100), a1=(40, 80), a2=(40, 120), b1=(30, 90), b2=(30, 110), c1=(20, 95), c2=(20, 105), d1=(('hx', 0), 98), d2=(('hx', 0), 102))
    T.append(dict(name='nested-shared-node', pts=nest, cycles=[['P', 'a1', 'a2', 'P'], ['P', 'b1', 'b2', 'P'], ['P', 'c1', 'c2', 'P'], ['P', 'd1', 'd2', 'P']],
                  ways=[['P', 'c1', 'c2', 'P'], ['P', 'a1', 'a2', 'P'], ['P', 'd2', 'd1', 'P'], ['P', 'b1', 'b2', 'P']], free=['a1', 'b1', 'c1', 'd1'], syms=dict(hx=(5, 19)) if not q else dict(hx=(9, 12))))
    return T


def cbmc_harnesses(tier):
    from e1 import CbmcHarness
    return [
        CbmcHarness('fp_ratio', 'area', 'c10_fp.c', 'h_ratio', timeout=900, replay=r_ratio, desc='ua = double(na) / double(d) lies in [0, 1] whenever the branch condition of calculate_intersection holds', bounds='|d| <= 2^62 (all products of coordinate differences within +-2^29)'),
        CbmcHarness('fp_scale_x', 'area', 'c10_fp.c', 'h_scale_x', unwind=6, backend=['--sat-solver', 'cadical'], flags=['--slice-formula'], timeout=900, replay=r_scale(0), desc='p0 + ua * (p1 - p0) cast to int32 stays inside the bounding box of the segment (x) for every double ua in [0, 1]: the computed intersection is a defined Location', bounds='coordinates within +-2^29'),
        CbmcHarness('fp_scale_y', 'area', 'c10_fp.c', 'h_scale_y', unwind=6, backend=['--sat-solver', 'cadical'], flags=['--slice-formula'], timeout=900, replay=r_scale(1), desc='same for y', bounds='coordinates within +-2^29'),
    ]


def harnesses(tier):
    global TR
    q = tier == 'quick'
    TR = 7 if q else 31
    return [
        Harness('intersection', 'area', h_intersect, mode='INT', opaque_fp=True, sanitize=True, reach=('end', 'crossing', 'none', 'overlap'), testgen=gen('ab', 6), wall=900, qtimeout=15,
                desc='calculate_intersection on two segments with symbolic end points: an intersection point is computed iff the segments are non-parallel, have a common point and no shared end point (orientation-test reference in exact integer arithmetic); an overlap is reported only for collinear segments; no signed overflow in the 64-bit products',
                bounds='coordinates within +-2^29 (the documented range); the floating-point computation of the point itself is opaque'),
        Harness('segment_order', 'area', h_order, mode='INT', jobs=[dict(axiom='equivalence', range=R)], testgen=gen('ab', 4), wall=900, qtimeout=15,
                desc='operator< on NodeRefSegment: irreflexive, asymmetric, and incomparable exactly when operator== holds (what duplicate detection after sorting relies on)',
                bounds='coordinates within +-2^29'),
        Harness('sweep_pruning', 'area', h_prune, mode='INT', opaque_fp=True, jobs=[dict(what='x'), dict(what='y')], reach=('end', 'pruned'), testgen=gen('ab', 6), wall=900, qtimeout=15,
                desc='soundness of the sweep shortcuts: if outside_x_range(s2, s1) holds, or the y ranges do not overlap, calculate_intersection reports nothing for the pair', bounds='coordinates within +-2^29'),
        Harness('assemble_way', 'assemble', h_assemble_way, mode='INT', opaque_fp=True, reach=('end', 'assembled', 'rejected'), wall=1500,
                jobs=[dict(ids=[1, 2, 3, 1], range=2), dict(ids=[1, 2, 3, 4, 1], range=2, fixed={1: (1, 1)})] if q else
                     [dict(ids=[1, 2, 3, 1], range=4), dict(ids=[1, 2, 3, 4, 1], range=2), dict(ids=[1, 2, 3, 4, 1], range=3, fixed={1: (1, 1)}), dict(ids=[1, 2, 3, 4, 5, 1], range=2, fixed={1: (1, 1), 2: (2, 0)})],
                tests=[dict(_job=0, x1=0, y1=0, x2=1, y2=0, x3=0, y3=1), dict(_job=0, x1=0, y1=0, x2=1, y2=1, x3=2, y3=2), dict(_job=1, x1=1, y1=1, x2=0, y2=0, x3=2, y3=2, x4=0, y4=2)],
                testgen=lambda rnd: [dict(_job=1, **{'%s%d' % (c, k): rnd.randint(0, 2) for k in (1, 2, 3, 4) for c in 'xy'}) for _ in range(12)],
                desc='the real area::Assembler (segment extraction, sort, duplicate removal, intersection search, ring construction, orientation, AreaBuilder output) on one closed way whose vertices are symbolic points of a small grid: '
                     'an area with rings is produced iff the way is a simple polygon (exact orientation-test reference; crossing, touching, folding and collinear-degenerate ways give an area without rings plus a report); '
                     'the delivered outer ring is closed, has >= 4 points, does not touch itself, contains exactly the way\'s vertices, encloses the same region (doubled signed area) and is counter-clockwise',
                bounds='triangles / quadrilaterals%s with vertices on a grid of (range+1)^2 points (one vertex fixed where stated: translation symmetry); floating point as exact rationals (find_enclosing_ring) / inside the proved range (intersection point)' % ('' if q else ' / pentagons')),
        Harness('assemble_relation', 'assemble', h_assemble_relation, mode='INT', opaque_fp=True, jobs=relation_templates(q), reach=('end', 'assembled', 'rejected'), wall=1500,
                tests=[dict(_job=0, dx=3, dy=2), dict(_job=0, dx=-3, dy=2), dict(_job=0, dx=7, dy=2), dict(_job=2, hx=10, hy=50), dict(_job=3, dx=5, dy=5), dict(_job=4, dx=2), dict(_job=4, dx=10), dict(_job=6, dx=7, dy=8), dict(_job=7, dx=-50)],
                desc='the real area::Assembler on multipolygon relations built from templates (a ring cut into open ways, reversed ways, member order; a triangle moved over a grid through inside / touching / crossing / outside positions; '
                     'two inner rings touching a concave outer ring in two split locations with the far vertices of one moving; island in hole in square; two separate squares; an outer corner moving; member ways that do not close; two rings touching in two nodes = four paths between two split locations, moved around the coordinate origin; five-fold nesting with a further inner ring above the innermost rings; four nested rings sharing their leftmost node): '
                     'whenever the cycles form a valid arrangement (exact reference: segments meet only in shared nodes) an area is produced whose rings are closed, simple, outer counter-clockwise / inner clockwise, every inner ring inside the outer ring it is attached to, '
                     'ring counts equal to the even-odd nesting depth count and outer-minus-inner area equal to the even-odd fill; arrangements with properly crossing segments and open rings give no rings and a report',
                bounds='10 templates with 1-2 symbolic translation / vertex variables over the stated grids (<= 17 x 13 positions); <= 24 segments; floating point as exact rationals (find_enclosing_ring) / inside the proved range (intersection point); tags, roles and the old-style tag logic are not varied'),
    ]
