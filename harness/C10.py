"""C10 — exact geometric predicates behind area assembly (E2, INT mode with nonlinear integer arithmetic; floating point kept opaque)"""
import z3
from fw import Harness
from llsym import Finding, Sym
from irparse import IntTy
i8, i32, i64 = IntTy(8), IntTy(32), IntTy(64)
R = 1 << 29
TR = 7


def seg_input(I, tag, R_=None):
    """four symbolic coordinates of a segment with distinct end points; returns (memory, signed Int terms)"""
    r = R_ or R
    mem = I.new_obj(16, 'seg' + tag, 'heap'); cs = []
    for k, nm in enumerate(('x0', 'y0', 'x1', 'y1')):
        v = I.named_signed(nm + tag, 32, -r, r)
        I.store(mem + 4 * k, i32, v); cs.append(I.sterm(v, 32))
    I.assume(z3.Not(z3.And(cs[0] == cs[2], cs[1] == cs[3])))
    return mem, cs


def orient(px, py, qx, qy, rx, ry): return (qx - px) * (ry - py) - (qy - py) * (rx - px)
def sgn(e): return z3.If(e > 0, 1, z3.If(e < 0, -1, 0))


def h_intersect(I, job):
    ma, (ax, ay, bx, by) = seg_input(I, 'a'); mb, (cx, cy, dx, dy) = seg_input(I, 'b')
    out = I.new_obj(8, 'out', 'heap')
    r = I.concretize(I.call('@verif_intersect', [ma, mb, out]), 'defined')
    o1, o2, o3, o4 = orient(ax, ay, bx, by, cx, cy), orient(ax, ay, bx, by, dx, dy), orient(cx, cy, dx, dy, ax, ay), orient(cx, cy, dx, dy, bx, by)
    d = (bx - ax) * (dy - cy) - (by - ay) * (dx - cx)
    share = z3.Or(z3.And(ax == cx, ay == cy), z3.And(ax == dx, ay == dy), z3.And(bx == cx, by == cy), z3.And(bx == dx, by == dy))
    meet = z3.And(sgn(o1) * sgn(o2) <= 0, sgn(o3) * sgn(o4) <= 0)
    ref_cross = z3.And(d != 0, meet, z3.Not(share))          # non-parallel segments with a common point that is not a shared end point
    if getattr(I, 'native', False): computed = bool(r) and z3.is_true(z3.simplify(d != 0))     # native run: a defined result for non-parallel segments
    else: computed = 'fdiv' in I.path_ops                # the intersection point was computed on this path (non-collinear branch)
    if computed:
        I.obligation(ref_cross, 'spurious-intersection', 'an intersection point is computed although the segments do not cross')
        I.reach('crossing')
    else:
        I.obligation(z3.Not(ref_cross), 'missed-intersection', 'the segments cross (non-parallel, common point, no shared end point) but no intersection is reported')
        if r:
            # collinear overlap: both on one line and the overlap has positive length
            collinear = z3.And(d == 0, o1 == 0)
            I.obligation(collinear, 'spurious-intersection', 'an overlap is reported for segments that are not on one line')
            I.reach('overlap')
        else: I.reach('none')
    I.reach('end')


def rel(I, what, ma, mb): return I.term(I.call('@verif_seg_rel', [what, ma, mb]), 32) != 0


def h_order(I, job):
    r = job['range']
    (ma, A), (mb, B) = [seg_input(I, t, r) for t in 'ab']
    lt = lambda p, q: rel(I, 0, p, q)
    ab, ba, aa = lt(ma, mb), lt(mb, ma), lt(ma, ma)
    I.obligation(z3.Not(aa), 'irreflexive', 's < s')
    I.obligation(z3.Not(z3.And(ab, ba)), 'asymmetric', 'a < b and b < a')
    eq = rel(I, 1, ma, mb)
    I.obligation(eq == z3.And(z3.Not(ab), z3.Not(ba)), 'equivalence', 'segments incomparable under < are not exactly the equal ones (duplicate detection relies on it)')
    I.reach('end')


def h_prune(I, job):
    """sweep pruning: outside_x_range(s2, s1) or no y overlap imply that calculate_intersection finds nothing"""
    ma, A = seg_input(I, 'a'); mb, B = seg_input(I, 'b')
    out = I.new_obj(8, 'out', 'heap')
    if job['what'] == 'x':
        pruned = I.decide(Sym(rel(I, 2, mb, ma), 1), 'outside_x_range')
    else:
        pruned = not I.decide(Sym(rel(I, 3, ma, mb), 1), 'y_range_overlap')
    if not pruned: I.reach('end'); return
    r = I.concretize(I.call('@verif_intersect', [ma, mb, out]), 'defined')
    if r or (not getattr(I, 'native', False) and 'fdiv' in I.path_ops): raise Finding('pruning', 'a segment pair skipped by the sweep (%s test) does intersect' % job['what'])
    I.reach('pruned'); I.reach('end')


def gen(tags, r=50):
    def g(rnd):
        out = []
        for _ in range(10):
            d = {}
            for t in tags:
                for nm in ('x0', 'y0', 'x1', 'y1'): d[nm + t] = rnd.randint(-r, r) & 0xffffffff
            out.append(d)
        return out
    return g


def harnesses(tier):
    global TR
    q = tier == 'quick'
    TR = 7 if q else 31
    return [
        Harness('intersection', 'area', h_intersect, mode='INT', opaque_fp=True, sanitize=True, reach=('end', 'crossing', 'none', 'overlap'), testgen=gen('ab', 6), wall=900,
                desc='calculate_intersection on two segments with symbolic end points: an intersection point is computed iff the segments are non-parallel, have a common point and no shared end point (orientation-test reference in exact integer arithmetic); an overlap is reported only for collinear segments; no signed overflow in the 64-bit products',
                bounds='coordinates within +-2^29 (the documented range); the floating-point computation of the point itself is opaque'),
        Harness('segment_order', 'area', h_order, mode='INT', jobs=[dict(axiom='equivalence', range=R)], testgen=gen('ab', 4), wall=900,
                desc='operator< on NodeRefSegment: irreflexive, asymmetric, and incomparable exactly when operator== holds (what duplicate detection after sorting relies on)',
                bounds='coordinates within +-2^29'),
        Harness('sweep_pruning', 'area', h_prune, mode='INT', opaque_fp=True, jobs=[dict(what='x'), dict(what='y')], reach=('end', 'pruned'), testgen=gen('ab', 6), wall=900,
                desc='soundness of the sweep shortcuts: if outside_x_range(s2, s1) holds, or the y ranges do not overlap, calculate_intersection reports nothing for the pair', bounds='coordinates within +-2^29'),
    ]
