"""helpers for the XML element-script wrapper (wrappers/xml.cpp: verif_xml_script)"""
import z3
from llsym import Sym, Finding, PathEnd
from irparse import IntTy
i8, i32, i64 = IntTy(8), IntTy(32), IntTy(64)


def S(name, attrs=()): return ('S', name, list(attrs))
E = ('E',)
def C(data): return ('C', data)


def flat(x):
    """bytes / str / int / Sym / list thereof -> list of ints and Syms"""
    if isinstance(x, (bytes, bytearray)): return list(x)
    if isinstance(x, str): return list(x.encode())
    if isinstance(x, (list, tuple)):
        out = []
        for y in x: out += flat(y)
        return out
    return [x]


def encode(events):
    out = []
    for ev in events:
        if ev[0] == 'S':
            out += [ord('S')] + flat(ev[1]) + [0, len(ev[2])]
            for k, v in ev[2]: out += flat(k) + [0] + flat(v) + [0]
        elif ev[0] == 'E': out.append(ord('E'))
        else:
            d = flat(ev[1]); out += [ord('C'), len(d)] + d
    return out + [0]


def run_script(I, events, outcap=2048):
    """returns (rc, out address, dump length, hdr address)"""
    bs = encode(events)
    mem = I.new_obj(len(bs), 'script', 'heap')
    for k, b in enumerate(bs): I.store(mem + k, i8, b)
    out = I.new_obj(outcap, 'out', 'heap'); ol = I.new_obj(4, 'ol', 'heap'); hdr = I.new_obj(4 * 18, 'hdr', 'heap')
    rc = I.concretize(I.call('@verif_xml_script', [mem, out, outcap, ol, hdr]), 'rc')
    n = I.concretize(I.load(ol, i32), 'dumplen')
    return rc, out, n, hdr


def is_int(I): return I.mode == 'INT'


def below(I, v, n, bound):
    """assume v < bound (unsigned) in either encoding"""
    t = I.term(v, n)
    I.assume(t < bound if is_int(I) else z3.ULT(t, bound))


def digit(I, name, lo=0):
    d = I.named(name, 8); t = I.term(d, 8)
    I.assume(z3.And(t >= 48 + lo, t <= 57) if is_int(I) else z3.And(z3.UGE(t, 48 + lo), z3.ULE(t, 57)))
    return d


def dig(I, d):
    """value 0..9 of a digit byte as a 64-bit / integer term"""
    return (I.term(d, 8) - 48) if is_int(I) else (z3.ZeroExt(56, I.term(d, 8)) - 48)


def dval(I, ds):
    """numeric value of a list of digit bytes (64-bit term, or integer term in INT mode)"""
    v = z3.IntVal(0) if is_int(I) else z3.BitVecVal(0, 64)
    for d in ds: v = v * 10 + dig(I, d)
    return v


class Reader:
    """walks the traversal dump (wrappers/dump.hpp)"""
    def __init__(self, I, out, total): self.I = I; self.out = out; self.total = total; self.pos = 0
    def word(self):
        v = self.I.load(self.out + self.pos, i64); self.pos += 8; return v
    def cword(self, what): return self.I.concretize(self.word(), what)
    def expect(self, want, kind, msg):
        """next word equals `want` (int or 64-bit term)"""
        v = self.word()
        if is_int(self.I):
            t = self.I.term(v, 64) if isinstance(v, Sym) else z3.IntVal(v)
            w = want if z3.is_expr(want) else z3.IntVal(want)
            self.I.obligation(z3.Or(t == w, t == w + (1 << 64)), kind, msg)            # unsigned 64-bit representation of a possibly negative value
        else:
            t = self.I.term(v, 64) if isinstance(v, Sym) else z3.BitVecVal(v, 64)
            w = want if z3.is_expr(want) else z3.BitVecVal(want & ((1 << 64) - 1), 64)
            self.I.obligation(t == w, kind, msg)
    def string(self, want, what):
        want = flat(want)
        ln = self.cword(what + ' length')
        if ln != len(want): raise Finding('string-length', '%s has %d bytes, the file gives %d' % (what, ln, len(want)))
        for j, x in enumerate(want):
            self.I.obligation(self.I.term(self.I.load(self.out + self.pos + j, i8), 8) == (self.I.term(x, 8) if isinstance(x, Sym) else x), 'string-content', '%s: byte %d differs from the file' % (what, j))
        self.pos += ln
    def done(self):
        if self.pos != self.total: raise Finding('object-count', 'more was delivered than the file describes (%d of %d dump bytes used)' % (self.pos, self.total))
