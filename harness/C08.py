"""C08 — writer produces the complete file or throws; OS write errors are never lost (E2, BV mode; fault sequences = symbolic stub returns)"""
import z3
from fw import Harness
from llsym import Finding, Sym, PathEnd
from irparse import IntTy
i8, i32, i64 = IntTy(8), IntTy(32), IntTy(64)
K_WRITE, K_FSYNC, K_CLOSE, K_DUP, K_FSTAT, K_GZDOPEN, K_GZWRITE, K_GZCLOSE, K_FDOPEN, K_FCLOSE, K_BZWOPEN, K_BZWRITE, K_BZWCLOSE = range(1, 14)
EINTR = 4
MAXW = 100 * 1024 * 1024
MAXSZ = 3


def make_script(I, K):
    rets = I.new_obj(8 * K, 'rets', 'heap'); errs = I.new_obj(4 * K, 'errnos', 'heap'); R = []; E = []
    for k in range(K):
        r = I.named('ret%d' % k, 64); e = I.named('errno%d' % k, 32)
        I.assume(z3.And(z3.UGE(I.term(e, 32), 1), z3.ULE(I.term(e, 32), 133)))
        I.store(rets + 8 * k, i64, r); I.store(errs + 4 * k, i32, e); R.append(I.term(r, 64)); E.append(I.term(e, 32))
    log = I.new_obj(8 * 4 * K, 'calllog', 'heap'); nc = I.new_obj(4, 'ncalls', 'heap')
    return rets, errs, log, nc, R, E


def read_log(I, log, n):
    out = []
    for k in range(n):
        kind = I.concretize(I.load(log + 32 * k, i64), 'kind'); fd = I.load(log + 32 * k + 8, i64); cnt = I.load(log + 32 * k + 16, i64); off = I.load(log + 32 * k + 24, i64)
        out.append((kind, fd, cnt, off))
    return out


def check_writes(I, calls, R, E, start, size_t, what):
    """consecutive write() calls from index `start` for one buffer of size_t bytes.  Each must continue at the current offset and ask for
    no more than what remains.  A failed call may be retried (another write follows) or abort the operation (no further call at all).
    Returns (index after the group, aborted?, bytes written)"""
    off = z3.BitVecVal(0, 64); k = start
    while k < len(calls) and calls[k][0] == K_WRITE:
        kind, fd, cnt, boff = calls[k]
        I.obligation(I.term(boff, 64) == off, 'write-offset', '%s: write() does not continue at the current offset' % what)
        I.obligation(z3.And(z3.ULE(I.term(cnt, 64), size_t - off), z3.ULE(I.term(cnt, 64), MAXW)), 'write-count', '%s: write() asks for more than the remaining bytes' % what)
        if I.decide(Sym(R[k] == z3.BitVecVal(-1, 64), 1), 'write fails'):
            k += 1
            if k == len(calls): return k, True, off                      # gave up after the failure: must be reported
            if calls[k][0] != K_WRITE: raise Finding('lost-error', '%s: goes on with other calls after a failed write()' % what)
            continue                                                      # retried
        off = off + R[k]; k += 1
        if I.decide(Sym(z3.UGE(off, size_t), 1), 'all written'): break        # reliable_write's loop ends here (do ... while (offset < size))
    return k, False, off


def h_reliable_write(I, job):
    K = job['calls']
    size = I.named('size', 64); st = I.term(size, 64); I.assume(z3.ULE(st, job['maxsize']))
    if 'sizes' in job: I.assume(z3.Or([st == v for v in job['sizes']]))
    buf = I.new_obj(16, 'buf', 'heap')
    rets, errs, log, nc, R, E = make_script(I, K)
    rc = I.concretize(I.call('@verif_reliable_write', [3, buf, size, rets, errs, K, log, 4 * K, nc]), 'rc')
    if rc == 77: raise PathEnd()          # native run: the script violates a stub contract (not a valid input)
    I.observe('rc', rc)
    n = I.concretize(I.load(nc, i32), 'ncalls'); I.observe('ncalls', n)
    calls = read_log(I, log, min(n, K))
    if any(c[0] != K_WRITE for c in calls): raise Finding('calls', 'reliable_write makes a call other than write()')
    k, failed, off = check_writes(I, calls, R, E, 0, st, 'reliable_write')
    if rc == 0:
        if failed: raise Finding('lost-error', 'reliable_write returns normally although it gave up after a failed write()')
        I.obligation(off == st, 'short-write', 'reliable_write returns normally before all bytes were written')
    elif rc == 1:
        if not failed: raise Finding('spurious-error', 'reliable_write throws although its last write() did not fail')
    else: raise Finding('exception-type', 'rc=%d' % rc)
    I.reach('end')


def h_no_compressor(I, job):
    K = job['calls']; fd = job['fd']; sync = job['sync']
    sa = I.named('size_a', 64); sb = I.named('size_b', 64)
    for s in (sa, sb): I.assume(z3.ULE(I.term(s, 64), MAXSZ))
    sac = I.concretize(sa, 'size a'); sbc = I.concretize(sb, 'size b')
    rets, errs, log, nc, R, E = make_script(I, K)
    stage = I.new_obj(4, 'stage', 'heap'); fs = I.new_obj(8, 'fsize', 'heap')
    rc = I.concretize(I.call('@verif_no_compressor', [fd, sync, sac, sbc, rets, errs, K, log, 4 * K, nc, stage, fs]), 'rc')
    if rc == 77: raise PathEnd()          # native run: the script violates a stub contract (not a valid input)
    I.observe('rc', rc)
    n = I.concretize(I.load(nc, i32), 'ncalls'); stg = I.concretize(I.load(stage, i32), 'stage'); I.observe('stage', stg)
    calls = read_log(I, log, min(n, K))
    k = 0; failed = False
    for part, sz in (('first write', sac), ('second write', sbc)):
        k, failed, off = check_writes(I, calls, R, E, k, z3.BitVecVal(sz, 64), part)
        if failed: break
        I.obligation(off == sz, 'short-write', '%s: not all bytes were handed to write()' % part)
    if not failed and fd != 1:
        if sync:
            if k >= len(calls) or calls[k][0] != K_FSYNC: raise Finding('fsync', 'fsync requested but close() does not call fsync() before closing')
            failed = I.decide(Sym(R[k] != 0, 1), 'fsync fails'); k += 1
        if not failed:
            if k >= len(calls) or calls[k][0] != K_CLOSE: raise Finding('close', 'close() does not close the file descriptor')
            failed = I.decide(Sym(R[k] != 0, 1), 'close fails'); k += 1
    if k != len(calls): raise Finding('calls', 'unexpected extra OS calls (%d made, %d expected): sync without request, close of stdout, or a second close' % (len(calls), k))
    if failed:
        if rc != 1: raise Finding('lost-error', 'an OS call failed but the compressor reports success (rc=%d)' % rc)
    else:
        if rc != 0: raise Finding('spurious-error', 'no OS call failed but an exception was thrown (rc=%d)' % rc)
        if stg != 4: raise Finding('stage', 'not all steps completed')
        if I.concretize(I.load(fs, i64), 'fsize') != sac + sbc: raise Finding('file-size', 'file_size() differs from the number of bytes written')
    I.reach('end')


def h_gzip_compressor(I, job):
    K = job['calls']; fd = job['fd']; sync = job['sync']
    sa = I.named('size_a', 8); I.assume(z3.ULE(I.term(sa, 8), 3)); sa = I.concretize(sa, 'size a')
    rets, errs, log, nc, R, E = make_script(I, K)
    stage = I.new_obj(4, 'stage', 'heap'); fs = I.new_obj(8, 'fsize', 'heap')
    rc = I.concretize(I.call('@verif_gzip_compressor', [fd, sync, sa, rets, errs, K, log, 4 * K, nc, stage, fs]), 'rc')
    if rc == 77: raise PathEnd()          # native run: the script violates a stub contract (not a valid input)
    I.observe('rc', rc)

    n = I.concretize(I.load(nc, i32), 'ncalls'); calls = read_log(I, log, min(n, K))
    k = 0; want = 0           # expected rc: 0 ok, 1 system_error, 2 gzip_error
    def nxt(kind, what):
        nonlocal k
        if k >= len(calls) or calls[k][0] != kind: raise Finding('calls', 'expected %s as call %d, log is %s' % (what, k, [c[0] for c in calls]))
        k += 1; return k - 1
    j = nxt(K_DUP, 'dup')
    if I.decide(Sym(R[j] == z3.BitVecVal(-1, 64), 1), 'dup fails'): want = 1
    else:
        j = nxt(K_GZDOPEN, 'gzdopen')
        if I.decide(Sym(R[j] == 0, 1), 'gzdopen fails'): want = 2
        else:
            if sa:
                j = nxt(K_GZWRITE, 'gzwrite')
                I.obligation(I.term(calls[j][2], 64) == sa, 'write-count', 'gzwrite called with a different length')
                if I.decide(Sym(R[j] == 0, 1), 'gzwrite fails'): want = 2
            if not want:
                j = nxt(K_GZCLOSE, 'gzclose_w')
                if I.decide(Sym(R[j] != 0, 1), 'gzclose fails'): want = 2
                elif fd != 1:
                    j = nxt(K_FSTAT, 'fstat')
                    if I.decide(Sym(R[j] == z3.BitVecVal(-1, 64), 1), 'fstat fails'): want = 1
                    else:
                        fsz = R[j]
                        if sync:
                            j = nxt(K_FSYNC, 'fsync')
                            if I.decide(Sym(R[j] != 0, 1), 'fsync fails'): want = 1
                        if not want:
                            j = nxt(K_CLOSE, 'close')
                            if I.decide(Sym(R[j] != 0, 1), 'close fails'): want = 1
    if k != len(calls): raise Finding('calls', 'unexpected extra library/OS calls: %s' % [c[0] for c in calls])
    if rc != want: raise Finding('lost-error' if want else 'spurious-error', 'gzip compressor outcome rc=%d, the fault script requires %d (0 ok, 1 system_error, 2 gzip_error)' % (rc, want))
    if not want and fd != 1: I.obligation(I.term(I.load(fs, i64), 64) == fsz, 'file-size', 'file_size() differs from fstat')
    I.reach('end')


def h_bzip2_compressor(I, job):
    """Bzip2Compressor: construct, nwrites x write(a) (also with no write at all and with empty data), close(), close(): the file holds a complete bzip2 stream or an exception is thrown"""
    K = job['calls']; fd = job['fd']; sync = job['sync']; nw = job['writes']
    sa = I.named('size_a', 8); I.assume(z3.ULE(I.term(sa, 8), 2)); sa = I.concretize(sa, 'size a')
    rets, errs, log, nc, R, E = make_script(I, K)
    stage = I.new_obj(4, 'stage', 'heap'); fs = I.new_obj(8, 'fsize', 'heap')
    rc = I.concretize(I.call('@verif_bzip2_compressor', [fd, sync, sa, nw, rets, errs, K, log, 4 * K, nc, stage, fs]), 'rc')
    if rc == 77: raise PathEnd()
    I.observe('rc', rc)
    n = I.concretize(I.load(nc, i32), 'ncalls'); calls = read_log(I, log, min(n, K))
    kinds = [c[0] for c in calls]
    failed = False; opened = False; closed_ok = False; written = 0; csize = None
    for j, (kind, fdv, cnt, off) in enumerate(calls):
        if kind == K_FDOPEN: bad = I.decide(Sym(R[j] != 1, 1), 'fdopen fails')
        elif kind == K_BZWOPEN:
            bad = I.decide(Sym(R[j] != 1, 1), 'bzWriteOpen fails'); opened = opened or not bad
        elif kind == K_BZWRITE:
            bad = I.decide(Sym(R[j] != 0, 1), 'bzWrite fails')
            ln = I.concretize(cnt, 'bzWrite length')
            if ln != sa: raise Finding('write-count', 'BZ2_bzWrite called with length %d, the data has %d bytes' % (ln, sa))
            if not bad: written += ln
        elif kind == K_BZWCLOSE:
            bad = I.decide(Sym(z3.Extract(63, 63, R[j]) == 1, 1), 'bzWriteClose fails'); closed_ok = closed_ok or not bad
            if not bad: csize = R[j]
        elif kind in (K_FSYNC, K_FCLOSE): bad = I.decide(Sym(R[j] != 0, 1), 'fsync/fclose fails')
        elif kind == K_CLOSE: bad = False             # descriptor closed after a failed fdopen: its own result does not matter
        else: raise Finding('calls', 'unexpected call kind %d in %s' % (kind, kinds))
        # the destructor-time fclose after a failed constructor is clean-up: its failure need not be reported separately
        if bad and not (kind == K_FCLOSE and failed): failed = True
    if failed:
        if rc == 0: raise Finding('lost-error', 'Bzip2Compressor returns normally although a library / OS call failed (calls %s)' % kinds)
    else:
        if rc != 0: raise Finding('spurious-error', 'Bzip2Compressor throws (rc=%d) although no call failed (calls %s)' % (rc, kinds))
        # complete valid file: the stream was opened, received all the data, was closed, synced if asked for, and the file closed (unless stdout)
        if not (opened and closed_ok): raise Finding('incomplete-file', 'close() returns normally but the bzip2 stream was never opened / closed (calls %s): the file is not a valid bzip2 file' % kinds)
        if written != nw * sa: raise Finding('incomplete-file', '%d of %d data bytes were handed to the library' % (written, nw * sa))
        if kinds.index(K_BZWOPEN) > min([i for i, k_ in enumerate(kinds) if k_ in (K_BZWRITE, K_BZWCLOSE)]): raise Finding('calls', 'stream written or closed before it was opened')
        if sync and K_FSYNC not in kinds: raise Finding('no-fsync', 'fsync requested but not called')
        if sync and kinds.index(K_FSYNC) < kinds.index(K_BZWCLOSE): raise Finding('no-fsync', 'fsync called before the stream was finished')
        if fd != 1 and K_FCLOSE not in kinds: raise Finding('not-closed', 'the file was not closed')
        if fd == 1 and K_FCLOSE in kinds: raise Finding('stdout-closed', 'stdout was closed')
        I.obligation(I.term(I.load(fs, i64), 64) == csize, 'file-size', 'file_size() differs from the compressed size reported by the library')
    I.reach('end')


def gen_script(K, extra):
    def g(rnd):
        out = []
        for _ in range(10):
            d = dict(extra(rnd))
            for k in range(K): d['ret%d' % k] = rnd.choice([0, 1, 2, 3, 5, (1 << 64) - 1, 0, 0, 1]); d['errno%d' % k] = rnd.choice([EINTR, 5, 28])
            out.append(d)
        return out
    return g


POPS = '@_ZN6osmium2io6detail13queue_wrapperINSt7__cxx1112basic_stringIcSt11char_traitsIcESaIcEEEE3popEv'
PSETV = '@_ZNSt7promiseImE9set_valueEOm'
PSETX = '@_ZNSt7promiseImE13set_exceptionENSt15__exception_ptr13exception_ptrE'


def setup_write_stage(I):
    for sym in (POPS, PSETV, PSETX):
        if sym not in I.m.funcs: raise Exception('%s not found in the IR (inlined?)' % sym)
    I.overrides[POPS] = lambda I_, ret, this: I_.call('@verif_model_pop_string', [ret, this])
    I.overrides[PSETV] = lambda I_, this, v: I_.call('@verif_rec_size_value', [this, v])
    I.overrides[PSETX] = lambda I_, this, e: I_.call('@verif_rec_size_exception', [this, e])


def h_write_stage(I, job):
    """WriteThread::operator() in one thread: scripted input queue (data, end of data, or a relayed encoder failure), mock compressor whose write / close may throw"""
    N = job['n']
    def small(name, hi):
        v = I.named(name, 8); I.assume(z3.ULE(I.term(v, 8), hi)); return I.concretize(v, name)
    pt = small('pop_throw_at', N); end_at = small('end_at', N); wt = small('write_throw_at', N); ct = small('close_throws', 1)
    pta = pt if pt < N else 99; wta = wt if wt < N else 99
    out = I.new_obj(64, 'rec', 'heap'); tail = I.new_obj(8, 'tail', 'heap')
    n = I.concretize(I.call('@verif_write_thread', [pta, end_at, wta, ct, out, 64, tail]), 'n')
    got = bytes(I.concretize(I.load(out + k, i8), 'ev') for k in range(min(n, 64))).decode()
    notif = I.concretize(I.load(tail, i32), 'notification'); shut = I.concretize(I.load(tail + 4, i32), 'shutdown')
    I.observe('events', got)
    # reference: every data item written in order; after the end marker close() then the file size as the promise value; any failure -> exactly one
    # promise exception, the notification flag and a shut-down queue (producers must not block for ever), nothing written afterwards
    ev = ''; j = 0; w = 0; failed = False
    while True:
        ev += 'p'
        if j == pta: failed = True; break
        if j >= end_at: break
        ev += 'w'
        if w == wta: failed = True; break
        w += 1; j += 1
    if not failed:
        ev += 'c'
        if ct: failed = True
    ev += 'x' if failed else 'V'
    if got != ev: raise Finding('relay', 'write stage does %r, the relay law requires %r (p pop, w write, c close, V size delivered, x exception delivered)' % (got, ev))
    if failed and not (notif and shut): raise Finding('relay', 'after a failure the notification flag (%d) is not set or the input queue is not shut down (%d): the producer would never learn of the error / block on a full queue' % (notif, shut))
    if not failed and (notif or shut): raise Finding('relay', 'notification flag / queue shutdown without a failure')
    I.reach('end')


def setup_writer(I):
    import C07
    C07.setup(I)


def h_writer_states(I, job):
    """Writer::operator()(item) / flush / operator()(Buffer&&) / set_buffer_size / close as a state machine over a mock output format and recorded queue operations"""
    nops = job['ops']; BS = job['buffer_size']; ALT = job['alt_size']
    def small(name, hi):
        v = I.named(name, 8); I.assume(z3.ULE(I.term(v, 8), hi)); return I.concretize(v, name)
    thr = small('throw_at', job['max_throw'])            # max_throw = never reached within the script
    om = I.new_obj(nops, 'ops', 'heap'); ops = []
    for k in range(nops):
        o = small('op%d' % k, 4); I.store(om + k, i8, o); ops.append(o)
    res = I.new_obj(4 * nops, 'res', 'heap'); seen = I.new_obj(8 * 16, 'seen', 'heap'); ns = I.new_obj(4, 'nseen', 'heap'); out = I.new_obj(96, 'rec', 'heap'); st = I.new_obj(4, 'status', 'heap')
    n = I.concretize(I.call('@verif_writer_states', [om, nops, BS, ALT, thr, res, seen, 16, ns, out, 96, st]), 'n')
    got = bytes(I.concretize(I.load(out + k, i8), 'ev') for k in range(min(n, 96))).decode()
    results = [I.concretize(I.load(res + 4 * k, i32), 'res') for k in range(nops)]
    nseen = I.concretize(I.load(ns, i32), 'nseen'); ids = [I.concretize(I.load(seen + 8 * k, i64), 'id') for k in range(min(nseen, 16))]
    status = I.concretize(I.load(st, i32), 'status')
    I.observe('events', got)
    # what must hold for every history (independent of how the writer batches objects into buffers):
    handed = 0; state = 0; failed_at = None
    names = {0: 'operator()(item)', 1: 'flush()', 2: 'operator()(Buffer)', 3: 'set_buffer_size()', 4: 'close()'}
    k_ev = 0
    for k, o in enumerate(ops):
        if o == 3:
            if results[k] != 0: raise Finding('writer-state', 'set_buffer_size throws')
            continue
        if state != 0:
            # a writer in error or closed state refuses further data (close() of a closed writer is a no-op)
            if o == 4:
                if results[k] != 0: raise Finding('writer-state', 'close() on a %s writer throws' % ('closed' if state == 2 else 'failed'))
            elif results[k] != 1: raise Finding('writer-state', '%s on a writer in state %d returns %d instead of throwing io_error' % (names[o], state, results[k]))
            continue
        if results[k] == 2: state = 1; failed_at = k
        elif results[k] == 1: raise Finding('writer-state', '%s throws io_error on a writer that is in order' % names[o])
        else:
            if o in (0, 2): handed += 1
            if o == 4: state = 2
        if results[k] == 2 and o in (0, 2): handed += 1           # the object was handed over; it may or may not have reached the output before the failure
    if status != state: raise Finding('writer-state', 'status %d after the script, expected %d (0 okay, 1 error, 2 closed)' % (status, state))
    # the events: header once and first; no empty buffer (an empty buffer becomes the empty string, which is the end-of-data marker of the write queue);
    # write_end once and only on close; the end-of-data marker exactly once when closed or failed, never otherwise; an exception on the queue iff failed
    body = got
    if 'b0' in body: raise Finding('empty-buffer', 'an empty buffer is handed to the output format (its encoding, the empty string, ends the write thread early): events %r' % got)
    if body.count('H') > 1 or ('b' in body and not body.startswith('H')): raise Finding('header', 'header written %d times / not first: %r' % (body.count('H'), got))
    if state == 0:
        if 'E' in body or 'X' in body or 'w' in body: raise Finding('early-end', 'end-of-data marker, exception or write_end although the writer is still open: %r' % got)
    elif state == 2:
        if not body.endswith('wE') or body.count('E') != 1 or body.count('w') != 1 or 'X' in body: raise Finding('close', 'close() must finish with write_end and exactly one end-of-data marker: %r' % got)
    else:
        if not body.endswith('XE') or body.count('E') != 1 or body.count('X') != 1: raise Finding('lost-error', 'a failing output must put the exception and then one end-of-data marker on the queue: %r' % got)
    # objects: what reached the output is a prefix-order subsequence 1..m without gaps or repeats; complete when flushed / closed without failure
    if ids != list(range(1, len(ids) + 1)): raise Finding('objects', 'objects reached the output as %s (expected 1, 2, 3, ... in order, each once)' % ids)
    if state == 2 and len(ids) != handed: raise Finding('objects', '%d objects handed to the writer, %d reached the output before close() returned' % (handed, len(ids)))
    if state == 0 and ops and [o for o in ops if o != 3][-1:] == [1] and len(ids) != handed: raise Finding('objects', 'flush() returned but only %d of %d objects reached the output' % (len(ids), handed))
    if len(ids) > handed: raise Finding('objects', 'more objects reached the output than were handed over')
    I.reach('end')


def bzip2_harness(tier):
    q = tier == 'quick'
    return Harness('bzip2_compressor', 'io', h_bzip2_compressor, jobs=[dict(calls=7, fd=f, sync=sy, writes=w) for f in (1, 5) for sy in (0, 1) for w in ((0, 1) if q else (0, 1, 2))],
                   desc='Bzip2Compressor (fdopen, BZ2_bzWriteOpen, BZ2_bzWrite, BZ2_bzWriteClose64, fsync, fclose as scripted stubs returning any value their contracts allow) constructed, written to 0-2 times (empty data included), closed twice: normal return iff no call failed; then the stream was opened before use, received exactly the data, was finished before fsync, the file was closed (stdout never), file_size() is the size the library reported -- also when nothing was written (an empty stream is still a complete file)',
                   bounds='<= 7 library / OS calls, data of 0..2 bytes, fd 1 (stdout) and 5, with and without fsync')


def harnesses(tier):
    q = tier == 'quick'
    K = 3 if q else 4
    hs = [
        Harness('reliable_write', 'io', h_reliable_write, jobs=[dict(calls=3, maxsize=1 << 31), dict(calls=2, maxsize=(1 << 31) + (1 << 28))] + ([] if q else [dict(calls=4, maxsize=1 << 31, sizes=[v]) for v in (3, 4, 7, 1 << 31)]),
                desc='reliable_write with up to %d write() calls returning arbitrary values allowed by POSIX (short writes, EINTR, any errno), symbolic size: each write continues at the current offset with count <= remaining (<= 100 MiB); normal return iff everything was written and nothing but EINTR failed; otherwise std::system_error' % K,
                bounds='<= 3 write() calls with symbolic size <= 2^31 (+2^28 with 2 calls)%s' % ('' if q else '; 4 calls with size 3, 4, 7, 2^31 (the 4-call sum over a symbolic 64-bit size, or a size just above the 100 MiB write limit, is not decided by the solver: unknown after 90 s + 240 s)'), testgen=gen_script(3, lambda rnd: {'size': rnd.choice([0, 1, 3, 6])}), wall=900),
        Harness('no_compressor', 'io', h_no_compressor, jobs=[dict(calls=5 if q else 6, fd=f, sync=s) for f in (1, 5) for s in (0, 1)],
                desc='NoCompressor: write, write, close, close on fd 1 (stdout) and fd 5, fsync yes/no, with an arbitrary fault script: every byte handed to write() in order; fsync before close iff requested; stdout neither synced nor closed; second close harmless; any failing call surfaces as std::system_error, none spuriously; file_size()',
                bounds='<= 6 OS calls, two writes of <= 3 bytes', testgen=gen_script(5 if q else 6, lambda rnd: {'size_a': rnd.randint(0, 4), 'size_b': rnd.randint(0, 4)})),
        Harness('gzip_compressor', 'io', h_gzip_compressor, jobs=[dict(calls=7, fd=f, sync=s) for f in (1, 5) for s in (0, 1)],
                desc='GzipCompressor: construct (dup, gzdopen), write, close, close under arbitrary return codes of dup/gzdopen/gzwrite/gzclose_w/fstat/fsync/close: every failing call surfaces as gzip_error / system_error; order of calls; stdout not closed',
                bounds='<= 7 library/OS calls, one write of 0..3 bytes', testgen=gen_script(7, lambda rnd: {'size_a': rnd.randint(0, 3)})),
    ]
    hs.append(bzip2_harness(tier))
    N = 3 if q else 4
    hs.append(Harness('writer_states', 'relay', h_writer_states, setup=setup_writer, native_ok=False,
                      jobs=[dict(ops=k, buffer_size=bs, alt_size=alt, max_throw=mt) for k in ((4, 5) if q else (4, 5, 6)) for (bs, alt, mt) in ((64, 128, 3), (128, 64, 9), (200, 100, 1))],
                      desc='Writer::operator()(item), flush(), operator()(Buffer&&), set_buffer_size(), close() as a state machine on a partially constructed Writer with a mock output format (whose n-th write_buffer may throw) and recorded queue operations, for every operation sequence: the header is written once and first, no empty buffer ever reaches the output format (its encoding is the end-of-data marker), objects reach the output in order, each once, all of them once flush() / close() has returned; close() ends with write_end and one end-of-data marker; a failing output puts the exception and one end-of-data marker on the queue, the call throws, and the writer refuses further data; a closed writer refuses data',
                      bounds='every sequence of <= %d operations over 5 kinds, internal buffer sizes 64 / 128 / 200 bytes (one to three nodes), 3 failure positions; the write thread itself is C08 write_stage; threads are not started' % (5 if q else 6)))
    hs.append(Harness('write_stage', 'relay', h_write_stage, jobs=[dict(n=N)], setup=setup_write_stage, native_ok=False,
                      desc='WriteThread::operator() driven in one thread: the input queue delivers data items, the end-of-data marker, or a relayed encoder exception at a symbolic position; the (mock) compressor fails at a symbolic write or in close(): every item is written in order, close() follows the end marker, the promise gets the file size exactly once; after any failure exactly one exception is put into the promise, the notification flag is set, the input queue is shut down and nothing more is written',
                      bounds='<= %d items; promise and queue-pop operations at the stage boundary are recorders / scripts; threads are not started' % N))
    return hs
