"""C13 — coordinate / timestamp / number text conversions (E2, INT mode)"""
import z3
from fw import Harness
from llsym import Finding, Sym
from irparse import IntTy
i8, i32, i64 = IntTy(8), IntTy(32), IntTy(64)


def h_roundtrip(I, job):
    x = I.named('x', 32)
    buf = I.new_obj(16, 'buf', 'heap')
    n = I.concretize(I.call('@verif_format_coord', [buf, x]), 'n')
    if not (1 <= n <= 12): raise Finding('length', 'format wrote %d characters' % n)
    I.store(buf + n, i8, 0)
    c = I.new_obj(4, 'c', 'heap'); o = I.new_obj(4, 'o', 'heap')
    r = I.concretize(I.call('@verif_parse_coord', [buf, c, o]), 'r')
    I.observe('rc', r)
    if r != 0: raise Finding('reject', 'parser rejects the formatter\'s own output')
    ov = I.load(o, i32); cv = I.load(c, i32)
    I.observe('value', ov); I.observe('consumed', cv)
    I.obligation(I.icmp('eq', 32, ov, x), 'roundtrip', 'parse(format(x)) != x')
    I.obligation(I.icmp('eq', 32, cv, n), 'consumed', 'formatted text not fully consumed')
    I.reach('end')


def gen_rt(rnd):
    return [{'x': rnd.getrandbits(32)} for _ in range(20)]


def harnesses(tier):
    return [
        Harness('coord_roundtrip', 'text', h_roundtrip, mode='INT', desc='for all int32 x: parse(format(x)) == x and fully consumed',
                bounds='none on x (all 2^32 values, decided per control-flow path)',
                tests=[{'x': v & 0xffffffff} for v in (0, 1, -1, 10, 1800000000, -1800000000, 2147483647, -2147483648, 1234567, 100000000, 99999999)],
                testgen=gen_rt, wall=900),
    ]
