"""C13 — coordinate / timestamp / number text conversions (E2, INT mode)"""
import z3
from fw import Harness
from llsym import Finding, Sym
from irparse import IntTy
i8, i32, i64 = IntTy(8), IntTy(32), IntTy(64)


def h_roundtrip(I, job):
    x = I.named('x', 32)
    buf = I.new_obj(16, 'buf', 'heap')
    n = I.concretize(I.call('@verif_format_coord', [buf, x]), 'n')
    if not (1 <= n <= 12): raise Finding('length', 'format wrote %d characters' % n)
    I.store(buf + n, i8, 0)
    c = I.new_obj(4, 'c', 'heap'); o = I.new_obj(4, 'o', 'heap')
    r = I.concretize(I.call('@verif_parse_coord', [buf, c, o]), 'r')
    I.observe('rc', r)
    if r != 0: raise Finding('reject', 'parser rejects the formatter\'s own output')
    ov = I.load(o, i32); cv = I.load(c, i32)
    I.observe('value', ov); I.observe('consumed', cv)
    I.obligation(I.icmp('eq', 32, ov, x), 'roundtrip', 'parse(format(x)) != x')
    I.obligation(I.icmp('eq', 32, cv, n), 'consumed', 'formatted text not fully consumed')
    I.reach('end')



# ---------------------------------------------------------------- strict coordinate parsing against an exact reference
ZERO_EXP_BOUND = 40
LIM_INT, LIM_FRAC, LIM_EXP = 10, 27, 5        # digit counts the library documents as accepted (beyond: either verdict, but never a wrong value)


def is_digit(I, b):
    return I.decide(I.icmp('uge', 8, b, 48), 'cls') and I.decide(I.icmp('ule', 8, b, 57), 'cls')


def is_char(I, b, *chars):
    for c in chars:
        if I.decide(I.icmp('eq', 8, b, c), 'cls'): return True
    return False


def dig(I, b):
    """digit value of byte b (already known to be a digit) as an Int term"""
    return I.term(b, 8) - 48 if I.mode == 'INT' else z3.BV2Int(I.term(b, 8)) - 48


def scan_reference(I, byte_at):
    """scan the grammar  -?(D+(.D*)?|.D+)([eE]-?D+)?  forking on byte classes; returns None (no grammar prefix) or
    (neg, int_digits, frac_digits, has_exp, eneg, exp_digits, consumed)"""
    p = 0; neg = False
    if is_char(I, byte_at(p), 45): neg = True; p += 1
    ID = []; FD = []; ED = []; has_exp = False; eneg = False
    if is_char(I, byte_at(p), 46):
        if not is_digit(I, byte_at(p + 1)): return None
    else:
        if not is_digit(I, byte_at(p)): return None
        while is_digit(I, byte_at(p)): ID.append(byte_at(p)); p += 1
    if is_char(I, byte_at(p), 46):
        p += 1
        while is_digit(I, byte_at(p)): FD.append(byte_at(p)); p += 1
    if is_char(I, byte_at(p), 101, 69):
        has_exp = True; p += 1
        if is_char(I, byte_at(p), 45): eneg = True; p += 1
        if not is_digit(I, byte_at(p)): return None
        while is_digit(I, byte_at(p)): ED.append(byte_at(p)); p += 1
    return (neg, ID, FD, has_exp, eneg, ED, p)


def coord_reference(I, sc):
    """exact decimal semantics: returns ('reject',) | ('value', Int term r_signed) | ('either',) ; forks on the decimal exponent"""
    neg, ID, FD, has_exp, eneg, ED, p = sc
    digs = ID + FD
    M = z3.IntVal(0)
    for b in digs: M = M * 10 + dig(I, b)
    M = z3.simplify(M)
    E = z3.IntVal(0)
    for b in ED: E = E * 10 + dig(I, b)
    if eneg: E = -E
    K = z3.simplify(E - len(FD) + 7)               # r = round_half_up(M * 10^K)
    beyond = len(ID) > LIM_INT or len(FD) > LIM_FRAC or len(ED) > LIM_EXP
    Ks = Sym(K, 32) if z3.is_int_value(K) is False else K.as_long()
    if isinstance(Ks, Sym):
        if I.decide(Sym(K > 10, 1), 'K>10'): kcls = 'big'
        elif I.decide(Sym(K < -39, 1), 'K<-39'): kcls = 'tiny'
        else:
            # enumerate the remaining decimal exponents (at most 50 values)
            off = Sym(z3.simplify(K + 39), 32) if I.mode == 'INT' else None
            kv = I.decide_value(off, 'decimal exponent', cap=64) - 39
            kcls = kv
    else:
        kcls = 'big' if Ks > 10 else ('tiny' if Ks < -39 else Ks)
    if kcls == 'big':
        # M * 10^11 or more: representable only if M == 0
        if I.decide(Sym(M == 0, 1), 'M==0'):
            r = z3.IntVal(0)
            I.assume_feasible(K <= ZERO_EXP_BOUND)      # the scale loop runs K times on a zero mantissa: trip count bounded here (stated bound)
        else: return ('either',) if beyond else ('reject',)
    elif kcls == 'tiny': r = z3.IntVal(0)
    elif kcls >= 0: r = M * (10 ** kcls)
    else: r = (M + 5 * 10 ** (-kcls - 1)) / (10 ** (-kcls))
    r = -r if neg else r
    if beyond: return ('either-or-value', r)
    inrange = I.decide(Sym(z3.And(r >= -(1 << 31), r <= (1 << 31) - 1), 1), 'range')
    return ('value', r) if inrange else ('reject',)


def digit_byte(I, name):
    b = I.named(name, 8)
    I.assume(z3.And(I.term(b, 8) >= 48, I.term(b, 8) <= 57))
    if isinstance(b, Sym): b.lo, b.hi = 48, 57
    return b


def shaped_string(I, shape):
    """symbolic string of a fixed grammar shape: (int digits, frac digits | None, exponent sign | None, exponent digits, tail)"""
    nI, nF, es, nE, tail = shape
    bs = []
    sg = I.named('neg', 1)
    if I.decide(sg, 'sign'): bs.append(45)
    for k in range(nI): bs.append(digit_byte(I, 'i%d' % k))
    if nF is not None:
        bs.append(46)
        for k in range(nF): bs.append(digit_byte(I, 'f%d' % k))
    if es is not None:
        bs.append(69 if I.decide(I.named('upper_e', 1), 'e') else 101)
        if es < 0: bs.append(45)
        for k in range(nE): bs.append(digit_byte(I, 'e%d' % k))
    if tail: bs.append(tail)
    return bs


def h_parse(I, job):
    if I.mode != 'INT': raise Finding('harness', 'INT mode only')
    if 'shape' in job:
        bs = shaped_string(I, job['shape']); L = len(bs)
        buf = I.new_obj(L + 1, 'str', 'heap')
        for k, b in enumerate(bs): I.store(buf + k, i8, b)
    else:
        L = job['len']
        buf = I.new_obj(L + 1, 'str', 'heap')
        bs = []
        for k in range(L):
            b = I.named('s%d' % k, 8)
            I.assume(I.term(b, 8) != 0)
            if isinstance(b, Sym): b.lo = max(b.lo, 1)
            I.store(buf + k, i8, b); bs.append(b)
    I.store(buf + L, i8, 0); bs.append(0)
    sc = scan_reference(I, lambda k: bs[k] if k < len(bs) else 0)
    ref = ('reject',) if sc is None else coord_reference(I, sc)
    c = I.new_obj(4, 'c', 'heap'); o = I.new_obj(4, 'o', 'heap')
    fn = job.get('fn', 'partial')
    if fn == 'partial':
        rc = I.concretize(I.call('@verif_parse_coord', [buf, c, o]), 'rc')
    else:
        rc = I.concretize(I.call('@verif_set_lon', [buf, o]), 'rc')
        if sc is not None and not (isinstance(bs[sc[6]], int) and bs[sc[6]] == 0) and ref[0] != 'reject':
            ref = ('reject',)          # set_lon: characters after the number are an error
    I.observe('rc', rc)
    I.reach('end')
    if rc == 0:
        ov = I.load(o, i32); I.observe('value', ov)
        if ref[0] == 'reject':
            raise Finding('accepts-invalid', 'library accepts a string the decimal reference rejects (out of range or not in the grammar)')
        if ref[0] in ('value', 'either-or-value'):
            sv = I.signed_t(I.term(ov, 32), 32)
            I.obligation(sv == ref[1], 'wrong-value', 'library result differs from exact decimal rounding')
        if fn == 'partial':
            cv = I.load(c, i32); I.observe('consumed', cv)
            I.obligation(I.icmp('eq', 32, cv, sc[6]), 'consumed', 'consumed prefix is not the grammar prefix')
        I.reach('accepted')
    else:
        if ref[0] == 'value':
            raise Finding('rejects-valid', 'library rejects a grammar-valid, in-range coordinate')
        I.reach('rejected')


def shapes(tier):
    if tier == 'quick':
        NI, NF, EX = (1, 3, 10), (None, 1, 8, 9), ((None, 0), (1, 1), (-1, 1))
    else:
        NI, NF, EX = (0, 1, 2, 3, 9, 10, 11), (None, 0, 1, 7, 8, 9, 10, 12, 27, 28), ((None, 0), (1, 1), (-1, 1), (1, 2), (-1, 2), (1, 5), (-1, 5), (1, 6))
    out = []
    for ni in NI:
        for nf in NF:
            if ni == 0 and not nf: continue
            for (es, ne) in EX:
                out.append((ni, nf, es, ne, 0))
    if tier == 'quick': out += [(1, 12, 1, 1, 0), (3, 12, -1, 1, 0), (1, 9, 1, 2, 0), (11, None, None, 0, 0), (1, 28, None, 0, 0), (1, 1, 1, 6, 0)]
    out.append((3, 2, None, 0, 120)); out.append((2, None, 1, 1, 32))
    return out


def shape_inputs(sh):
    ni, nf, es, ne, tail = sh
    return ['i%d' % k for k in range(ni)] + ['f%d' % k for k in range(nf or 0)] + ['e%d' % k for k in range(ne if es is not None else 0)]


def lit(s):
    return dict(_job=len(s) - 1, **{'s%d' % k: ch for k, ch in enumerate(s.encode())})


def gen_parse(maxlen):
    def g(rnd):
        out = []
        for _ in range(30):
            L = rnd.randint(1, maxlen)
            out.append(lit(''.join(rnd.choice('0123456789.-eE9x ') for _ in range(L))))
        return out
    return g



# ---------------------------------------------------------------- timestamps
def days_from_civil(y, m, d):
    """days since 1970-01-01 of the proleptic Gregorian date (y, m, d); Int terms; exact (Hinnant's algorithm, floor division)"""
    y2 = y - z3.If(m <= 2, 1, 0)
    era = y2 / 400                                  # z3 Int division is floor for a positive divisor
    yoe = y2 - era * 400
    mp = z3.If(m > 2, m - 3, m + 9)
    doy = (153 * mp + 2) / 5 + d - 1
    doe = yoe * 365 + yoe / 4 - yoe / 100 + doy
    return era * 146097 + doe - 719468


def epoch_seconds(y, m, d, hh, mi, ss):
    return days_from_civil(y, m, d) * 86400 + hh * 3600 + mi * 60 + ss


def is_leap(y): return z3.And(y % 4 == 0, z3.Or(y % 100 != 0, y % 400 == 0))


def month_length(y, m):
    return z3.If(m == 2, z3.If(is_leap(y), 29, 28), z3.If(z3.Or(m == 4, m == 6, m == 9, m == 11), 30, 31))


def install_time_models(I):
    """libc boundary: gmtime_r yields an arbitrary valid broken-down time (named inputs tm_*), timegm is exact calendar arithmetic"""
    def sval(v):
        t = I.term(v, 32)
        return I.signed_t(t, 32) if isinstance(v, Sym) and v.hi >= (1 << 31) else t
    def timegm(I_, tm):
        # libc timegm is a function of the six fields: record them and return an opaque value; the harness compares the
        # fields (cheap, linear) instead of pushing calendar arithmetic through the digit decomposition
        raw = [I.load(tm + 4 * k, i32) for k in range(6)]
        if not any(isinstance(x, Sym) for x in raw):             # concrete run of the interpreter: exact value
            sg = lambda x: x - (1 << 32) if x >> 31 else x
            sec, mi, hr, d, mon, yr = [sg(x) for x in raw]
            return z3.simplify(epoch_seconds(z3.IntVal(yr + 1900), z3.IntVal(mon + 1), z3.IntVal(d), z3.IntVal(hr), z3.IntVal(mi), z3.IntVal(sec))).as_long() & ((1 << 64) - 1)
        f = [sval(x) for x in raw]
        r = I.fresh('timegm', 64)
        I.timegm_calls.append((f, r))
        return r
    def gmtime_r(I_, tp, tm):
        g = I.tm_fields
        for k, v in enumerate([g['sec'], g['min'], g['hour'], g['mday'], g['mon'] - 1, g['year'] - 1900]):
            sv_ = z3.simplify(v)
            I.store(tm + 4 * k, i32, sv_.as_long() if z3.is_int_value(sv_) else Sym(sv_, 32, g['lo'][k], g['hi'][k]))
        for k in (6, 7, 8): I.store(tm + 4 * k, i32, 0)
        return tm
    I.models['timegm'] = timegm; I.models['gmtime_r'] = gmtime_r


def check_value(I, v, Y, MO, D, HH, MI, SS, what):
    """library result v (i64) against the calendar value of the fields"""
    calls = getattr(I, 'timegm_calls', [])
    if len(calls) == 1 and isinstance(v, Sym) and v is calls[0][1]:
        (sec, mi, hr, d, mon, yr), r = calls[0]
        for got, want, nm in ((sec, SS, 'second'), (mi, MI, 'minute'), (hr, HH, 'hour'), (d, D, 'day'), (mon + 1, MO, 'month'), (yr + 1900, Y, 'year')):
            I.obligation(got == want, what, 'the %s handed to timegm differs from the %s in the text' % (nm, nm))
    else:
        sv = I.signed_t(I.term(v, 64), 64) if isinstance(v, Sym) else z3.IntVal(v - (1 << 64) if v >> 63 else v)
        I.obligation(sv == epoch_seconds(Y, MO, D, HH, MI, SS), what, 'value differs from exact calendar arithmetic on the fields')


def h_ts_roundtrip(I, job):
    """for every valid broken-down time that gmtime_r can return for a uint32 t: parse_timestamp(to_iso(t)) == timegm(that time)"""
    y = I.named('year', 32); mo = I.named('mon', 32); d = I.named('mday', 32); hh = I.named('hour', 32); mi = I.named('min', 32); ss = I.named('sec', 32)
    Y, MO, D, HH, MI, SS = [I.term(v, 32) for v in (y, mo, d, hh, mi, ss)]
    I.assume(z3.And(Y >= 1970, Y <= 2106, MO >= 1, MO <= 12, D >= 1, D <= month_length(Y, MO), HH >= 0, HH <= 23, MI >= 0, MI <= 59, SS >= 0, SS <= 59))
    # uint32 timestamps end at 2106-02-07T06:28:15Z
    I.assume(z3.Or(Y < 2106, z3.And(Y == 2106, z3.Or(MO == 1, z3.And(MO == 2, z3.Or(D < 7, z3.And(D == 7, HH * 3600 + MI * 60 + SS <= 6 * 3600 + 28 * 60 + 15)))))))
    mc = I.concretize(mo, 'month')                              # fork over the 12 months: keeps every query linear and small
    MO = z3.IntVal(mc)
    I.timegm_calls = []
    I.tm_fields = dict(year=Y, mon=MO, mday=D, hour=HH, min=MI, sec=SS, lo=[0, 0, 0, 1, 0, 70], hi=[59, 59, 23, 31, 11, 206])
    if getattr(I, 'native', False) or not isinstance(y, Sym):
        t = z3.simplify(epoch_seconds(Y, MO, D, HH, MI, SS)).as_long()      # concrete runs: the real gmtime_r needs the real t
    else:
        t = 0                                                   # symbolic run: the gmtime_r model ignores its argument
    out = I.new_obj(32, 'iso', 'heap')
    n = I.concretize(I.call('@verif_iso', [t, out, 32]), 'len'); I.observe('len', n)
    if n != 20: raise Finding('iso-format', 'ISO text has %d characters, expected 20' % n)
    val = I.new_obj(8, 'val', 'heap'); cons = I.new_obj(4, 'cons', 'heap')
    rc = I.concretize(I.call('@verif_parse_timestamp', [out, val, cons]), 'rc'); I.observe('rc', rc)
    if rc != 0: raise Finding('reject', 'parser rejects the formatter\'s own ISO text')
    v = I.load(val, i64); I.observe('value', v)
    check_value(I, v, Y, MO, D, HH, MI, SS, 'roundtrip')
    I.obligation(I.icmp('eq', 32, I.load(cons, i32), 20), 'consumed', 'ISO text not fully consumed')
    I.reach('end')


TS_TEMPLATE = 'dddd-dd-ddTdd:dd:dd'


def h_ts_parse(I, job):
    """parse_timestamp on template strings with symbolic digits and separators against field-range rules and exact calendar arithmetic"""
    tail = job['tail']            # what follows the seconds: 'Z', '.dZ', ',ddZ', 'x' (symbolic byte), ...
    mut = job.get('mut')          # index of one template position whose byte is fully symbolic
    bs = []
    for k, c in enumerate(TS_TEMPLATE + tail):
        if k == mut or c == '?': b = I.named('c%d' % k, 8); I.assume(I.term(b, 8) != 0); bs.append(b)
        elif c == 'd': bs.append(digit_byte(I, 'd%d' % k))
        else: bs.append(ord(c))
    L = len(bs) + 1 + 8
    buf = I.new_obj(L, 'ts', 'heap')          # the parser advances the pointer by 19 before looking: strings are at least 19 long here
    for k, b in enumerate(bs): I.store(buf + k, i8, b)
    for k in range(len(bs), L): I.store(buf + k, i8, 0)
    # reference scan (forks only on the symbolic non-digit positions)
    def digit_val(k):
        b = bs[k]
        if isinstance(b, int): return (b - 48) if 48 <= b <= 57 else None
        if is_digit(I, b): return dig(I, b)
        return None
    ok = True; vals = {}
    for k, c in enumerate(TS_TEMPLATE):
        if c == 'd':
            v = digit_val(k)
            if v is None: ok = False; break
            vals[k] = v
        else:
            if not (isinstance(bs[k], int) and bs[k] == ord(c)) and not (isinstance(bs[k], Sym) and is_char(I, bs[k], ord(c))): ok = False; break
    consumed = None
    if ok:
        p = 19; get = lambda q: bs[q] if q < len(bs) else 0
        def isc(b, *cs): return (b in cs) if isinstance(b, int) else is_char(I, b, *cs)
        def isd(b): return (48 <= b <= 57) if isinstance(b, int) else is_digit(I, b)
        if isc(get(p), 90): consumed = p + 1
        elif isc(get(p), 46, 44) and isd(get(p + 1)):
            p += 1
            while isd(get(p)): p += 1
            if isc(get(p), 90): consumed = p + 1
            else: ok = False
        else: ok = False
    I.timegm_calls = []
    val = I.new_obj(8, 'val', 'heap'); cons = I.new_obj(4, 'cons', 'heap')
    rc = I.concretize(I.call('@verif_parse_timestamp', [buf, val, cons]), 'rc'); I.observe('rc', rc)
    I.reach('end')
    if not ok:
        if rc == 0: raise Finding('accepts-invalid', 'timestamp string outside the ISO grammar accepted')
        I.reach('rejected'); return
    num = lambda *ks: z3.simplify(z3.IntVal(0) + sum(vals[k] * 10 ** (len(ks) - 1 - j) for j, k in enumerate(ks)))
    Y, MO, D, HH, MI, SS = num(0, 1, 2, 3), num(5, 6), num(8, 9), num(11, 12), num(14, 15), num(17, 18)
    for k in range(1, 13):
        if I.decide(Sym(MO == k, 1), 'month'): MO = z3.IntVal(k); break
    lib_range = z3.And(Y >= 1900, MO >= 1, MO <= 12, D >= 1, D <= z3.If(MO == 2, 29, month_length(Y, MO)), HH <= 23, MI <= 59, SS <= 60)
    strict = z3.And(lib_range, D <= month_length(Y, MO))
    if rc == 0:
        I.obligation(lib_range, 'accepts-invalid', 'timestamp with a field out of range accepted')
        v = I.load(val, i64); I.observe('value', v)
        check_value(I, v, Y, MO, D, HH, MI, SS, 'wrong-value')
        I.obligation(I.icmp('eq', 32, I.load(cons, i32), consumed), 'consumed', 'consumed length differs from the grammar')
        I.reach('accepted')
    else:
        I.obligation(z3.Not(strict), 'rejects-valid', 'valid ISO timestamp rejected')
        I.reach('rejected')


def gen_ts(rnd):
    out = []
    for _ in range(25):
        y = rnd.choice([1970, 1972, 2000, 2023, 2024, 2038, 2100, 2105, rnd.randint(1970, 2105)]); m = rnd.randint(1, 12)
        ml = [31, 29 if (y % 4 == 0 and (y % 100 != 0 or y % 400 == 0)) else 28, 31, 30, 31, 30, 31, 31, 30, 31, 30, 31][m - 1]
        out.append(dict(year=y, mon=m, mday=rnd.choice([1, ml, rnd.randint(1, ml)]), hour=rnd.randint(0, 23), min=rnd.randint(0, 59), sec=rnd.randint(0, 59)))
    return out


def ts_lit(job_index, tail, s):
    d = {'_job': job_index}
    for k, ch in enumerate(s):
        c = (TS_TEMPLATE + tail)[k]
        if c == 'd': d['d%d' % k] = ord(ch)
        elif c == '?': d['c%d' % k] = ord(ch)
    return d



# ---------------------------------------------------------------- integer attributes
INT_KINDS = {0: ('object_id_type', -(1 << 63), (1 << 63) - 1), 1: ('changeset_id_type', 0, (1 << 32) - 1), 2: ('object_version_type', 0, (1 << 32) - 1),
             3: ('user_id_type', 0, (1 << 32) - 1), 4: ('int32_t', -(1 << 31), (1 << 31) - 1)}


def int_string(I, neg, nd, tail):
    bs = ([45] if neg else []) + [digit_byte(I, 'd%d' % k) for k in range(nd)] + ([tail] if tail else [])
    buf = I.new_obj(len(bs) + 1, 'num', 'heap')
    for k, b in enumerate(bs): I.store(buf + k, i8, b)
    I.store(buf + len(bs), i8, 0)
    V = z3.IntVal(0)
    for b in bs[(1 if neg else 0):(1 if neg else 0) + nd]: V = V * 10 + dig(I, b)
    return buf, (-V if neg else V), len(bs) - (1 if tail else 0)


def h_opl_int(I, job):
    kind, neg, nd, tail = job['kind'], job['neg'], job['digits'], job.get('tail', 0)
    name, lo, hi = INT_KINDS[kind]
    buf, V, plen = int_string(I, neg, nd, tail)
    out = I.new_obj(8, 'out', 'heap'); cons = I.new_obj(4, 'cons', 'heap')
    rc = I.concretize(I.call('@verif_opl_int', [kind, buf, out, cons]), 'rc'); I.observe('rc', rc)
    inrange = z3.And(V >= lo, V <= hi)
    if nd == 0:
        if rc == 0: raise Finding('accepts-invalid', 'opl_parse_int accepts a string without digits')
    elif rc == 0:
        I.obligation(inrange, 'accepts-invalid', 'opl_parse_int<%s> accepts a value outside the range of the type' % name)
        v = I.load(out, i64)
        I.obligation(I.sterm(v, 64) == V if isinstance(v, Sym) else z3.IntVal(v - (1 << 64) if v >> 63 else v) == V, 'wrong-value', 'opl_parse_int<%s> returns a different value' % name)
        I.obligation(I.icmp('eq', 32, I.load(cons, i32), plen), 'consumed', 'opl_parse_int does not stop at the end of the digits')
        I.reach('accepted')
    else:
        I.obligation(z3.Not(inrange), 'rejects-valid', 'opl_parse_int<%s> rejects a value inside the range of the type' % name)
        I.reach('rejected')
    I.reach('end')


def h_string_number(I, job):
    what, neg, nd, tail = job['what'], job['neg'], job['digits'], job.get('tail', 0)
    buf, V, plen = int_string(I, neg, nd, tail)
    out = I.new_obj(8, 'out', 'heap')
    rc = I.concretize(I.call('@verif_string_to_number', [what, buf, out]), 'rc'); I.observe('rc', rc)
    if what == 0:
        ok = z3.And(V > -(1 << 63), V < (1 << 63) - 1) if not tail and nd else z3.BoolVal(False)
        either = z3.And(V == (1 << 63) - 1, not tail and nd > 0)          # INT64_MAX cannot be told from an overflow through strtoll
    else:
        minus_one = neg and nd == 1 and not tail
        ok = z3.And(V >= 0, V <= (1 << 32) - 2, not neg and not tail and nd > 0) if not minus_one else (V == -1)
        either = z3.And(V == (1 << 32) - 1, not neg and not tail and nd > 0)       # the pinned test suite requires 4294967295 to be rejected here (the PBF and OPL readers accept it): either verdict
    if rc == 0:
        I.obligation(z3.Or(ok, either), 'accepts-invalid', 'a number outside the range of the type (or with trailing characters) is accepted')
        v = I.load(out, i64); sv = I.sterm(v, 64) if isinstance(v, Sym) else z3.IntVal(v - (1 << 64) if v >> 63 else v)
        I.obligation(sv == (z3.If(V == -1, 0, V) if what == 1 else V), 'wrong-value', 'the parsed value differs from the decimal value of the text')
        I.reach('accepted')
    else:
        I.obligation(z3.Not(ok), 'rejects-valid', 'a value inside the range of the type is rejected')
        I.reach('rejected')
    I.reach('end')


def gen_rt(rnd):
    return [{'x': rnd.getrandbits(32)} for _ in range(20)]


def harnesses(tier):
    maxlen = 5 if tier == 'quick' else 6
    return [
        Harness('coord_roundtrip', 'text', h_roundtrip, mode='INT', desc='for all int32 x: parse(format(x)) == x and fully consumed',
                bounds='none on x (all 2^32 values, decided per control-flow path)',
                tests=[{'x': v & 0xffffffff} for v in (0, 1, -1, 10, 1800000000, -1800000000, 2147483647, -2147483648, 1234567, 100000000, 99999999)],
                testgen=gen_rt, wall=900),
        Harness('coord_parse_short', 'text', h_parse, mode='INT', jobs=[{'len': L} for L in range(1, maxlen + 1)],
                desc='every NUL-free byte string of length <= %d: string_to_location_coordinate == exact decimal reference (value, acceptance, consumed prefix); nsw overflow obligations on every path' % maxlen,
                bounds='string length <= %d bytes; zero mantissa with decimal exponent > %d excluded (loop trip count)' % (maxlen, ZERO_EXP_BOUND), reach=('end', 'accepted', 'rejected'), sanitize=True,
                tests=[lit(x) for x in ('1', '-1', '1.5', '.5', '1e2', '1E-2', '-', '1e', '99e9', '180', '214.7', '-214.8', '1.2e1', '0.00000', '1e-9', '5e-8', '4e-8') if len(x) <= maxlen],
                testgen=gen_parse(maxlen), wall=900 if tier == 'quick' else 3000),
        Harness('coord_parse_shaped', 'text', h_parse, mode='INT', jobs=[{'shape': sh} for sh in shapes(tier)],
                desc='grammar-shaped long strings (every digit symbolic, sign and e/E symbolic): library == exact decimal reference, incl. digit-count limits',
                bounds='shapes: int digits x fraction digits x exponent sign/digits from a boundary set (%d shapes); zero mantissa with decimal exponent > %d excluded' % (len(shapes(tier)), ZERO_EXP_BOUND),
                reach=('end', 'accepted', 'rejected'), sanitize=True,
                tests=[dict(_job=0, neg=0, upper_e=0, **{k: 48 + (j * 7 + 3) % 10 for j, k in enumerate(shape_inputs(shapes(tier)[0]))})],
                wall=900 if tier == 'quick' else 3000),
        Harness('timestamp_roundtrip', 'text', h_ts_roundtrip, mode='INT', setup=install_time_models, testgen=gen_ts, wall=900 if tier == 'quick' else 3000,
                desc='for every broken-down time gmtime_r can return for a uint32 timestamp (all fields symbolic, day <= length of that month): parse_timestamp(to_iso_all(t)) == exact calendar value of those fields, 20 characters, fully consumed',
                bounds='none on the timestamp (1970-01-01 .. 2106-02-07); libc law timegm(gmtime_r(t)) = t assumed'),
        Harness('timestamp_parse', 'text', h_ts_parse, mode='INT', setup=install_time_models,
                jobs=[dict(tail=t) for t in ('Z', '.dZ', ',dddZ', '.d?', '?', '.?Z', '')] + [dict(tail='Z', mut=k) for k in ((4, 10, 13, 0, 18) if tier == 'quick' else range(19))],
                tests=[ts_lit(0, 'Z', '2015-12-31T23:59:59'), ts_lit(0, 'Z', '2016-02-29T00:00:60'), ts_lit(0, 'Z', '2015-13-01T00:00:00'), ts_lit(1, '.dZ', '2000-01-01T00:00:00.5')],
                reach=('end', 'accepted', 'rejected'),
                desc='parse_timestamp on ISO-shaped strings: all 14 digits symbolic (every field value incl. second 60, day 29..31, month 13, hour 24), fractional seconds, one arbitrary byte at a template position or after the seconds: accepted iff grammar and field ranges hold, value == exact calendar arithmetic, consumed length',
                bounds='19-character date-time template followed by the listed tails; one fully symbolic byte per job; February 29 of a non-leap year may be accepted (normalised by timegm) or rejected'),
        Harness('opl_parse_int', 'text', h_opl_int, mode='INT', reach=('end', 'accepted', 'rejected'),
                jobs=[dict(kind=k, neg=n, digits=d) for k in range(5) for n in (0, 1) for d in ((1, 10, 11, 19, 20) if k == 0 else (1, 9, 10, 11))] + [dict(kind=0, neg=0, digits=0), dict(kind=1, neg=0, digits=3, tail=120), dict(kind=0, neg=1, digits=0)],
                desc='opl_parse_int<T> for the five instantiations on [-]digits strings with symbolic digits around every type boundary: accepted iff the value fits the type, value exact, stops at the first non-digit',
                bounds='1..20 digits (lengths around the type boundaries)', tests=[dict(_job=0, d0=53)]),
        Harness('string_to_number', 'text', h_string_number, mode='INT', reach=('end', 'accepted', 'rejected'),
                jobs=[dict(what=0, neg=n, digits=d) for n in (0, 1) for d in (1, 18, 19, 20)] + [dict(what=1, neg=0, digits=d) for d in (1, 9, 10, 11)] + [dict(what=1, neg=1, digits=1), dict(what=1, neg=0, digits=2, tail=32), dict(what=0, neg=0, digits=2, tail=120), dict(what=1, neg=0, digits=0)],
                desc='string_to_object_id and string_to_ulong (version / changeset / uid attributes of XML) on [-]digits strings with symbolic digits: strict range, no trailing characters, "-1" means 0 for the unsigned attributes; libc strtoll/strtoul are C11 contract models',
                bounds='1..20 digits', tests=[dict(_job=0, d0=55)]),
    ]
