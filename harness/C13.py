"""C13 — coordinate / timestamp / number text conversions (E2, INT mode)"""
import z3
from fw import Harness
from llsym import Finding, Sym
from irparse import IntTy
i8, i32, i64 = IntTy(8), IntTy(32), IntTy(64)


def h_roundtrip(I, job):
    x = I.named('x', 32)
    buf = I.new_obj(16, 'buf', 'heap')
    n = I.concretize(I.call('@verif_format_coord', [buf, x]), 'n')
    if not (1 <= n <= 12): raise Finding('length', 'format wrote %d characters' % n)
    I.store(buf + n, i8, 0)
    c = I.new_obj(4, 'c', 'heap'); o = I.new_obj(4, 'o', 'heap')
    r = I.concretize(I.call('@verif_parse_coord', [buf, c, o]), 'r')
    I.observe('rc', r)
    if r != 0: raise Finding('reject', 'parser rejects the formatter\'s own output')
    ov = I.load(o, i32); cv = I.load(c, i32)
    I.observe('value', ov); I.observe('consumed', cv)
    I.obligation(I.icmp('eq', 32, ov, x), 'roundtrip', 'parse(format(x)) != x')
    I.obligation(I.icmp('eq', 32, cv, n), 'consumed', 'formatted text not fully consumed')
    I.reach('end')



# ---------------------------------------------------------------- strict coordinate parsing against an exact reference
ZERO_EXP_BOUND = 40
LIM_INT, LIM_FRAC, LIM_EXP = 10, 27, 5        # digit counts the library documents as accepted (beyond: either verdict, but never a wrong value)


def is_digit(I, b):
    return I.decide(I.icmp('uge', 8, b, 48), 'cls') and I.decide(I.icmp('ule', 8, b, 57), 'cls')


def is_char(I, b, *chars):
    for c in chars:
        if I.decide(I.icmp('eq', 8, b, c), 'cls'): return True
    return False


def dig(I, b):
    """digit value of byte b (already known to be a digit) as an Int term"""
    return I.term(b, 8) - 48 if I.mode == 'INT' else z3.BV2Int(I.term(b, 8)) - 48


def scan_reference(I, byte_at):
    """scan the grammar  -?(D+(.D*)?|.D+)([eE]-?D+)?  forking on byte classes; returns None (no grammar prefix) or
    (neg, int_digits, frac_digits, has_exp, eneg, exp_digits, consumed)"""
    p = 0; neg = False
    if is_char(I, byte_at(p), 45): neg = True; p += 1
    ID = []; FD = []; ED = []; has_exp = False; eneg = False
    if is_char(I, byte_at(p), 46):
        if not is_digit(I, byte_at(p + 1)): return None
    else:
        if not is_digit(I, byte_at(p)): return None
        while is_digit(I, byte_at(p)): ID.append(byte_at(p)); p += 1
    if is_char(I, byte_at(p), 46):
        p += 1
        while is_digit(I, byte_at(p)): FD.append(byte_at(p)); p += 1
    if is_char(I, byte_at(p), 101, 69):
        has_exp = True; p += 1
        if is_char(I, byte_at(p), 45): eneg = True; p += 1
        if not is_digit(I, byte_at(p)): return None
        while is_digit(I, byte_at(p)): ED.append(byte_at(p)); p += 1
    return (neg, ID, FD, has_exp, eneg, ED, p)


def coord_reference(I, sc):
    """exact decimal semantics: returns ('reject',) | ('value', Int term r_signed) | ('either',) ; forks on the decimal exponent"""
    neg, ID, FD, has_exp, eneg, ED, p = sc
    digs = ID + FD
    M = z3.IntVal(0)
    for b in digs: M = M * 10 + dig(I, b)
    M = z3.simplify(M)
    E = z3.IntVal(0)
    for b in ED: E = E * 10 + dig(I, b)
    if eneg: E = -E
    K = z3.simplify(E - len(FD) + 7)               # r = round_half_up(M * 10^K)
    beyond = len(ID) > LIM_INT or len(FD) > LIM_FRAC or len(ED) > LIM_EXP
    Ks = Sym(K, 32) if z3.is_int_value(K) is False else K.as_long()
    if isinstance(Ks, Sym):
        if I.decide(Sym(K > 10, 1), 'K>10'): kcls = 'big'
        elif I.decide(Sym(K < -39, 1), 'K<-39'): kcls = 'tiny'
        else:
            # enumerate the remaining decimal exponents (at most 50 values)
            off = Sym(z3.simplify(K + 39), 32) if I.mode == 'INT' else None
            kv = I.decide_value(off, 'decimal exponent', cap=64) - 39
            kcls = kv
    else:
        kcls = 'big' if Ks > 10 else ('tiny' if Ks < -39 else Ks)
    if kcls == 'big':
        # M * 10^11 or more: representable only if M == 0
        if I.decide(Sym(M == 0, 1), 'M==0'):
            r = z3.IntVal(0)
            I.assume_feasible(K <= ZERO_EXP_BOUND)      # the scale loop runs K times on a zero mantissa: trip count bounded here (stated bound)
        else: return ('either',) if beyond else ('reject',)
    elif kcls == 'tiny': r = z3.IntVal(0)
    elif kcls >= 0: r = M * (10 ** kcls)
    else: r = (M + 5 * 10 ** (-kcls - 1)) / (10 ** (-kcls))
    r = -r if neg else r
    if beyond: return ('either-or-value', r)
    inrange = I.decide(Sym(z3.And(r >= -(1 << 31), r <= (1 << 31) - 1), 1), 'range')
    return ('value', r) if inrange else ('reject',)


def digit_byte(I, name):
    b = I.named(name, 8)
    I.assume(z3.And(I.term(b, 8) >= 48, I.term(b, 8) <= 57))
    if isinstance(b, Sym): b.lo, b.hi = 48, 57
    return b


def shaped_string(I, shape):
    """symbolic string of a fixed grammar shape: (int digits, frac digits | None, exponent sign | None, exponent digits, tail)"""
    nI, nF, es, nE, tail = shape
    bs = []
    sg = I.named('neg', 1)
    if I.decide(sg, 'sign'): bs.append(45)
    for k in range(nI): bs.append(digit_byte(I, 'i%d' % k))
    if nF is not None:
        bs.append(46)
        for k in range(nF): bs.append(digit_byte(I, 'f%d' % k))
    if es is not None:
        bs.append(69 if I.decide(I.named('upper_e', 1), 'e') else 101)
        if es < 0: bs.append(45)
        for k in range(nE): bs.append(digit_byte(I, 'e%d' % k))
    if tail: bs.append(tail)
    return bs


def h_parse(I, job):
    if I.mode != 'INT': raise Finding('harness', 'INT mode only')
    if 'shape' in job:
        bs = shaped_string(I, job['shape']); L = len(bs)
        buf = I.new_obj(L + 1, 'str', 'heap')
        for k, b in enumerate(bs): I.store(buf + k, i8, b)
    else:
        L = job['len']
        buf = I.new_obj(L + 1, 'str', 'heap')
        bs = []
        for k in range(L):
            b = I.named('s%d' % k, 8)
            I.assume(I.term(b, 8) != 0)
            if isinstance(b, Sym): b.lo = max(b.lo, 1)
            I.store(buf + k, i8, b); bs.append(b)
    I.store(buf + L, i8, 0); bs.append(0)
    sc = scan_reference(I, lambda k: bs[k] if k < len(bs) else 0)
    ref = ('reject',) if sc is None else coord_reference(I, sc)
    c = I.new_obj(4, 'c', 'heap'); o = I.new_obj(4, 'o', 'heap')
    fn = job.get('fn', 'partial')
    if fn == 'partial':
        rc = I.concretize(I.call('@verif_parse_coord', [buf, c, o]), 'rc')
    else:
        rc = I.concretize(I.call('@verif_set_lon', [buf, o]), 'rc')
        if sc is not None and not (isinstance(bs[sc[6]], int) and bs[sc[6]] == 0) and ref[0] != 'reject':
            ref = ('reject',)          # set_lon: characters after the number are an error
    I.observe('rc', rc)
    I.reach('end')
    if rc == 0:
        ov = I.load(o, i32); I.observe('value', ov)
        if ref[0] == 'reject':
            raise Finding('accepts-invalid', 'library accepts a string the decimal reference rejects (out of range or not in the grammar)')
        if ref[0] in ('value', 'either-or-value'):
            sv = I.signed_t(I.term(ov, 32), 32)
            I.obligation(sv == ref[1], 'wrong-value', 'library result differs from exact decimal rounding')
        if fn == 'partial':
            cv = I.load(c, i32); I.observe('consumed', cv)
            I.obligation(I.icmp('eq', 32, cv, sc[6]), 'consumed', 'consumed prefix is not the grammar prefix')
        I.reach('accepted')
    else:
        if ref[0] == 'value':
            raise Finding('rejects-valid', 'library rejects a grammar-valid, in-range coordinate')
        I.reach('rejected')


def shapes(tier):
    if tier == 'quick':
        NI, NF, EX = (1, 3, 10), (None, 1, 8, 9, 12), ((None, 0), (1, 1), (-1, 1), (1, 2))
    else:
        NI, NF, EX = (0, 1, 2, 3, 9, 10, 11), (None, 0, 1, 7, 8, 9, 10, 12, 27, 28), ((None, 0), (1, 1), (-1, 1), (1, 2), (-1, 2), (1, 5), (-1, 5), (1, 6))
    out = []
    for ni in NI:
        for nf in NF:
            if ni == 0 and not nf: continue
            for (es, ne) in EX:
                out.append((ni, nf, es, ne, 0))
    out.append((3, 2, None, 0, 120)); out.append((2, None, 1, 1, 32))
    return out


def shape_inputs(sh):
    ni, nf, es, ne, tail = sh
    return ['i%d' % k for k in range(ni)] + ['f%d' % k for k in range(nf or 0)] + ['e%d' % k for k in range(ne if es is not None else 0)]


def lit(s):
    return dict(_job=len(s) - 1, **{'s%d' % k: ch for k, ch in enumerate(s.encode())})


def gen_parse(maxlen):
    def g(rnd):
        out = []
        for _ in range(30):
            L = rnd.randint(1, maxlen)
            out.append(lit(''.join(rnd.choice('0123456789.-eE9x ') for _ in range(L))))
        return out
    return g


def gen_rt(rnd):
    return [{'x': rnd.getrandbits(32)} for _ in range(20)]


def harnesses(tier):
    maxlen = 5 if tier == 'quick' else 7
    return [
        Harness('coord_roundtrip', 'text', h_roundtrip, mode='INT', desc='for all int32 x: parse(format(x)) == x and fully consumed',
                bounds='none on x (all 2^32 values, decided per control-flow path)',
                tests=[{'x': v & 0xffffffff} for v in (0, 1, -1, 10, 1800000000, -1800000000, 2147483647, -2147483648, 1234567, 100000000, 99999999)],
                testgen=gen_rt, wall=900),
        Harness('coord_parse_short', 'text', h_parse, mode='INT', jobs=[{'len': L} for L in range(1, maxlen + 1)],
                desc='every NUL-free byte string of length <= %d: string_to_location_coordinate == exact decimal reference (value, acceptance, consumed prefix); nsw overflow obligations on every path' % maxlen,
                bounds='string length <= %d bytes; zero mantissa with decimal exponent > %d excluded (loop trip count)' % (maxlen, ZERO_EXP_BOUND), reach=('end', 'accepted', 'rejected'), sanitize=True,
                tests=[lit(x) for x in ('1', '-1', '1.5', '.5', '1e2', '1E-2', '-', '1e', '99e9', '180', '214.7', '-214.8', '1.2e1', '0.00000', '1e-9', '5e-8', '4e-8') if len(x) <= maxlen],
                testgen=gen_parse(maxlen), wall=900 if tier == 'quick' else 3000),
        Harness('coord_parse_shaped', 'text', h_parse, mode='INT', jobs=[{'shape': sh} for sh in shapes(tier)],
                desc='grammar-shaped long strings (every digit symbolic, sign and e/E symbolic): library == exact decimal reference, incl. digit-count limits',
                bounds='shapes: int digits x fraction digits x exponent sign/digits from a boundary set (%d shapes); zero mantissa with decimal exponent > %d excluded' % (len(shapes(tier)), ZERO_EXP_BOUND),
                reach=('end', 'accepted', 'rejected'), sanitize=True,
                tests=[dict(_job=0, neg=0, upper_e=0, **{k: 48 + (j * 7 + 3) % 10 for j, k in enumerate(shape_inputs(shapes(tier)[0]))})],
                wall=900 if tier == 'quick' else 3000),
    ]
