"""C06 — parse result is independent of how the input byte stream is chunked (E2, BV mode)"""
import z3
from fw import Harness
from llsym import Finding, Sym
from irparse import IntTy
i8, i32 = IntTy(8), IntTy(32)

POP = '@_ZN6osmium2io6detail13queue_wrapperINSt7__cxx1112basic_stringIcSt11char_traitsIcESaIcEEEE3popEv'
SEND = '@_ZN6osmium2io6detail12add_to_queueINS_6memory6BufferEEEvRNS_6thread5QueueISt6futureIT_EEEOS8_'


def setup_env(I):
    I.overrides[POP] = lambda I_, ret, this: I_.call('@verif_model_pop', [ret, this])
    I.overrides[SEND] = lambda I_, q, b: I_.call('@verif_model_send', [q, b])


O5M_HDR = bytes([0xff, 0xe0, 0x04]) + b'o5m2'
O5M_F1 = O5M_HDR + bytes([0x10, 0x04, 0x02, 0x00, 0x02, 0x02, 0xfe])
O5M_F2 = (O5M_HDR + bytes([0x10, 0x11, 0x0a, 0x01, 0xc8, 0x01, 0x06, 0x00, 0x01, 0x00, 0x75, 0x00, 0x0e, 0x12, 0x00, 0x6b, 0x00, 0x76, 0x00])
          + bytes([0x10, 0x05, 0x02, 0x00, 0x02, 0x02, 0x01]) + bytes([0x11, 0x06, 0x0e, 0x00, 0x02, 0x0a, 0x02, 0x01]) + bytes([0xfe]))
O5M_F3 = O5M_HDR + bytes([0xff, 0x10, 0x04, 0x02, 0x00, 0x02, 0x02, 0xdb, 0x02, 0x01, 0x02, 0x10, 0x04, 0x02, 0x00, 0x02])      # reset, node, unknown dataset, truncated node
# a dataset whose length needs a two-byte varint (unknown dataset type 0x50, 130 bytes), between two nodes
O5M_F4 = O5M_HDR + bytes([0x10, 0x04, 0x02, 0x00, 0x02, 0x02]) + bytes([0x50, 0x82, 0x01]) + bytes((7 * k) & 0xff for k in range(130)) + bytes([0x10, 0x04, 0x02, 0x00, 0x02, 0x02, 0xfe])
PBF_HDR = lambda n: bytes([0, 0, 0, 11, 0x0a, 7]) + b'OSMData' + bytes([0x18, n])
FILES = {'o5m_f1': O5M_F1, 'o5m_f2': O5M_F2, 'o5m_f3': O5M_F3}


def cut_positions(I, L, mode):
    """symbolic set of cut positions in 1..L-1, enumerated by forking on one bit per position"""
    if L <= 1: return []
    bits = [I.named('cut%d' % k, 1) for k in range(1, L)]
    terms = [I.term(b, 1) == 1 for b in bits]
    if mode == 'pairs':
        I.assume(z3.Or(z3.PbLe([(t, 1) for t in terms], 2), z3.And(terms)))      # at most two cuts, or one byte at a time
    elif mode == 'singles':
        I.assume(z3.Or(z3.PbLe([(t, 1) for t in terms], 1), z3.And(terms)))
    return [k + 1 for k, b in enumerate(bits) if I.decide(b, 'cut')]


def run_entry(I, fn, data, L, cuts, tag, outcap=512):
    c = I.new_obj(4 * max(len(cuts), 1), 'cuts' + tag, 'heap')
    for j, v in enumerate(cuts): I.store(c + 4 * j, i32, v)
    out = I.new_obj(outcap, 'out' + tag, 'heap')
    if fn == '@verif_lines':
        n = I.concretize(I.call(fn, [data, L, c, len(cuts), out, outcap]), 'n'); rc = 0
    else:
        ol = I.new_obj(4, 'ol' + tag, 'heap')
        rc = I.concretize(I.call(fn, [data, L, c, len(cuts), out, outcap, ol]), 'rc')
        n = I.concretize(I.load(ol, i32), 'n')
    return rc, n, [I.load(out + k, i8) for k in range(n)]


def compare(I, a, b, cuts):
    I.observe('single', (a[0], a[1])); I.observe('cut', (b[0], b[1]))
    if a[0] != b[0]: raise Finding('chunking', 'outcome (error or success) of the segmented run differs from the one-piece run')
    if a[1] != b[1]: raise Finding('chunking', 'amount of delivered data differs between the segmented and the one-piece run')
    for k in range(a[1]):
        I.obligation(I.icmp('eq', 8, a[2][k], b[2][k]), 'chunking', 'delivered data differs between the segmented and the one-piece run')
    I.reach('end')


def h_lines(I, job):
    L = job['len']
    data = I.new_obj(L, 'data', 'heap')
    for k in range(L):
        ch = I.named('d%d' % k, 8); t = I.term(ch, 8)
        I.assume(z3.Or(t == ord('a'), t == 10, t == 13))
        I.store(data + k, i8, ch)
    cuts = cut_positions(I, L, job['cuts'])
    a = run_entry(I, '@verif_lines', data, L, [], 'A', 96); b = run_entry(I, '@verif_lines', data, L, cuts, 'B', 96)
    compare(I, a, b, cuts)


def h_file(I, job):
    f = job['file']; fn = job['fn']; L = len(f)
    data = I.new_obj(L, 'file', 'heap')
    for k, byte in enumerate(f):
        if k in job.get('sym', ()):
            I.store(data + k, i8, I.named('byte%d' % k, 8))
        else: I.store(data + k, i8, byte)
    cuts = cut_positions(I, L, job['cuts'])
    a = run_entry(I, fn, data, L, [], 'A'); b = run_entry(I, fn, data, L, cuts, 'B')
    compare(I, a, b, cuts)


def gen_lines(L):
    def g(rnd):
        out = []
        for _ in range(25):
            d = {'d%d' % k: rnd.choice([97, 10, 13]) for k in range(L)}
            m = rnd.choice([0, 1, 2, 3])
            pos = set(rnd.sample(range(1, L), min(m, L - 1))) if m < 3 else set(range(1, L))
            d.update({'cut%d' % k: int(k in pos) for k in range(1, L)})
            out.append(d)
        return out
    return g


def gen_cuts(L, sym=()):
    def g(rnd):
        out = []
        for _ in range(10):
            pos = set(rnd.sample(range(1, L), rnd.choice([0, 1, 2])))
            d = {'cut%d' % k: int(k in pos) for k in range(1, L)}
            d.update({'byte%d' % k: rnd.randint(0, 255) for k in sym})
            out.append(d)
        return out
    return g


def harnesses(tier):
    q = tier == 'quick'
    LL = 5 if q else 7
    pbf = PBF_HDR(3) + b'\x01\x02\x03' + PBF_HDR(2) + b'\x04\x05'
    pbf_sym = (17,)      # one blob byte symbolic; framing bytes concrete
    hs = [
        Harness('opl_lines', 'chunk', h_lines, jobs=[{'len': L, 'cuts': 'all'} for L in range(1, LL + 1)], setup=setup_env, testgen=lambda rnd: [dict(_job=LL - 1, **t) for t in gen_lines(LL)(rnd)],
                desc='line_by_line (OPL): every string over {a, LF, CR} up to length %d x every segmentation: same sequence of lines as in one piece' % LL,
                bounds='stream length <= %d bytes over the alphabet {a, LF, CR}; all 2^(L-1) segmentations' % LL),
        Harness('o5m_small', 'chunk', h_file, jobs=[{'file': O5M_F1, 'fn': '@verif_o5m_run', 'cuts': 'all'}], setup=setup_env, testgen=gen_cuts(len(O5M_F1)),
                desc='O5mParser decode_header + decode_data (real per-type decoders) on a 14-byte one-node file x all 8192 segmentations: same outcome and same delivered buffers as in one piece',
                bounds='one concrete 14-byte file; all segmentations'),
        Harness('o5m_objects', 'chunk', h_file, jobs=[{'file': O5M_F2, 'fn': '@verif_o5m_run', 'cuts': 'singles' if q else 'pairs'}, {'file': O5M_F3, 'fn': '@verif_o5m_run', 'cuts': 'singles' if q else 'pairs'},
                                                       {'file': O5M_F4, 'fn': '@verif_o5m_run', 'cuts': 'singles'}],
                setup=setup_env, testgen=gen_cuts(len(O5M_F2)),
                desc='o5m files with author info, inline strings, a string back-reference, a way, reset, unknown dataset and a truncated dataset x %s: same result as in one piece' % ('every single cut and one-byte-at-a-time' if q else 'every single cut, every pair of cuts, one byte at a time'),
                bounds='three concrete files (%d, %d and %d bytes; the last has a dataset with a two-byte length, single cuts only)' % (len(O5M_F2), len(O5M_F3), len(O5M_F4))),
        Harness('pbf_framing', 'chunk', h_file, jobs=[{'file': pbf, 'fn': '@verif_pbf_frames', 'cuts': 'singles' if q else 'pairs', 'sym': pbf_sym}, {'file': pbf[:-1], 'fn': '@verif_pbf_frames', 'cuts': 'singles' if q else 'pairs'}],
                setup=setup_env, testgen=gen_cuts(len(pbf), pbf_sym),
                desc='PBFParser blob framing (length prefix, BlobHeader, blob bytes via ensure_available_in_input_queue / pop_from_input_queue) on a two-blob stream and its truncation x %s: same blobs and same outcome' % ('single cuts' if q else 'single cuts and pairs'),
                bounds='two-blob stream of %d bytes (one symbolic payload byte) and the same stream truncated by one byte' % len(pbf)),
    ]
    return hs
