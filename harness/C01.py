"""C01 — write-then-read round trip is lossless (E2, BV mode; codec pairs: real PBF block writer followed by the real reader kernels)"""
import z3
from fw import Harness
from llsym import Finding, Sym
from irparse import IntTy
i8, i32, i64 = IntTy(8), IntTy(32), IntTy(64)
NODE = 88
UNDEF = 0x7fffffff
FIELDS = ('id', 'version', 'timestamp', 'changeset', 'uid', 'visible', 'x', 'y')
WIDTH = dict(id=64, version=31, timestamp=32, changeset=32, uid=31, visible=1, x=32, y=32)


def h_pbf_nodes(I, job):
    n = job['n']; md = job['md']; vf = job['visible_flag']
    fm = I.new_obj(64 * n, 'fields', 'heap'); F = []
    cls = job['classes']
    for k in range(n):
        d = {}
        for j, nm in enumerate(FIELDS):
            w = WIDTH[nm]; v = I.named('%s%d' % (nm, k), w); t = I.term(v, w)
            if nm in ('x', 'y'): val = I.sext(v, 32, 64)
            elif w < 64: val = I.zext(v, w, 64)
            else: val = v
            I.store(fm + 64 * k + 8 * j, i64, val); d[nm] = I.term(val, 64)
            if nm in cls:
                # value class: node 0 and every step to the next node lie in ranges that fix the length of their varint encoding
                (blo, bhi), (slo, shi) = cls[nm]
                if k == 0: I.assume(z3.And(d[nm] >= blo, d[nm] <= bhi))
                else: I.assume(z3.And(d[nm] - F[k - 1][nm] >= slo, d[nm] - F[k - 1][nm] <= shi))
        I.assume(d['id'] != z3.BitVecVal(1 << 63, 64))
        F.append(d)
    out = I.new_obj(NODE * n + 16, 'out', 'heap'); ol = I.new_obj(4, 'ol', 'heap'); fb = I.new_obj(512, 'file', 'heap'); fl = I.new_obj(4, 'fl', 'heap')
    rc = I.concretize(I.call('@verif_pbf_nodes_roundtrip', [fm, n, 1, md, vf, 1, out, NODE * n + 16, ol, fb, 512, fl]), 'rc'); I.observe('rc', rc)
    if rc != 0: raise Finding('reader-rejects', 'the reader rejects (rc=%d) a block the writer produced without error' % rc)
    ln = I.concretize(I.load(ol, i32), 'dumplen'); I.observe('dumplen', ln)
    if ln != NODE * n: raise Finding('object-count', 'decoded dump has %d bytes, expected %d nodes' % (ln, n))
    for k in range(n):
        W = lambda j: I.term(I.load(out + NODE * k + 8 * j, i64), 64)
        f = F[k]
        I.obligation(W(0) == 1, 'type', 'node %d: type' % k)
        I.obligation(W(1) == f['id'], 'id', 'node %d: id differs after the round trip' % k)
        I.obligation(W(2) == (f['version'] if md & 1 else 0), 'version', 'node %d: version differs' % k)
        I.obligation(W(4) == (f['timestamp'] if md & 2 else 0), 'timestamp', 'node %d: timestamp differs' % k)
        I.obligation(W(5) == (f['changeset'] if md & 4 else 0), 'changeset', 'node %d: changeset differs' % k)
        I.obligation(W(6) == (f['uid'] if md & 8 else 0), 'uid', 'node %d: uid differs' % k)
        vis = (f['visible'] == 1) if vf else z3.BoolVal(True)
        I.obligation((W(3) == 1) == vis, 'visible', 'node %d: visible flag differs' % k)
        lx = z3.ZeroExt(32, z3.Extract(31, 0, f['x'])); ly = z3.ZeroExt(32, z3.Extract(31, 0, f['y']))
        I.obligation(z3.If(vis, z3.And(W(8) == lx, W(9) == ly), z3.And(W(8) == UNDEF, W(9) == UNDEF)), 'location', 'node %d: location differs (a deleted node has none)' % k)
    I.reach('end')


def _old_gen_nodes(n):
    def g(rnd):
        out = []
        for _ in range(10):
            d = {}
            for k in range(n):
                for nm in FIELDS:
                    w = WIDTH[nm]; d['%s%d' % (nm, k)] = rnd.choice([0, 1, (1 << w) - 1, (1 << (w - 1)) if w > 1 else 1, rnd.getrandbits(w)])
                if d['id%d' % k] == 1 << 63: d['id%d' % k] = 5
            out.append(d)
        return out
    return g


def h_opl_roundtrip(I, job):
    """one object with one symbolic field through OPLOutputBlock and opl_parse_line; dumps of the original and of the parsed object must agree"""
    kind = job['kind']; md = job['md']; symf = job['field']; base = list(job['values'])
    fm = I.new_obj(8 * 8, 'fields', 'heap')
    for k in range(8):
        v = base[k] if k < len(base) else 0
        if k == symf:
            lo, hi = job['range']
            v = I.named_signed('field', 64, lo, hi) if I.mode == 'INT' else I.named('field', 64)
        I.store(fm + 8 * k, i64, v if isinstance(v, Sym) else v & ((1 << 64) - 1))
    cap = 512
    o1 = I.new_obj(cap, 'dump1', 'heap'); l1 = I.new_obj(4, 'l1', 'heap'); o2 = I.new_obj(cap, 'dump2', 'heap'); l2 = I.new_obj(4, 'l2', 'heap'); txt = I.new_obj(256, 'text', 'heap')
    rc = I.concretize(I.call('@verif_opl_roundtrip', [kind, fm, md, o1, l1, o2, l2, cap, txt, 256]), 'rc'); I.observe('rc', rc)
    if rc != 0: raise Finding('reader-rejects', 'the OPL parser rejects (rc=%d) the line the OPL writer produced' % rc)
    n1 = I.concretize(I.load(l1, i32), 'len1'); n2 = I.concretize(I.load(l2, i32), 'len2'); I.observe('lens', (n1, n2))
    if md == 31:
        if n1 != n2: raise Finding('roundtrip', 'the parsed object has a different shape (%d vs %d dump bytes)' % (n2, n1))
        k = 0
        while k < n1:
            if k + 8 <= n1:
                a, b = I.load(o1 + k, i64), I.load(o2 + k, i64)
                if isinstance(a, Sym) or isinstance(b, Sym): I.obligation(I.icmp('eq', 64, a, b), 'roundtrip', 'a field differs after writing and reading the object as OPL')
                elif a != b: raise Finding('roundtrip', 'a field differs after writing and reading the object as OPL (dump offset %d)' % k)
                k += 8
            else:
                if I.concretize(I.load(o1 + k, i8), 'b') != I.concretize(I.load(o2 + k, i8), 'b'): raise Finding('roundtrip', 'a string differs after the OPL round trip')
                k += 1
    else:
        # reduced metadata: id (word 1) must survive, dropped fields come back as defaults
        I.obligation(I.icmp('eq', 64, I.load(o1 + 8, i64), I.load(o2 + 8, i64)), 'roundtrip', 'id differs after the OPL round trip with reduced metadata')
    I.reach('end')


A, B, C = (-64, 63), (64, 8191), (1 << 27, (1 << 34) - 1)          # signed value ranges whose zig-zag varint has 1, 2 and 5 bytes
NEG = (-(1 << 34), -(1 << 27) - 1)
def K(a, b): return ((a, a), (b - a, b - a))      # concrete value a for node 0, b for node 1
TS = K(0, 1)       # timestamps go through '* date_granularity / 1000' (64-bit multiply and divide by constants): kept to 6 symbolic bits, the boundaries are concrete in class 'extreme'
U1, U2, U4 = (0, 127), (128, 16383), (1 << 21, (1 << 28) - 1)        # unsigned ranges with 1-, 2-, 4-byte varints
CLASSES = {
    'small': dict(id=((1, 63), A), version=(U1, (-1 << 31, 1 << 31)), timestamp=((0, 63), (0, 63)), changeset=((0, 63), (0, 63)), uid=((0, 63), (0, 63)), x=K(0, -1), y=K(1, 0)),
    'medium': dict(id=(B, B), version=(U2, (-1 << 31, 1 << 31)), timestamp=K(1262304000, 1262304000 - 86400), changeset=(B, B), uid=(B, B), x=K(1800000000, -1800000000), y=K(-900000000, 900000000)),
    'large': dict(id=(C, NEG), version=(U4, (-1 << 31, 1 << 31)), timestamp=K(1, (1 << 32) - 2), changeset=(C, NEG), uid=((1 << 27, (1 << 31) - 1), NEG), x=K(123456789, 123456790), y=K(-123456789, 7)),
    'extreme': dict(id=(((1 << 63) - 4096, (1 << 63) - 1), (-(1 << 64) + 2, -(1 << 64) + 8192)), version=(((1 << 31) - 128, (1 << 31) - 1), (-1 << 31, 1 << 31)),
                    timestamp=K((1 << 32) - 1, 0), changeset=(((1 << 32) - 128, (1 << 32) - 1), (-(1 << 32) + 1, -(1 << 32) + 64)),
                    uid=(((1 << 31) - 128, (1 << 31) - 1), (-(1 << 31) + 1, -(1 << 31) + 64)), x=K((1 << 31) - 1, -(1 << 31)), y=K(-(1 << 31), (1 << 31) - 1)),
}


def gen_nodes(n, cname):
    def g(rnd):
        out = []
        cls = CLASSES[cname]
        for _ in range(8):
            d = {}
            prev = {}
            for k in range(n):
                for nm in FIELDS:
                    w = WIDTH[nm]
                    if nm in cls:
                        (blo, bhi), (slo, shi) = cls[nm]
                        v = rnd.randint(blo, bhi) if k == 0 else prev[nm] + rnd.randint(max(slo, -prev[nm] if nm not in ('id', 'x', 'y') else slo), shi)
                    else: v = rnd.getrandbits(w)
                    prev[nm] = v; d['%s%d' % (nm, k)] = v & ((1 << w) - 1)
            out.append(d)
        return out
    return g


PBF_RANGES = {'small': (-60, 60), 'medium': (1 << 27, (1 << 34) - 1), 'negative': (-(1 << 34), -(1 << 27)), 'extreme': ((1 << 62), (1 << 63) - 1)}


def h_opl_way_locations(I, job):
    """way written as OPL with locations_on_ways; a symbolic mask decides which node references carry a location"""
    mask = I.named('mask', 3); mk = I.concretize(mask, 'location mask')
    job2 = dict(kind=4, md=31, field=99, values=[9, 1, 5, 6, 7, mk])
    return h_opl_roundtrip(I, job2)


def h_xml_writer_sections(I, job):
    """writer half of the XML change-file round trip: which section an object is written into (the reader makes exactly the objects inside <delete> invisible)"""
    kind = job['kind']
    ver = I.named('version', 8); I.assume(z3.And(I.term(ver, 8) >= 1, I.term(ver, 8) <= 3)); ver = I.concretize(ver, 'version')
    vis = I.concretize(I.named('visible', 1), 'visible'); ops = job['change_ops']
    text = I.new_obj(512, 'text', 'heap'); tl = I.new_obj(4, 'tl', 'heap')
    rc = I.concretize(I.call('@verif_xml_write_object', [kind, 7, ver, vis, ops, text, 512, tl]), 'rc')
    if rc != 0: raise Finding('writer', 'XML writer fails (rc=%d)' % rc)
    n = I.concretize(I.load(tl, i32), 'len')
    out = bytes(I.concretize(I.load(text + k, i8), 'ch') for k in range(n)).decode('latin-1')
    I.observe('text', out)
    el = ['<node', '<way', '<relation'][kind]
    if el not in out: raise Finding('writer', 'no %s element in %r' % (el, out))
    if ops:
        before = out[:out.index(el)]
        sec = [t for t in ('<create>', '<modify>', '<delete>') if t in before]
        if len(sec) != 1: raise Finding('sections', 'object not inside exactly one change section: %r' % out)
        if (sec[0] == '<delete>') != (not vis): raise Finding('sections', 'a%s object (version %d) is written into %s: the reader makes exactly the objects inside <delete> invisible' % (' visible' if vis else 'n invisible', ver, sec[0]))
        if vis and (sec[0] == '<create>') != (ver == 1): raise Finding('sections', 'visible object of version %d written into %s' % (ver, sec[0]))
        if out.count(sec[0].replace('<', '</')) != 1: raise Finding('sections', 'section not closed: %r' % out)
    else:
        want = 'visible="%s"' % ('true' if vis else 'false')
        if want not in out: raise Finding('visible', 'visible attribute missing or wrong in %r' % out)
    I.reach('end')


def h_pbf_object(I, job):
    """plain node / way / relation through PBFOutputFormat::node / way / relation and SerializeBlob, then through the reader kernels; dumps must agree"""
    kind = job['kind']; low = job.get('low', 0)
    if low == 'sym':
        lm = I.named('locmask', 3); low = I.concretize(lm, 'which references have a location')
        if low == 0: low = 8          # option on, no reference located
    fm = I.new_obj(8 * 6, 'fields', 'heap')
    base = {0: [5, 3, 9, 11, 123456789, -87654321], 1: [9, 2, 0, 0, 0, 77], 2: [9, 2, 0, 0, 0, 0]}[kind]
    symf = {0: [(0, 'id'), (1, 'version'), (2, 'changeset'), (3, 'uid')], 1: [(0, 'id'), (2, 'ref0'), (3, 'ref1'), (4, 'ref2')], 2: [(0, 'id'), (2, 'mref0'), (3, 'mref1'), (4, 'mref2'), (5, 'mref3')]}[kind]
    vals = list(base)
    for (k, nm) in symf:
        v = I.named(nm, 64); t = I.term(v, 64)
        if nm in ('version', 'changeset', 'uid'): I.assume(z3.And(t >= 0, t <= (job['u32'] if ('u32' in job and nm == 'changeset') else (1 << 31) - 1)))        # PBF stores version and uid as int32, changeset as int64
        else:
            lo, hi = PBF_RANGES[job['cls'][len([x for x in symf[:symf.index((k, nm))]]) % len(job['cls'])]]
            I.assume(z3.And(t >= lo, t <= hi))
        vals[k] = v
    for k, v in enumerate(vals): I.store(fm + 8 * k, i64, v if isinstance(v, Sym) else v & ((1 << 64) - 1))
    cap = 512
    o1 = I.new_obj(cap, 'dump1', 'heap'); l1 = I.new_obj(4, 'l1', 'heap'); o2 = I.new_obj(cap, 'dump2', 'heap'); l2 = I.new_obj(4, 'l2', 'heap')
    rc = I.concretize(I.call('@verif_pbf_object_roundtrip', [kind, fm, low, o1, l1, o2, l2, cap]), 'rc'); I.observe('rc', rc)
    if rc != 0: raise Finding('reader-rejects', 'the PBF reader rejects (rc=%d) the block the PBF writer produced' % rc)
    n1 = I.concretize(I.load(l1, i32), 'len1'); n2 = I.concretize(I.load(l2, i32), 'len2'); I.observe('lens', (n1, n2))
    if n1 != n2: raise Finding('roundtrip', 'the object read back has a different shape (%d vs %d dump bytes)' % (n2, n1))
    k = 0
    while k < n1:
        if k + 8 <= n1:
            a, b = I.load(o1 + k, i64), I.load(o2 + k, i64)
            if isinstance(a, Sym) or isinstance(b, Sym): I.obligation(I.icmp('eq', 64, a, b), 'roundtrip', 'a field (dump offset %d) differs after writing and reading the object as PBF' % k)
            elif a != b: raise Finding('roundtrip', 'a field differs after writing and reading the object as PBF (dump offset %d: %d vs %d)' % (k, a, b))
            k += 8
        else:
            if I.concretize(I.load(o1 + k, i8), 'b') != I.concretize(I.load(o2 + k, i8), 'b'): raise Finding('roundtrip', 'a string differs after the PBF round trip')
            k += 1
    I.reach('end')


def harnesses(tier):
    q = tier == 'quick'
    mds = [(15, 1), (0, 0), (5, 1), (10, 0)]
    n = 2 if q else 3
    jobs = [dict(n=n, md=m, visible_flag=v, classes=CLASSES[c], cname=c) for c in CLASSES for (m, v) in mds]
    if not q:
        # every combination of the metadata options with two nodes (three nodes only for the four combinations above: measured 18000 s of solver time for all 32)
        jobs += [dict(n=2, md=m, visible_flag=v, classes=CLASSES[c], cname=c) for c in CLASSES for m in range(16) for v in (0, 1) if (m, v) not in mds]
    I63 = (1 << 63) - 1; M6 = 10 ** 6
    def both(kind, field, lo, hi, values, md=31):
        # symbolic over a 6-digit range (the digit loops of a 64-bit value are beyond the solver: 5 s per query), concrete at the type boundaries
        return [dict(kind=kind, md=md, field=field, range=(max(lo, -M6), min(hi, M6)), values=values), dict(kind=kind, md=md, field=field, range=(lo, lo), values=values), dict(kind=kind, md=md, field=field, range=(hi, hi), values=values)]
    node = [5, 3, 1262304000, 77, 9, 1, 123456789, -87654321]
    ways = [9, 1, 5, 6]; cs = [4, 1262304000, 1262305000, 3, 17, 10, 20, 30]
    opl = both(0, 0, -I63, I63, node) + both(0, 1, 0, (1 << 32) - 1, node) + both(0, 3, 0, (1 << 32) - 1, node) + both(0, 4, 0, (1 << 31) - 1, node) + both(0, 0, -I63, I63, node, md=0) + both(3, 0, 0, (1 << 32) - 1, cs) + both(3, 4, 0, (1 << 32) - 1, cs)
    import C02, C03
    return [
        Harness('opl_object_roundtrip', 'codec', h_opl_roundtrip, mode='INT', jobs=opl if not q else opl[0:3] + opl[3:7] + opl[15:18], native_ok=True,
                tests=[dict(_job=0, field=12345)],
                desc='one node / way / relation / changeset with user, tags (values containing space and =), roles through OPLOutputBlock (real writer) and opl_parse_line (real parser); one numeric field at a time is symbolic over a 6-digit range and concrete at its type boundaries (object id, version, changeset, uid, changeset id, num_changes; coordinates and references of ways / relations stay concrete: the reference lists are not decided in time (solver unknown after 240 s), coordinates as text are C13): the traversal dump of the parsed object equals that of the original',
                bounds='one object per run, one symbolic field per job, the other fields concrete; timestamps concrete', wall=900),
        Harness('pbf_dense_block_roundtrip', 'codec', h_pbf_nodes, jobs=jobs, testgen=lambda rnd: [dict(_job=0, **t) for t in gen_nodes(n, 'small')(rnd)],
                desc='%d nodes with symbolic id / version / timestamp / changeset / uid / visible / location through PrimitiveBlock::add_dense_node + DenseNodes::serialize + SerializeBlob (no compression), then length prefix, decode_blob_header, decode_blob and PBFPrimitiveBlockDecoder: every field comes back identical (or as its default when the metadata option drops it); the reader accepts what the writer wrote' % n,
                bounds='%d nodes per block; id / version / changeset / uid / visible symbolic inside four magnitude classes; timestamps and coordinates concrete boundary values per class (their x1000/1000 and x100/100 conversions are 64-bit multiply/divide by constants, which bit-blasting does not decide in time: measured 53 s per query) (small / medium / large / extreme incl. the type boundaries and negative deltas) that fix the varint lengths; metadata subsets %s; no user names and tags (string table), no compression' % (n, 'sampled' if q else 'all 16 x visible flag with 2 nodes, the sampled four with 3 nodes'), wall=900 if q else 2400),
        Harness('opl_way_locations', 'codec', h_opl_way_locations, mode='INT', tests=[dict(mask=7), dict(mask=0), dict(mask=5)],
                desc='a way with three node references through OPLOutputBlock with locations_on_ways and back through opl_parse_line, for every subset of references that carry a location (an undefined location is a legal value): the reader accepts what the writer wrote and the references come back with exactly those locations',
                bounds='3 references, 8 location masks; coordinates concrete (text conversion: C13)'),
        Harness('xml_writer_sections', 'codec', h_xml_writer_sections, jobs=[dict(kind=kd, change_ops=o) for kd in (0, 1, 2) for o in (1, 0)], tests=[dict(_job=0, version=1, visible=0), dict(_job=1, version=2, visible=1)],
                desc='writer half of the XML visibility round trip: XMLOutputBlock on a node / way / relation with symbolic version (1..3) and visibility: in change files (.osc) the object is inside exactly one of <create> / <modify> / <delete>, inside <delete> iff it is invisible (the reader half, C02 xml_objects, makes exactly those objects invisible), <create> iff visible with version 1; in history files the visible attribute carries the flag',
                bounds='one object per block, versions 1..3; expat is not encoded: the two halves are checked against the same section rule'),
        Harness('pbf_object_roundtrip', 'codec', h_pbf_object, wall=900,
                jobs=[dict(kind=0, cls=['small']), dict(kind=0, cls=['extreme'], u32=(1 << 32) - 1), dict(kind=1, cls=['small', 'small', 'small', 'small']), dict(kind=1, cls=['medium', 'small', 'negative', 'medium']), dict(kind=1, cls=['negative', 'medium', 'medium', 'negative'], low=7), dict(kind=1, cls=['small'], low='sym'),
                      dict(kind=2, cls=['small']), dict(kind=2, cls=['medium', 'negative', 'medium', 'small', 'medium'])] + ([] if q else [dict(kind=1, cls=['extreme', 'negative', 'extreme', 'small']), dict(kind=2, cls=['negative', 'medium', 'small', 'negative', 'extreme']), dict(kind=1, cls=['medium'], low='sym')]),
                desc='a plain node / a way with three node references (optionally with locations on ways, for every subset of references that carry a location) / a relation with four members (node, way, relation, node; roles sharing and not sharing string-table entries), each with user and one tag, through the real PBFOutputFormat::node / way / relation (string table, delta coding of references and member ids, metadata), SerializeBlob without compression, then length prefix, decode_blob_header, decode_blob and PBFPrimitiveBlockDecoder: the traversal dump of what is read equals that of the original; ids, references, member ids, version, changeset, uid symbolic inside magnitude classes that fix the varint lengths',
                bounds='one object per block; symbolic 64-bit ids / references in the classes small (|v| <= 60), medium (2^27..2^34), negative, extreme (2^62..2^63-1); coordinates and timestamps concrete; no compression'),
        Harness('xml_discussion_reader_half', 'xml', C02.h_xml_discussion, jobs=[dict(n=k) for k in ((5, 7) if q else (3, 4, 5, 6, 7, 8, 9))], setup=C03.setup_xml,
                tests=[dict(_job=0, ev0=1, ev1=2, ev2=3, ev3=4, ev4=7, ch0=65, ch1=66, ch2=67)],
                desc='reader half of the XML round trip for changeset discussions: expat delivers the text of a comment in several character-data pieces whenever the writer escaped a character in it; XMLParser must deliver the concatenation (same harness as C02 xml_discussion_content)',
                bounds='event scripts of length <= %d, 3 symbolic character bytes; the XML writer and expat are not encoded' % (7 if q else 9)),
    ]
