/* C10: range lemma for the floating-point tail of calculate_intersection (cbmc on the C translation of wrappers/area.cpp).
   In the branch that computes an intersection point, (d > 0, 0 <= na <= d) or (d < 0, d <= na <= 0) holds.
   h_ratio: then ua = double(na) / double(d) lies in [0.0, 1.0].  h_scale_x / h_scale_y: for every double ua in [0, 1] and end points within
   +-2^29, p0 + ua * (p1 - p0) cast to int32 lies inside the bounding box of the segment -> it is never the "undefined" coordinate
   2147483647, so the computed Location is defined.  (The composition na, d -> point in one query does not finish: 300 s on every back end.) */
#include <stdint.h>
double verif_ratio(long na, long d);
void verif_scale_add(double ua, const int* p, int* out);
int nondet_int(void); long nondet_long(void); double nondet_double(void);
int in_p0, in_p1, in_p2, in_p3; long in_na, in_d; double in_ua;
#define RANGE (1 << 29)
#ifdef WITNESS
#define END __CPROVER_assert(0, "witness: end of harness reachable")
#else
#define END
#endif
static int mn(int a, int b) { return a < b ? a : b; } static int mx(int a, int b) { return a > b ? a : b; }
void h_ratio(void) {
  in_na = nondet_long(); in_d = nondet_long();
  __CPROVER_assume(in_d >= -((long)1 << 62) && in_d <= ((long)1 << 62));      /* |d| <= 2 * (2^30)^2 for coordinates within +-2^29 */
  __CPROVER_assume((in_d > 0 && in_na >= 0 && in_na <= in_d) || (in_d < 0 && in_na <= 0 && in_na >= in_d));
  double ua = verif_ratio(in_na, in_d);
  __CPROVER_assert(ua >= 0.0 && ua <= 1.0, "ua = na / d lies in [0, 1]"); END;
}
static void scale(int which) {
  in_p0 = nondet_int(); in_p1 = nondet_int(); in_p2 = nondet_int(); in_p3 = nondet_int();
  int p[4] = {in_p0, in_p1, in_p2, in_p3};
  for (int k = 0; k < 4; ++k) __CPROVER_assume(p[k] >= -RANGE && p[k] <= RANGE);
  in_ua = nondet_double(); __CPROVER_assume(in_ua >= 0.0 && in_ua <= 1.0);
  int out[2]; verif_scale_add(in_ua, p, out);
  __CPROVER_assert(out[which] >= mn(p[which], p[which + 2]) && out[which] <= mx(p[which], p[which + 2]), "intersection coordinate inside the bounding box of the segment"); END;
}
void h_scale_x(void) { scale(0); }
void h_scale_y(void) { scale(1); }
