"""tiny specification-derived protobuf / OSM-PBF encoder for harness inputs; values may be z3 BitVec terms (encoded as
fixed-width, non-minimal varints so that the byte layout stays concrete while the value is symbolic)"""
import z3


def varint(v):
    out = []
    while True:
        b = v & 0x7f; v >>= 7
        if v: out.append(b | 0x80)
        else: out.append(b); return out


def sym_varint(t, nbytes=4):
    """t: BitVec of width 7*nbytes; fixed-width varint (continuation bit set on all but the last byte)"""
    out = []
    for k in range(nbytes):
        part = z3.ZeroExt(1, z3.Extract(7 * k + 6, 7 * k, t))
        out.append(z3.simplify(part | 0x80) if k < nbytes - 1 else z3.simplify(part))
    return out


def key(field, wt): return varint((field << 3) | wt)
def f_varint(field, v): return key(field, 0) + (v if isinstance(v, list) else varint(v))
def f_bytes(field, payload): return key(field, 2) + varint(len(payload)) + list(payload)
def zigzag(v): return (v << 1) ^ (v >> 63) if v >= 0 else ((-v) << 1) - 1


def unzigzag_term(t, width=64):
    """value of a zig-zag encoded term, sign-extended to `width` bits"""
    z = z3.ZeroExt(width - t.size(), t)
    return z3.LShR(z, 1) ^ (-(z & 1))


def pbf_way(wid, refs):
    """Way message: id, packed sint64 delta-coded refs"""
    out = f_varint(1, wid); deltas = []; prev = 0
    for r in refs: deltas += varint(zigzag(r - prev)); prev = r
    return out + f_bytes(8, deltas)


def pbf_relation(rid, members):
    """Relation message: id, roles_sid (string 0), memids (delta), types"""
    out = f_varint(1, rid); roles = []; ids = []; types = []; prev = 0
    for (t, ref) in members: roles += varint(0); ids += varint(zigzag(ref - prev)); prev = ref; types += varint(t)
    return out + f_bytes(8, roles) + f_bytes(9, ids) + f_bytes(10, types)


def pbf_dense(ids, extra=()):
    d = []; prev = 0
    for i in ids: d += varint(zigzag(i - prev)); prev = i
    z = sum((varint(zigzag(0)) for _ in ids), [])
    return f_bytes(1, d) + list(extra) + f_bytes(8, z) + f_bytes(9, z)
