"""C07 — reader pipeline relay laws (E2, BV mode; sequential part only: what each stage puts on its output when the stage before it fails)"""
import z3
from fw import Harness
from llsym import Finding, Sym
from irparse import IntTy
i8, i32 = IntTy(8), IntTy(32)

S = '_ZN6osmium2io6detail12add_to_queueI'
STR = 'NSt7__cxx1112basic_stringIcSt11char_traitsIcESaIcEEE'
OVR = {
    '@' + S + STR + 'EEvRNS_6thread5QueueISt6futureIT_EEEOSC_': '@verif_rec_string',
    '@' + S + STR + 'EEvRNS_6thread5QueueISt6futureIT_EEEONSt15__exception_ptr13exception_ptrE': '@verif_rec_exception',
    '@' + S + 'NS_6memory6BufferEEEvRNS_6thread5QueueISt6futureIT_EEEOS8_': '@verif_rec_buffer',
    '@' + S + 'NS_6memory6BufferEEEvRNS_6thread5QueueISt6futureIT_EEEONSt15__exception_ptr13exception_ptrE': '@verif_rec_exception',
    '@_ZNSt7promiseIN6osmium2io6HeaderEE13set_exceptionENSt15__exception_ptr13exception_ptrE': '@verif_rec_header_exception',
    '@_ZNSt13__future_base13_State_baseV213_M_set_resultESt8functionIFSt10unique_ptrINS_12_Result_baseENS3_8_DeleterEEvEEb': '@verif_rec_header_value',
}


def setup(I):
    if not any(sym in I.m.funcs for sym in list(OVR)[:4]): raise Exception('no queue boundary function found in the IR (inlined?)')
    for sym, target in OVR.items():
        if sym not in I.m.funcs: continue          # not referenced by the current tree: nothing to intercept
        I.overrides[sym] = (lambda t: lambda I_, *a: I_.call(t, list(a[:2])))(target)


def small(I, name, hi):
    v = I.named(name, 8); I.assume(z3.ULE(I.term(v, 8), hi)); return I.concretize(v, name)


def h_read_thread(I, job):
    """ReadThreadManager::run_in_thread with a mock decompressor whose j-th read throws / ends / is interrupted by stop(), close may throw"""
    N = job['n']
    throw_at = small(I, 'throw_at', N); end_at = small(I, 'end_at', N); stop_at = small(I, 'stop_at', N)       # value N = never
    close_throws = small(I, 'close_throws', 1); done0 = small(I, 'done_at_start', 1)
    ta = throw_at if throw_at < N else 99; sa = stop_at if stop_at < N else 99
    out = I.new_obj(64, 'rec', 'heap')
    n = I.concretize(I.call('@verif_read_thread', [ta, end_at, close_throws, sa, done0, out, 64]), 'n')
    got = bytes(I.concretize(I.load(out + k, i8), 'ev') for k in range(min(n, 64))).decode()
    I.observe('events', got)
    # reference: data chunks in order, then at most one exception, then exactly one end-of-data marker, nothing after it; no read after stop()
    ev = ''; done = bool(done0); j = 0; threw = False
    while not done:
        ev += 'r'
        if j == sa: done = True
        if j == ta: threw = True; break
        if j >= end_at: break
        ev += 'D'; j += 1
    if threw: ev += 'XE'
    else: ev += 'c' + ('X' if close_throws else '') + 'E'
    if got != ev: raise Finding('relay', 'read stage emits %r, the relay law requires %r (r read, D data, c close, X exception, E end of data)' % (got, ev))
    I.reach('end')


def h_parser(I, job):
    """Parser::parse() around a run() that sets the header early or late, hands over k buffers and may throw"""
    shf = small(I, 'set_header_first', 1); thr = small(I, 'throw_in_run', 1); k = small(I, 'buffers', 2)
    out = I.new_obj(32, 'rec', 'heap')
    n = I.concretize(I.call('@verif_parser_parse', [shf, thr, k, out, 32]), 'n')
    got = bytes(I.concretize(I.load(out + j, i8), 'ev') for j in range(min(n, 32))).decode()
    I.observe('events', got)
    ev = ('H' if shf else '') + 'D' * k
    if thr: ev += ('' if shf else 'h') + 'X'
    elif not shf: ev += 'H'
    ev += 'E'
    if got != ev: raise Finding('relay', 'parser stage emits %r, the relay law requires %r (H header value, h header exception, D buffer, X exception, E end of data)' % (got, ev))
    I.reach('end')


def harnesses(tier):
    N = 3 if tier == 'quick' else 4
    return [
        Harness('read_stage', 'relay', h_read_thread, jobs=[dict(n=N)], setup=setup, native_ok=False,
                desc='ReadThreadManager::run_in_thread driven in one thread with a mock decompressor: for every position of a throwing read, of end of data, of a stop() request and for a throwing close(): the queue receives the data chunks in order, then at most one exception, then exactly one end-of-data marker; nothing is read after stop(); close() is called unless a read failed',
                bounds='<= %d reads; queue and promise operations at the stage boundary are recorders' % N),
        Harness('parse_stage', 'relay', h_parser, setup=setup, native_ok=False,
                desc='Parser::parse() around a mock run(): header promise fulfilled exactly once (value, or the exception when run() fails before setting it), buffers in order, then at most one exception, then exactly one end-of-data marker',
                bounds='<= 2 buffers'),
    ]
