"""C07 — reader pipeline relay laws (E2, BV mode; sequential part only: what each stage puts on its output when the stage before it fails)"""
import z3
from fw import Harness
from llsym import Finding, Sym
from irparse import IntTy
i8, i32 = IntTy(8), IntTy(32)

S = '_ZN6osmium2io6detail12add_to_queueI'
STR = 'NSt7__cxx1112basic_stringIcSt11char_traitsIcESaIcEEE'
OVR = {
    '@' + S + STR + 'EEvRNS_6thread5QueueISt6futureIT_EEEOSC_': '@verif_rec_string',
    '@' + S + STR + 'EEvRNS_6thread5QueueISt6futureIT_EEEONSt15__exception_ptr13exception_ptrE': '@verif_rec_exception',
    '@' + S + 'NS_6memory6BufferEEEvRNS_6thread5QueueISt6futureIT_EEEOS8_': '@verif_rec_buffer',
    '@' + S + 'NS_6memory6BufferEEEvRNS_6thread5QueueISt6futureIT_EEEONSt15__exception_ptr13exception_ptrE': '@verif_rec_exception',
    '@_ZNSt7promiseIN6osmium2io6HeaderEE13set_exceptionENSt15__exception_ptr13exception_ptrE': '@verif_rec_header_exception',
    '@_ZNSt13__future_base13_State_baseV213_M_set_resultESt8functionIFSt10unique_ptrINS_12_Result_baseENS3_8_DeleterEEvEEb': '@verif_rec_header_value',
}


def setup(I):
    if not any(sym in I.m.funcs for sym in list(OVR)[:4]): raise Exception('no queue boundary function found in the IR (inlined?)')
    for sym, target in OVR.items():
        if sym not in I.m.funcs: continue          # not referenced by the current tree: nothing to intercept
        I.overrides[sym] = (lambda t: lambda I_, *a: I_.call(t, list(a[:2])))(target)


def small(I, name, hi):
    v = I.named(name, 8); I.assume(z3.ULE(I.term(v, 8), hi)); return I.concretize(v, name)


def h_read_thread(I, job):
    """ReadThreadManager::run_in_thread with a mock decompressor whose j-th read throws / ends / is interrupted by stop(), close may throw"""
    N = job['n']
    throw_at = small(I, 'throw_at', N); end_at = small(I, 'end_at', N); stop_at = small(I, 'stop_at', N)       # value N = never
    close_throws = small(I, 'close_throws', 1); done0 = small(I, 'done_at_start', 1)
    ta = throw_at if throw_at < N else 99; sa = stop_at if stop_at < N else 99
    out = I.new_obj(64, 'rec', 'heap')
    n = I.concretize(I.call('@verif_read_thread', [ta, end_at, close_throws, sa, done0, out, 64]), 'n')
    got = bytes(I.concretize(I.load(out + k, i8), 'ev') for k in range(min(n, 64))).decode()
    I.observe('events', got)
    # reference: data chunks in order, then at most one exception, then exactly one end-of-data marker, nothing after it; no read after stop()
    ev = ''; done = bool(done0); j = 0; threw = False
    while not done:
        ev += 'r'
        if j == sa: done = True
        if j == ta: threw = True; break
        if j >= end_at: break
        ev += 'D'; j += 1
    if threw: ev += 'XE'
    else: ev += 'c' + ('X' if close_throws else '') + 'E'
    if got != ev: raise Finding('relay', 'read stage emits %r, the relay law requires %r (r read, D data, c close, X exception, E end of data)' % (got, ev))
    I.reach('end')


def h_parser(I, job):
    """Parser::parse() around a run() that sets the header early or late, hands over k buffers and may throw"""
    shf = small(I, 'set_header_first', 1); thr = small(I, 'throw_in_run', 1); k = small(I, 'buffers', 2)
    out = I.new_obj(32, 'rec', 'heap')
    n = I.concretize(I.call('@verif_parser_parse', [shf, thr, k, out, 32]), 'n')
    got = bytes(I.concretize(I.load(out + j, i8), 'ev') for j in range(min(n, 32))).decode()
    I.observe('events', got)
    ev = ('H' if shf else '') + 'D' * k
    if thr: ev += ('' if shf else 'h') + 'X'
    elif not shf: ev += 'H'
    ev += 'E'
    if got != ev: raise Finding('relay', 'parser stage emits %r, the relay law requires %r (H header value, h header exception, D buffer, X exception, E end of data)' % (got, ev))
    if I.concretize(I.call('@verif_parser_input_queue_shut_down', []), 'shut') != 1:
        raise Finding('input-queue-open', 'the parser has ended (%s) and was destroyed, but its raw input queue is not shut down: a read thread blocked on the full queue never ends and Reader::close() waits for it for ever' % ('with an exception' if thr else 'normally'))
    I.reach('end')


POPB = '@_ZN6osmium2io6detail13queue_wrapperINS_6memory6BufferEE3popEv'


def setup_reader(I):
    if POPB not in I.m.funcs: raise Exception('queue_wrapper<Buffer>::pop not found in the IR (inlined?)')
    I.overrides[POPB] = lambda I_, ret, this: I_.call('@verif_model_pop_buffer_throwing', [ret, this])
    I.models['_ZNSt6thread4joinEv'] = lambda I_, t: I_.call('@verif_model_thread_join', [t])


def h_reader_states(I, job):
    """Reader::read / close / header as a state machine over a scripted output queue whose pop() throws at a symbolic call number"""
    nops = job['ops']; nbuf = job['nbuf']
    thr = small(I, 'throw_at', nbuf + 1)              # nbuf + 1: never (the end-of-data marker is pop number nbuf)
    om = I.new_obj(nops, 'ops', 'heap'); ops = []
    for k in range(nops):
        o = small(I, 'op%d' % k, 2); I.store(om + k, i8, o); ops.append(o)
    log = I.new_obj(4 * nops, 'log', 'heap'); tail = I.new_obj(28, 'tail', 'heap')
    I.call('@verif_reader_states', [nbuf, thr, om, nops, log, tail])
    got = [I.concretize(I.load(log + 4 * k, i32), 'log') for k in range(nops)]
    got = [g - (1 << 32) if g >= (1 << 31) else g for g in got]
    pops, done, shut, status, joins, bad_joins, joinable = [I.concretize(I.load(tail + 4 * k, i32), 'tail') for k in range(7)]
    # reference state machine (status: 0 okay, 1 error, 2 closed, 3 eof)
    st = 0; si = 0; want = []; closed_once = False
    for k, o in enumerate(ops):
        if o == 0:
            if st != 0: want.append(-2)
            elif si == thr: want.append(-3); si += 1; st = 1; closed_once = True        # the upstream failure reaches the caller of read(); the reader shuts itself down
            elif si < nbuf: si += 1; want.append(si)
            else: si += 1; want.append(-1); st = 3
        elif o == 1: want.append(10); st = 2; closed_once = True
        else: want.append(-2 if st == 1 else 20)
    for k in range(nops):
        if got[k] != want[k]:
            names = {0: 'read()', 1: 'close()', 2: 'header()'}
            raise Finding('reader-state', 'operation %d (%s) after %s: outcome %d, the documented state machine gives %d (ids > 0: data, -1 end of data, -2 io_error, -3 the upstream exception, 10/20 normal return)' % (k, names[ops[k]], [names[x] for x in ops[:k]], got[k], want[k]))
    if pops != si: raise Finding('reads-after-stop', 'the output queue was popped %d times, the state machine allows %d (nothing is read once an error was reported, the end was seen or the reader was closed)' % (pops, si))
    if status != st: raise Finding('reader-state', 'final status %d, expected %d' % (status, st))
    if closed_once and not (done and shut): raise Finding('no-shutdown', 'after close() or a reported error the read thread was not told to stop (m_done=%d) or the output queue was not shut down (%d)' % (done, shut))
    if bad_joins: raise Finding('join-before-shutdown', 'close() joins the read thread before the stop flag is set and the output queue is shut down: a producer blocked on a full queue never ends (deadlock)')
    if (closed_once or st == 3) and joinable: raise Finding('thread-not-joined', 'the read thread is still joinable after close() / an error / the end of the data')
    I.reach('end')


def harnesses(tier):
    N = 3 if tier == 'quick' else 4
    return [
        Harness('read_stage', 'relay', h_read_thread, jobs=[dict(n=N)], setup=setup, native_ok=False,
                desc='ReadThreadManager::run_in_thread driven in one thread with a mock decompressor: for every position of a throwing read, of end of data, of a stop() request and for a throwing close(): the queue receives the data chunks in order, then at most one exception, then exactly one end-of-data marker; nothing is read after stop(); close() is called unless a read failed',
                bounds='<= %d reads; queue and promise operations at the stage boundary are recorders' % N),
        Harness('parse_stage', 'relay', h_parser, setup=setup, native_ok=False,
                desc='Parser::parse() around a mock run(): header promise fulfilled exactly once (value, or the exception when run() fails before setting it), buffers in order, then at most one exception, then exactly one end-of-data marker',
                bounds='<= 2 buffers'),
        Harness('reader_states', 'reader', h_reader_states, setup=setup_reader, native_ok=False, jobs=[dict(ops=k, nbuf=b) for k in ((3, 4) if tier == 'quick' else (3, 4, 5)) for b in (1, 2)],
                desc='Reader::read() / close() / header() as a state machine on a partially constructed Reader (real output queue, queue_wrapper::pop replaced by a script that delivers buffers, the end-of-data marker, or throws at a symbolic call number): the upstream exception leaves read(); afterwards and after close() / end of data every read() throws io_error and pops nothing; header() throws only in error state; close() and the error path set the stop flag of the read thread and shut the output queue down, and they do so before joining the read thread (std::thread::join modelled: a necessary condition for the join to return when the pipeline is backed up); the thread is joined by close(), by the error path and at the end of the data',
                bounds='every sequence of <= %d operations over {read, close, header}, 1-2 data buffers, every throw position; threads are not started (joins of running threads are outside the claim)' % (4 if tier == 'quick' else 5)),
    ]
