"""C17 — geometry exports encode exactly the object's coordinates (E2, BV mode; factory logic, WKB, double2string)"""
import z3
from fw import Harness
from llsym import Finding, Sym, PathEnd
from irparse import IntTy, FloatTy
i8, i32, i64 = IntTy(8), IntTy(32), IntTy(64)
UNDEF = 2147483647
FITLEN = 40
(OP_POINT, OP_LS_START, OP_LS_ADD, OP_LS_FINISH, OP_PG_START, OP_PG_ADD, OP_PG_FINISH, OP_MP_START, OP_MP_PSTART, OP_MP_PFINISH,
 OP_MP_OSTART, OP_MP_OFINISH, OP_MP_ISTART, OP_MP_IFINISH, OP_MP_ADD, OP_MP_FINISH) = range(100, 116)


def sym_location(I, k):
    """symbolic location of one of four classes: valid (coordinates symbolic in range), undefined, x out of range, y out of range"""
    x = I.named('x%d' % k, 32); y = I.named('y%d' % k, 32)
    xs = I.term(I.sext(x, 32, 64), 64) if isinstance(x, Sym) else z3.BitVecVal(x - (1 << 32) if x >> 31 else x, 64)
    ys = I.term(I.sext(y, 32, 64), 64) if isinstance(y, Sym) else z3.BitVecVal(y - (1 << 32) if y >> 31 else y, 64)
    vx = z3.And(xs >= -1800000000, xs <= 1800000000); vy = z3.And(ys >= -900000000, ys <= 900000000)
    valid = I.decide(Sym(z3.And(vx, vy), 1), 'valid')
    if not valid:
        undefined = I.decide(Sym(z3.And(xs == UNDEF, ys == UNDEF), 1), 'undefined')
    return dict(x=x, y=y, xs=xs, ys=ys, valid=valid)


def same(I, a, b):
    return I.decide(Sym(z3.And(a['xs'] == b['xs'], a['ys'] == b['ys']), 1), 'same location')


def reference_points(I, locs, unique, initial_undefined_quirk=False):
    """-> (rc, emitted) following the documented behaviour: locations in order, consecutive duplicates dropped in unique mode,
    the first invalid or undefined location that would be emitted is an invalid_location error"""
    out = []; last = None
    for l in locs:
        if unique and last is not None and same(I, last, l): continue
        if not l['valid']: return 2, out
        out.append(l); last = l
    return 0, out


def put_xy(I, locs):
    mem = I.new_obj(8 * max(len(locs), 1), 'xy', 'heap')
    for k, l in enumerate(locs): I.store(mem + 8 * k, i32, l['x']); I.store(mem + 8 * k + 4, i32, l['y'])
    return mem


def check_coords(I, log, pos, l, what):
    I.obligation(I.term(I.load(log + 8 * pos, i64), 64) == l['xs'], 'coordinates', '%s: x of an emitted point differs' % what)
    I.obligation(I.term(I.load(log + 8 * (pos + 1), i64), 64) == l['ys'], 'coordinates', '%s: y of an emitted point differs' % what)


def h_way_geom(I, job):
    what, un, dr, n = job['what'], job['un'], job['dir'], job['n']
    locs = [sym_location(I, k) for k in range(n)]
    seq = list(reversed(locs)) if dr else locs
    if what == 0: want_rc, pts = (0, [locs[0]]) if locs[0]['valid'] else (2, [])
    else:
        want_rc, pts = reference_points(I, seq, un)
        minpts = 2 if what == 1 else 4
        if want_rc == 0 and len(pts) < minpts: want_rc = 1
    xy = put_xy(I, locs); log = I.new_obj(8 * 64, 'log', 'heap'); nl = I.new_obj(4, 'nl', 'heap')
    rc = I.concretize(I.call('@verif_factory_log', [what, un, dr, xy, n, log, 64, nl]), 'rc'); I.observe('rc', rc)
    if rc != want_rc:
        raise Finding('verdict', 'factory returns %s, reference says %s (0 ok, 1 geometry_error, 2 invalid_location)' % (rc, want_rc))
    if rc == 0:
        cnt = I.concretize(I.load(nl, i32), 'nlog'); I.observe('nlog', cnt)
        W = lambda k: I.concretize(I.load(log + 8 * k, i64), 'op')
        if what == 0:
            if cnt != 3 or W(0) != OP_POINT: raise Finding('structure', 'point: unexpected call sequence')
            check_coords(I, log, 1, pts[0], 'point')
        else:
            st, add, fin = (OP_LS_START, OP_LS_ADD, OP_LS_FINISH) if what == 1 else (OP_PG_START, OP_PG_ADD, OP_PG_FINISH)
            if cnt != 1 + 3 * len(pts) + 2: raise Finding('structure', 'way geometry: %d log words for %d expected points' % (cnt, len(pts)))
            if W(0) != st or W(cnt - 2) != fin: raise Finding('structure', 'start/finish calls missing')
            if W(cnt - 1) != len(pts): raise Finding('count', 'finish called with %d points, %d were added' % (W(cnt - 1), len(pts)))
            for j, p in enumerate(pts):
                if W(1 + 3 * j) != add: raise Finding('structure', 'unexpected call in point list')
                check_coords(I, log, 2 + 3 * j, p, 'way geometry')
        I.reach('ok')
    I.reach('end')


def h_multipolygon(I, job):
    rings = job['rings']; kinds = job['kinds']          # points per ring / 0 outer 1 inner
    locs = []; k = 0; per_ring = []
    for r, npts in enumerate(rings):
        rl = []
        for j in range(npts):
            if (r, j) in job['sym']: rl.append(sym_location(I, k))
            else:
                x, y = 10 * k + r, 7 * k + 1
                rl.append(dict(x=x, y=y, xs=z3.BitVecVal(x, 64), ys=z3.BitVecVal(y, 64), valid=True))
            k += 1
        per_ring.append(rl); locs += rl
    want_rc = 0; exp = [OP_MP_START]; npoly = 0
    if not rings: want_rc = 1
    for r, rl in enumerate(per_ring):
        if want_rc: break
        if kinds[r] == 0:
            if npoly > 0: exp.append(OP_MP_PFINISH)
            exp += [OP_MP_PSTART, OP_MP_OSTART]; npoly += 1
        else: exp.append(OP_MP_ISTART)
        rc_r, pts = reference_points(I, rl, True)
        for p in pts: exp.append(('pt', p))
        if rc_r: want_rc = rc_r; break
        exp.append(OP_MP_OFINISH if kinds[r] == 0 else OP_MP_IFINISH)
    if not want_rc: exp += [OP_MP_PFINISH, OP_MP_FINISH]
    xy = put_xy(I, locs)
    rm = I.new_obj(4 * max(len(rings), 1), 'rings', 'heap'); km = I.new_obj(max(len(rings), 1), 'kinds', 'heap')
    for r in range(len(rings)): I.store(rm + 4 * r, i32, rings[r]); I.store(km + r, i8, kinds[r])
    log = I.new_obj(8 * 128, 'log', 'heap'); nl = I.new_obj(4, 'nl', 'heap')
    rc = I.concretize(I.call('@verif_multipolygon_log', [xy, rm, km, len(rings), log, 128, nl]), 'rc'); I.observe('rc', rc)
    if rc != want_rc: raise Finding('verdict', 'create_multipolygon returns %s, reference says %s' % (rc, want_rc))
    if rc == 0:
        cnt = I.concretize(I.load(nl, i32), 'nlog'); pos = 0
        for e in exp:
            if isinstance(e, tuple):
                if pos + 3 > cnt or I.concretize(I.load(log + 8 * pos, i64), 'op') != OP_MP_ADD: raise Finding('structure', 'multipolygon: expected a point at log position %d' % pos)
                check_coords(I, log, pos + 1, e[1], 'multipolygon'); pos += 3
            else:
                if pos >= cnt or I.concretize(I.load(log + 8 * pos, i64), 'op') != e: raise Finding('structure', 'multipolygon: call sequence differs from ring structure at log position %d' % pos)
                pos += 1
        if pos != cnt: raise Finding('structure', 'multipolygon: %d extra log words' % (cnt - pos))
        I.reach('ok')
    I.reach('end')


# ---------------------------------------------------------------- WKB: decode with an independent reader
class Rd:
    def __init__(self, I, buf, n, hexmode):
        self.I, self.buf, self.n, self.p, self.hex = I, buf, n, 0, hexmode
    def byte(self):
        I = self.I
        if not self.hex:
            if self.p >= self.n: raise Finding('wkb', 'WKB ends prematurely')
            v = I.load(self.buf + self.p, i8); self.p += 1; return v
        if self.p + 2 > self.n: raise Finding('wkb', 'hex WKB ends prematurely')
        hv = []
        for k in range(2):
            c = I.load(self.buf + self.p + k, i8); t = I.term(c, 8)
            isdig = z3.And(z3.UGE(t, 48), z3.ULE(t, 57)); isup = z3.And(z3.UGE(t, 65), z3.ULE(t, 70))
            I.obligation(z3.Or(isdig, isup), 'wkb', 'hex WKB contains a character that is not an upper-case hex digit')
            hv.append(z3.If(isdig, t - 48, t - 55))
        self.p += 2
        return Sym(z3.simplify((hv[0] << 4) | hv[1]), 8)
    def u32(self):
        bs = [self.byte() for _ in range(4)]
        return self.I.concretize(Sym(z3.simplify(z3.Concat(*[self.I.term(b, 8) for b in reversed(bs)])), 32), 'wkb u32')
    def i64(self):
        bs = [self.byte() for _ in range(8)]
        return z3.simplify(z3.Concat(*[self.I.term(b, 8) for b in reversed(bs)]))
    def header(self, want_type, ewkb, first):
        bo = self.I.concretize(self.byte(), 'byte order')
        if bo != 1: raise Finding('wkb', 'byte order marker %d' % bo)
        t = self.u32()
        if ewkb and (first or t & 0x20000000):          # EWKB: the SRID flag is mandatory on the outermost geometry and allowed on nested ones
            if t != (want_type | 0x20000000): raise Finding('wkb', 'EWKB type word %x' % t)
            if self.u32() != 4326: raise Finding('wkb', 'EWKB SRID differs')
        elif t != want_type: raise Finding('wkb', 'geometry type %x, expected %x' % (t, want_type))
    def points(self, pts, what):
        for p in pts:
            self.I.obligation(self.i64() == p['xs'], 'coordinates', '%s: x differs' % what)
            self.I.obligation(self.i64() == p['ys'], 'coordinates', '%s: y differs' % what)


def h_wkb(I, job):
    what, un, dr, n, ewkb, hexm = job['what'], job['un'], job['dir'], job['n'], job['ewkb'], job['hex']
    if what == 3:
        rings, kinds = job['rings'], job['kinds']; per_ring = []; k = 0; locs = []
        for r, npts in enumerate(rings):
            rl = [sym_location(I, k + j) if (r, j) in job['sym'] else dict(x=10 * (k + j) + r, y=3 * (k + j), xs=z3.BitVecVal(10 * (k + j) + r, 64), ys=z3.BitVecVal(3 * (k + j), 64), valid=True) for j in range(npts)]
            k += npts; per_ring.append(rl); locs += rl
        want_rc = 0; polys = []
        for r, rl in enumerate(per_ring):
            rc_r, pts = reference_points(I, rl, True)
            if rc_r: want_rc = rc_r; break
            if kinds[r] == 0: polys.append([pts])
            else: polys[-1].append(pts)
    else:
        locs = [sym_location(I, k) for k in range(n)]
        seq = list(reversed(locs)) if dr else locs
        if what == 0: want_rc, pts = (0, [locs[0]]) if locs[0]['valid'] else (2, [])
        else:
            want_rc, pts = reference_points(I, seq, un)
            if want_rc == 0 and len(pts) < (2 if what == 1 else 4): want_rc = 1
        rings, kinds = [], []
    xy = put_xy(I, locs)
    rm = I.new_obj(4 * max(len(rings), 1), 'rings', 'heap'); km = I.new_obj(max(len(rings), 1), 'kinds', 'heap')
    for r in range(len(rings)): I.store(rm + 4 * r, i32, rings[r]); I.store(km + r, i8, kinds[r])
    out = I.new_obj(1024, 'wkb', 'heap'); ol = I.new_obj(4, 'ol', 'heap')
    rc = I.concretize(I.call('@verif_wkb', [what, un, dr, ewkb | (2 if job.get('history') else 0), hexm, xy, n, rm, km, len(rings), out, 1024, ol]), 'rc'); I.observe('rc', rc)
    if rc != want_rc: raise Finding('verdict', 'WKB factory returns %s, reference says %s' % (rc, want_rc))
    if rc == 0:
        ln = I.concretize(I.load(ol, i32), 'len'); I.observe('len', ln)
        R = Rd(I, out, ln, hexm)
        if what == 0: R.header(1, ewkb, True); R.points(pts, 'point')
        elif what == 1:
            R.header(2, ewkb, True)
            c = R.u32()
            if c != len(pts): raise Finding('count', 'linestring point count %d, %d points expected' % (c, len(pts)))
            R.points(pts, 'linestring')
        elif what == 2:
            R.header(3, ewkb, True)
            if R.u32() != 1: raise Finding('count', 'polygon ring count is not 1')
            c = R.u32()
            if c != len(pts): raise Finding('count', 'polygon point count %d, %d expected' % (c, len(pts)))
            R.points(pts, 'polygon')
        else:
            R.header(6, ewkb, True)
            c = R.u32()
            if c != len(polys): raise Finding('count', 'multipolygon has %d polygons, %d expected' % (c, len(polys)))
            for pg in polys:
                R.header(3, ewkb, False)
                c = R.u32()
                if c != len(pg): raise Finding('count', 'polygon has %d rings, %d expected' % (c, len(pg)))
                for ring in pg:
                    c = R.u32()
                    if c != len(ring): raise Finding('count', 'ring has %d points, %d expected' % (c, len(ring)))
                    R.points(ring, 'ring')
        if R.p != ln: raise Finding('wkb', '%d bytes after the end of the geometry' % (ln - R.p))
        I.reach('ok')
    I.reach('end')


# ---------------------------------------------------------------- double2string under the C11 snprintf contract
def install_snprintf(I):
    def snprintf_(I_, buf, size, fmt, *va):
        size = I.concretize(size, 'size')
        prec = I.d2s['prec']
        ln = I.named('len', 32); t = I.term(ln, 32)
        I.assume(z3.And(z3.UGE(t, 1), z3.ULE(t, 310 + (prec + 1 if prec else 0))))    # would-be length of "%.*f" of a finite double: sign, <= 309 digits, point, precision digits
        if I.decide(I.icmp('ult', 32, ln, size), 'fits'):
            I.assume_feasible(z3.ULE(t, FITLEN))             # texts that fit are enumerated up to FITLEN characters (stated bound)
            lnc = I.decide_value(ln, 'snprintf length', cap=FITLEN + 1) if isinstance(ln, Sym) else ln
        else: lnc = None
        w = lnc if lnc is not None else size - 1
        full = lnc if lnc is not None else None
        # shape of "%.<prec>f": [-]digits[.<prec digits>]; the harness knows where the dot is when the text is complete
        neg = I.decide(I.named('neg', 1), 'neg')
        chars = []
        for k in range(w):
            if k == 0 and neg: chars.append(45); continue
            if full is not None and prec > 0 and k == full - prec - 1: chars.append(46); continue
            ch = I.named('ch%d' % k, 8); tt = I.term(ch, 8)
            I.assume(z3.And(z3.UGE(tt, 48), z3.ULE(tt, 57)))
            if isinstance(ch, Sym): ch.lo, ch.hi = 48, 57
            chars.append(ch)
        if full is not None:
            mind = (1 if neg else 0) + 1 + (1 + prec if prec > 0 else 0)
            if full < mind: raise PathEnd()
        for k, ch in enumerate(chars): I.store(buf + k, i8, ch)
        I.store(buf + w, i8, 0)
        I.d2s.update(len=lnc, written=chars, size=size, ln_sym=ln)
        return ln if lnc is None else lnc
    I.models['snprintf'] = snprintf_


def h_double2string(I, job):
    prec = job['prec']
    I.d2s = dict(prec=prec)
    out = I.new_obj(400, 'out', 'heap')
    if getattr(I, 'native', False) or I.concrete_inputs is not None:
        # concrete runs: the real snprintf needs a real value: rebuild one from the recorded characters
        ci = I.concrete_inputs; ln = ci.get('len', 1); neg = ci.get('neg', 0)
        s = ''
        for k in range(ln):
            if k == 0 and neg: s += '-'
            elif prec > 0 and k == ln - prec - 1: s += '.'
            else: s += chr(ci.get('ch%d' % k, 49))
        try: val = float(s)
        except ValueError: raise PathEnd()
        for nm, w in (('len', 32), ('neg', 1)): I.named(nm, w)
        for k in range(ln):
            if 'ch%d' % k in ci: I.named('ch%d' % k, 8)
        n = I.concretize(I.call('@verif_double2string', [out, val, prec]), 'n')
        text = bytes(I.load(out + k, i8) for k in range(max(n, 0))).decode('latin1')
        I.observe('text', text)
        import decimal
        want = ('%.*f' % (prec, val))
        if '.' in want: want = want.rstrip('0').rstrip('.')
        if text != want: raise Finding('text', 'double2string(%r, %d) = %r, expected %r' % (val, prec, text, want))
        I.reach('end'); return
    n = I.concretize(I.call('@verif_double2string', [out, 1.5, prec]), 'n')
    d = I.d2s
    if d.get('len') is None:
        raise Finding('truncated', 'snprintf reports a text longer than the buffer (%d bytes) and double2string goes on with the truncated text' % d.get('size', -1))
    chars = d['written']; L = len(chars)
    keep = L
    if prec > 0:
        while keep > 0 and not isinstance(chars[keep - 1], int) and I.decide(I.icmp('eq', 8, chars[keep - 1], 48), 'trailing zero'): keep -= 1
        if keep > 0 and isinstance(chars[keep - 1], int) and chars[keep - 1] == 46: keep -= 1
    if n != keep: raise Finding('text', 'output has %d characters, expected %d (trailing zeros are removed only behind a decimal point)' % (n, keep))
    for k in range(keep): I.obligation(I.icmp('eq', 8, I.load(out + k, i8), chars[k]), 'text', 'output character %d differs from the formatted number' % k)
    I.reach('end')


def gen_locs(n):
    def g(rnd):
        out = []
        vals = [0, 1, 5, 1800000000, 1800000001, -1800000000, UNDEF, 900000000, 900000001, 123]
        for _ in range(12):
            d = {}
            for k in range(n):
                if rnd.random() < 0.3 and k > 0: d['x%d' % k] = d['x%d' % (k - 1)]; d['y%d' % k] = d['y%d' % (k - 1)]
                else: d['x%d' % k] = rnd.choice(vals) & 0xffffffff; d['y%d' % k] = rnd.choice(vals[:4] + [UNDEF, 900000000, 900000001]) & 0xffffffff
            out.append(d)
        return out
    return g


def h_identity(I, job):
    """IdentityProjection (what every default factory applies to each location): range check and degrees"""
    from irparse import FloatTy
    from llsym import RealF
    I.fp_model = 'real'
    x = I.named_signed('x', 32, -(1 << 31), (1 << 31) - 1); y = I.named_signed('y', 32, -(1 << 31), (1 << 31) - 1)
    out = I.new_obj(16, 'out', 'heap')
    rc = I.concretize(I.call('@verif_identity_projection', [x, y, out]), 'rc'); I.observe('rc', rc)
    xs, ys = I.sterm(x, 32), I.sterm(y, 32)
    valid = z3.And(xs >= -1800000000, xs <= 1800000000, ys >= -900000000, ys <= 900000000)
    if rc == 1:
        I.obligation(z3.Not(valid), 'spurious-error', 'a valid location is rejected by the projection'); I.reach('rejected')
    else:
        I.obligation(valid, 'invalid-location-accepted', 'a location outside +-180 / +-90 degrees (or undefined) is encoded instead of being rejected with invalid_location')
        cx, cy = I.load(out, FloatTy('double')), I.load(out + 8, FloatTy('double'))
        if getattr(I, 'native', False) or (isinstance(cx, float) and isinstance(cy, float)):        # native replay / concrete validation run
            vx, vy = [v - (1 << 32) if v >= (1 << 31) else v for v in (I.concretize(x, 'x'), I.concretize(y, 'y'))]
            if cx != vx / 10000000.0 or cy != vy / 10000000.0: raise Finding('coordinates', 'projected coordinates %r, %r are not lon = x / 10^7, lat = y / 10^7' % (cx, cy))
        else:
            if not (isinstance(cx, RealF) and isinstance(cy, RealF)): raise Finding('coordinates', 'projected coordinates do not depend on the location')
            I.obligation(z3.And(cx.t * 10000000 == z3.ToReal(xs), cy.t * 10000000 == z3.ToReal(ys)), 'coordinates', 'projected coordinates are not lon = x / 10^7, lat = y / 10^7 (exact rational reading of the division)')
        I.reach('accepted')
    I.reach('end')


def install_snprintf_exact(I):
    """snprintf("%.*f", precision, value) for concrete arguments: the exact C text (Python's % formatting is the same correctly rounded conversion)"""
    def snprintf_(I_, buf, size, fmt, *va):
        size = I.concretize(size, 'size'); prec = I.concretize(va[0], 'precision'); v = va[1]
        if not isinstance(v, float): raise Exception('text geometry harness: symbolic double reached snprintf')
        text = ('%.*f' % (prec, v)).encode()
        w = min(len(text), size - 1) if size else 0
        for k in range(w): I.store(buf + k, i8, text[k])
        if size: I.store(buf + w, i8, 0)
        return len(text)
    I.models['snprintf'] = snprintf_


def num(v): return ('%.7f' % float(v)).rstrip('0').rstrip('.') if '.' in ('%.7f' % float(v)) else '%d' % v


def h_text_geom(I, job):
    """WKT / GeoJSON text of a way / area with concrete small coordinates and a symbolic duplicate pattern, against a reference text"""
    fmt, what, un, dr = job['format'], job['what'], job['un'], job['dir']
    def mkpoints(n, base, closed):
        pts = []
        for k in range(n):
            if closed and k == n - 1: pts.append(pts[0]); continue
            dup = I.concretize(I.named('dup%d_%d' % (base, k), 1), 'duplicate of the previous point') if k > 0 else 0
            pts.append(pts[-1] if dup else (base + k + 1, -(base + 20 + k)))
        return pts
    def dedup(pts): return [p for k, p in enumerate(pts) if k == 0 or p != pts[k - 1]]
    pt = (lambda p: '%s %s' % (num(p[0]), num(p[1]))) if fmt == 0 else (lambda p: '[%s,%s]' % (num(p[0]), num(p[1])))
    if what == 3:
        rings = job['rings']; kinds = job['kinds']; allpts = []; per = []
        for r, n in enumerate(rings): ps = mkpoints(n, 10 * r, True); per.append(ps); allpts += ps
        n = len(allpts)
    else:
        n = job['n']; allpts = mkpoints(n, 0, what == 2); rings = []; kinds = []
    xy = I.new_obj(8 * n, 'xy', 'heap')
    for k, (x, y) in enumerate(allpts): I.store(xy + 8 * k, i32, x & 0xffffffff); I.store(xy + 8 * k + 4, i32, y & 0xffffffff)
    rm = I.new_obj(4 * max(len(rings), 1), 'rings', 'heap'); km = I.new_obj(max(len(kinds), 1), 'kinds', 'heap')
    for k, r in enumerate(rings): I.store(rm + 4 * k, i32, r); I.store(km + k, i8, kinds[k])
    out = I.new_obj(1024, 'out', 'heap'); ol = I.new_obj(4, 'ol', 'heap')
    rc = I.concretize(I.call('@verif_text_geom', [fmt, what, un, dr, xy, n, rm, km, len(rings), out, 1024, ol]), 'rc'); I.observe('rc', rc)
    # reference
    if what == 0: want_rc, text = 0, ('POINT(%s)' % pt(allpts[0]) if fmt == 0 else '{"type":"Point","coordinates":%s}' % pt(allpts[0]))
    elif what in (1, 2):
        seq = list(reversed(allpts)) if dr else allpts
        seq = dedup(seq) if un else seq
        want_rc = 0 if len(seq) >= (2 if what == 1 else 4) else 1
        body = ','.join(pt(p) for p in seq)
        if fmt == 0: text = ('LINESTRING(%s)' if what == 1 else 'POLYGON((%s))') % body
        else: text = ('{"type":"LineString","coordinates":[%s]}' if what == 1 else '{"type":"Polygon","coordinates":[[%s]]}') % body
    else:
        want_rc = 0; polys = []
        for r, ps in enumerate(per):
            ring = ','.join(pt(p) for p in dedup(ps))
            if kinds[r] == 0: polys.append([ring])
            else: polys[-1].append(ring)
        if fmt == 0: text = 'MULTIPOLYGON(%s)' % ','.join('(%s)' % ','.join('(%s)' % rg for rg in pg) for pg in polys)
        else: text = '{"type":"MultiPolygon","coordinates":[%s]}' % ','.join('[%s]' % ','.join('[%s]' % rg for rg in pg) for pg in polys)
    if rc != want_rc: raise Finding('verdict', 'factory returns %s, reference says %s (0 ok, 1 geometry_error)' % (rc, want_rc))
    if rc == 0:
        ln = I.concretize(I.load(ol, i32), 'len')
        got = bytes(I.concretize(I.load(out + k, i8), 'ch') for k in range(ln)).decode('latin-1')
        I.observe('text', got)
        if got != text: raise Finding('text', '%s output %r differs from the reference %r' % ('WKT' if fmt == 0 else 'GeoJSON', got, text))
        I.reach('ok')
    I.reach('end')


def harnesses(tier):
    global FITLEN
    q = tier == 'quick'
    FITLEN = 40 if q else 120
    hs = []
    n = 3 if q else 4
    jobs = [dict(what=0, un=0, dir=0, n=1)] + [dict(what=1, un=u, dir=d, n=n) for u in (0, 1) for d in (0, 1)] + [dict(what=2, un=u, dir=d, n=5 if not q else 4) for u in (0, 1) for d in (0, 1)]
    hs.append(Harness('factory_way', 'geom', h_way_geom, jobs=jobs, opaque_fp=True, reach=('end', 'ok'), testgen=lambda rnd: [dict(_job=1, **t) for t in gen_locs(n)(rnd)],
                      desc='GeometryFactory (logging implementation, bit-transparent projection with the validity check of IdentityProjection): point / linestring / polygon from ways whose locations are symbolic (valid, undefined, out of range; runs of duplicates) x {all, unique} x {forward, backward}: emitted coordinate sequence, point count and error class equal the reference',
                      bounds='ways of %d (linestring) / %d (polygon) nodes' % (n, 5 if not q else 4), wall=900))
    mp = [dict(rings=[3], kinds=[0], sym={(0, 0), (0, 1)}), dict(rings=[3, 3], kinds=[0, 1], sym={(0, 2), (1, 0)}), dict(rings=[3, 3, 3], kinds=[0, 1, 0], sym={(1, 1), (2, 0)}),
          dict(rings=[2, 2, 2, 2], kinds=[0, 0, 1, 1], sym={(3, 1)}), dict(rings=[], kinds=[], sym=set())]
    hs.append(Harness('factory_multipolygon', 'geom', h_multipolygon, jobs=mp, opaque_fp=True, reach=('end', 'ok'),
                      desc='create_multipolygon on areas with 1-2 outer and 0-2 inner rings (some locations symbolic): call sequence groups the rings under the right polygon, duplicates removed, invalid locations rejected, area without rings rejected',
                      bounds='<= 4 rings of <= 3 points, <= 2 symbolic locations per job'))
    wj = [dict(what=0, un=0, dir=0, n=1, ewkb=e, hex=h) for e in (0, 1) for h in (0, 1)] + [dict(what=1, un=1, dir=d, n=3, ewkb=e, hex=0) for d in (0, 1) for e in (0, 1)] + \
         [dict(what=1, un=0, dir=0, n=2, ewkb=1, hex=1), dict(what=2, un=1, dir=0, n=4, ewkb=0, hex=0)] + \
         [dict(what=1, un=1, dir=0, n=2, ewkb=0, hex=0, history=1), dict(what=2, un=1, dir=0, n=4, ewkb=1, hex=0, history=1), dict(what=3, un=1, dir=0, n=0, ewkb=0, hex=0, history=1, rings=[3], kinds=[0], sym={(0, 1)})] + \
         [dict(what=3, un=1, dir=0, n=0, ewkb=e, hex=0, rings=[3, 3, 3], kinds=[0, 1, 0], sym={(0, 1), (1, 2)}) for e in (0, 1)]
    hs.append(Harness('wkb', 'geom', h_wkb, jobs=wj, opaque_fp=True, reach=('end', 'ok'),
                      desc='real WKBFactoryImpl (WKB / EWKB, binary / hex) read back by an independent WKB reader, also on a factory object that has rejected degenerate objects before: type words, SRID, back-patched counts equal the encoded elements, coordinates in order',
                      bounds='ways of <= 4 nodes, one area with 3 rings', wall=900))
    tj = [dict(format=f, what=0, un=0, dir=0, n=1) for f in (0, 1)] + [dict(format=f, what=w, un=u, dir=d, n=n) for f in (0, 1) for (w, n) in ((1, 3), (2, 5)) for u in (0, 1) for d in (0, 1)] \
         + [dict(format=f, what=3, un=1, dir=0, rings=r, kinds=k) for f in (0, 1) for (r, k) in (([4], [0]), ([4, 4], [0, 1]), ([4, 4, 4], [0, 1, 0]), ([5, 4, 4], [0, 1, 1]))]
    hs.append(Harness('text_geometry', 'geom', h_text_geom, jobs=tj, setup=install_snprintf_exact, reach=('end', 'ok'), native_ok=True,
                      tests=[dict(_job=2, dup0_1=0, dup0_2=1), dict(_job=len(tj) - 1, **{'dup%d_%d' % (b, k): 0 for b in (0, 10, 20) for k in range(1, 5)})],
                      desc='the WKT and GeoJSON factories (real WKTFactoryImpl / GeoJSONFactoryImpl under GeometryFactory) on points, linestrings, polygons ({all, unique} x {forward, backward}) and multipolygons (1-3 rings, inner rings under their outer ring) with concrete small coordinates and a symbolic pattern of consecutive duplicate points: the text equals the reference text (prefix, brackets, separators, coordinate order, ring / polygon grouping, duplicate suppression, reversal) or geometry_error for too few points',
                      bounds='3-point linestrings, 5-point closed ways, rings of 4-5 points; integer coordinates (so that the decimal text is exact); snprintf is an exact model of "%.*f" on concrete doubles; double2string itself is decided separately'))
    hs.append(Harness('identity_projection', 'geom', h_identity, mode='INT', reach=('end', 'accepted', 'rejected'),
                      tests=[dict(x=1800000000, y=900000000), dict(x=1800000001, y=0), dict(x=0, y=-900000001), dict(x=2147483647, y=2147483647), dict(x=-5, y=7)],
                      desc='IdentityProjection (the default projection of the WKB, WKT and GeoJSON factories) on every int32 x, y: invalid_location iff the location is outside +-180 / +-90 degrees or undefined; otherwise lon = x / 10^7 and lat = y / 10^7',
                      bounds='none on x, y (all 2^64 locations); the double division is read as an exact rational (the native replay compares against the IEEE quotient)'))
    hs.append(Harness('double2string', 'geom', h_double2string, jobs=[dict(prec=p) for p in ((0, 1, 7, 17) if q else range(0, 18))], setup=install_snprintf, reach=('end',),
                      desc='double2string under the C11 contract of snprintf("%.*f"): arbitrary text of the right shape and arbitrary reported length (1 .. longest text of a finite double): output = the text with trailing zeros removed only behind a decimal point; a reported length beyond the internal buffer must not be used',
                      bounds='precision %s; complete texts up to %d characters; reported length <= 310 + precision + 1 (longest text of a finite double)' % ('0, 1, 7, 17' if q else '0..17', FITLEN), sanitize=True, wall=900,
                      tests=[dict(_job=0, len=2, neg=0, ch0=49, ch1=48), dict(_job=1, len=3, neg=0, ch0=50, ch2=53)]))
    return hs
