"""C12 — all in-memory id-to-value index implementations behave as one mathematical map (E2, BV mode)"""
import z3
from fw import Harness
from llsym import Finding, Sym
from irparse import IntTy
i8, i32, i64 = IntTy(8), IntTy(32), IntTy(64)
UNDEF = 2147483647
KN = {0: 'DenseMemArray', 1: 'SparseMemArray', 2: 'FlexMem (sparse)', 3: 'FlexMem (switch_to_dense after the insertions)', 4: 'FlexMem (dense from the start)', 5: 'SparseMemMap (std::map; red-black tree maintenance modelled as an unbalanced search tree)', 6: 'DenseMmapArray (anonymous mapping)', 7: 'SparseMmapArray (anonymous mapping)'}


def inputs(I, n, idbound, probebound=None):
    ids, xs, ys = [], [], []
    im = I.new_obj(8 * max(n, 1), 'ids', 'heap'); xy = I.new_obj(8 * max(n, 1), 'xy', 'heap')
    for k in range(n):
        d = I.named('id%d' % k, 64); x = I.named('x%d' % k, 32); y = I.named('y%d' % k, 32)
        if idbound: I.assume(z3.ULT(I.term(d, 64), idbound))
        I.assume(z3.And(I.term(x, 32) != UNDEF, I.term(y, 32) != UNDEF))          # defined locations only: an undefined coordinate is the "empty" marker
        for j in range(k): I.assume(I.term(d, 64) != ids[j])                              # distinct ids
        I.store(im + 8 * k, i64, d); I.store(xy + 8 * k, i32, x); I.store(xy + 8 * k + 4, i32, y)
        ids.append(I.term(d, 64)); xs.append(I.term(x, 32)); ys.append(I.term(y, 32))
    return im, xy, ids, xs, ys


def h_map(I, job):
    kind, n = job['kind'], job['n']
    bound = job.get('idbound')
    im, xy, ids, xs, ys = inputs(I, n, bound)
    probe = I.named('probe', 64); pt = I.term(probe, 64)
    if bound: I.assume(z3.ULT(pt, bound + 3))
    out = [I.new_obj(4, nm, 'heap') for nm in ('gx', 'gy', 'nx', 'ny')]; sz = I.new_obj(8, 'size', 'heap')
    I.call('@verif_map_split', [job.get('split', 0xffffffff)]); I.call('@verif_map_clear', [int(bool(job.get('clear')))])
    rc = I.concretize(I.call('@verif_map', [kind, im, xy, n, probe] + out + [sz]), 'rc'); I.observe('rc', rc)
    I.call('@verif_map_split', [0xffffffff]); I.call('@verif_map_clear', [0])
    if job.get('clear'): ids, xs, ys = ids[job['split']:], xs[job['split']:], ys[job['split']:]; n = len(ids)        # model: clear() forgets the first series
    gx, gy, nx, ny = [I.term(I.load(o, i32), 32) for o in out]
    member = z3.Or([pt == d for d in ids] + [z3.BoolVal(False)])
    val_x = z3.BitVecVal(UNDEF, 32); val_y = z3.BitVecVal(UNDEF, 32)
    for k in range(n):
        val_x = z3.If(pt == ids[k], xs[k], val_x); val_y = z3.If(pt == ids[k], ys[k], val_y)
    I.obligation(member if rc == 0 else z3.Not(member), 'lookup', '%s: get() %s an id that was %s' % (KN[kind], 'finds' if rc == 0 else 'does not find', 'never inserted' if rc == 0 else 'inserted'))
    if rc == 0: I.obligation(z3.And(gx == val_x, gy == val_y), 'lookup', '%s: get() returns a different value than the one inserted' % KN[kind])
    I.obligation(z3.And(nx == val_x, ny == val_y), 'lookup', '%s: get_noexcept() differs from the map model (inserted value, else the empty value)' % KN[kind])
    I.reach('end')


def h_dump_list(I, job):
    kind, n = job['kind'], job['n']
    im, xy, ids, xs, ys = inputs(I, n, None)
    cap = 16 * n + 16; out = I.new_obj(cap, 'dump', 'heap'); ol = I.new_obj(8, 'ol', 'heap')
    rc = I.concretize(I.call('@verif_dump', [kind, 0, im, xy, n, out, cap, ol]), 'rc')
    ln = I.concretize(I.load(ol, i64), 'len'); I.observe('len', ln)
    if rc != 0 or ln != 16 * n: raise Finding('dump', 'dump_as_list writes %d bytes (rc %d), expected %d' % (ln, rc, 16 * n))
    recs = [(I.term(I.load(out + 16 * k, i64), 64), I.term(I.load(out + 16 * k + 8, i32), 32), I.term(I.load(out + 16 * k + 12, i32), 32)) for k in range(n)]
    for k in range(n):
        I.obligation(z3.Or([z3.And(recs[j][0] == ids[k], recs[j][1] == xs[k], recs[j][2] == ys[k]) for j in range(n)]), 'dump', 'an inserted (id, value) pair is missing from the dumped list')
    for a, b in zip(recs, recs[1:]): I.obligation(z3.ULT(a[0], b[0]), 'dump', 'dumped list is not sorted by id')
    I.reach('end')


def h_dump_array(I, job):
    n = job['n']; bound = job['idbound']
    im, xy, ids, xs, ys = inputs(I, n, bound)
    cap = 8 * bound; out = I.new_obj(cap, 'dump', 'heap'); ol = I.new_obj(8, 'ol', 'heap')
    for k in range(cap): I.store(out + k, i8, 0xAA)
    rc = I.concretize(I.call('@verif_dump', [0, 1, im, xy, n, out, cap, ol]), 'rc')
    ln = I.concretize(I.load(ol, i64), 'len'); I.observe('len', ln)
    if rc != 0 or ln % 8: raise Finding('dump', 'dump_as_array: rc %d, %d bytes' % (rc, ln))
    mx = ids[0]
    for d in ids[1:]: mx = z3.If(z3.UGT(d, mx), d, mx)
    I.obligation(mx + 1 == ln // 8, 'dump', 'dumped array does not end with the largest id')
    for slot in range(ln // 8):
        ex = z3.BitVecVal(UNDEF, 32); ey = z3.BitVecVal(UNDEF, 32)
        for k in range(n): ex = z3.If(ids[k] == slot, xs[k], ex); ey = z3.If(ids[k] == slot, ys[k], ey)
        I.obligation(z3.And(I.term(I.load(out + 8 * slot, i32), 32) == ex, I.term(I.load(out + 8 * slot + 4, i32), 32) == ey), 'dump', 'array slot differs from the map (value at its id, empty elsewhere)')
    I.reach('end')


def h_handler(I, job):
    kind, nn, nr = job['kind'], job['nodes'], job['refs']
    nm = I.new_obj(8 * nn, 'nids', 'heap'); nxy = I.new_obj(8 * nn, 'nxy', 'heap'); rm = I.new_obj(8 * nr, 'refs', 'heap'); out = I.new_obj(8 * nr, 'out', 'heap')
    nids, xs, ys = [], [], []
    B = job.get('idbound')
    for k in range(nn):
        d = I.named('nid%d' % k, 64); x = I.named('x%d' % k, 32); y = I.named('y%d' % k, 32); dt = I.term(d, 64)
        I.assume(dt != z3.BitVecVal(1 << 63, 64))
        if B: I.assume(z3.And(dt > -B, dt < B))
        I.assume(z3.And(I.term(x, 32) != UNDEF, I.term(y, 32) != UNDEF))
        for j in range(k): I.assume(dt != nids[j])
        I.store(nm + 8 * k, i64, d); I.store(nxy + 8 * k, i32, x); I.store(nxy + 8 * k + 4, i32, y)
        nids.append(dt); xs.append(I.term(x, 32)); ys.append(I.term(y, 32))
    refs = []
    for k in range(nr):
        r = I.named('ref%d' % k, 64); rt = I.term(r, 64); I.assume(rt != z3.BitVecVal(1 << 63, 64))
        if B: I.assume(z3.And(rt > -B - 2, rt < B + 2))
        I.store(rm + 8 * k, i64, r); refs.append(rt)
    rc = I.concretize(I.call('@verif_node_locations', [kind, nm, nxy, nn, rm, nr, job['ignore'], out]), 'rc'); I.observe('rc', rc)
    allfound = z3.And([z3.Or([r == d for d in nids]) for r in refs])
    if job['ignore']:
        if rc != 0: raise Finding('handler', 'not_found thrown although errors are to be ignored')
    else: I.obligation(allfound if rc == 0 else z3.Not(allfound), 'handler', 'way() %s although %s' % ('succeeds' if rc == 0 else 'throws not_found', 'a referenced node is missing' if rc == 0 else 'all referenced nodes were seen'))
    for k, r in enumerate(refs):
        ex = z3.BitVecVal(UNDEF, 32); ey = z3.BitVecVal(UNDEF, 32)
        for j in range(nn): ex = z3.If(r == nids[j], xs[j], ex); ey = z3.If(r == nids[j], ys[j], ey)
        I.obligation(z3.And(I.term(I.load(out + 8 * k, i32), 32) == ex, I.term(I.load(out + 8 * k + 4, i32), 32) == ey), 'handler', 'node reference does not get the location of the node with that id (positive and negative ids, any arrival order)')
    I.reach('end')


def gen(n, bound, extra=()):
    def g(rnd):
        out = []
        for _ in range(8):
            pool = rnd.sample(range(0, bound or 50), n)
            d = {}
            for k in range(n): d['id%d' % k] = pool[k]; d['x%d' % k] = rnd.randint(0, 100); d['y%d' % k] = rnd.randint(0, 100)
            d['probe'] = rnd.choice(pool + [rnd.randint(0, (bound or 50))])
            out.append(d)
        return out
    return g


def harnesses(tier):
    q = tier == 'quick'
    N = 3 if q else 4
    hs = []
    hs.append(Harness('map_history', 'maps', h_map, jobs=[dict(kind=0, n=N, idbound=10), dict(kind=1, n=N), dict(kind=2, n=N), dict(kind=3, n=2, idbound=8), dict(kind=4, n=2, idbound=8), dict(kind=5, n=N),
                                                          dict(kind=1, n=3, split=2), dict(kind=1, n=3, split=1), dict(kind=5, n=3, split=2), dict(kind=2, n=3, split=2), dict(kind=0, n=3, split=2, idbound=8)],
                      desc='%d insertions with distinct symbolic ids (any order) + sort, then get()/get_noexcept() of a symbolic id on DenseMemArray, SparseMemArray, FlexMem (sparse, switched to dense, dense), SparseMemMap: exactly the inserted value for inserted ids, not found / empty otherwise; also with the insertions split into two series, each followed by sort(), with a lookup in between' % N,
                      bounds='%d insertions; 64-bit ids for the sparse kinds, ids < 10 / < 8 for the dense kinds (vector indexed by id)' % N, testgen=lambda rnd: [dict(_job=3, **t) for t in gen(2, 8)(rnd)], wall=900, step_cap=20_000_000))
    hs.append(Harness('map_clear', 'maps', h_map, jobs=[dict(kind=0, n=3, split=2, clear=1, idbound=8), dict(kind=1, n=3, split=2, clear=1), dict(kind=2, n=3, split=1, clear=1), dict(kind=4, n=2, split=1, clear=1, idbound=8), dict(kind=5, n=3, split=2, clear=1)],
                      desc='clear() between two series of insertions (first series + sort + lookup, clear(), second series + sort) on DenseMemArray, SparseMemArray, FlexMem (sparse and dense), SparseMemMap: afterwards the map holds exactly the second series; an id of the first series reads as not found / the empty value, also when the second series makes a dense array grow past it',
                      bounds='2 + 1 or 1 + 1 insertions with distinct symbolic ids; ids < 8 for the dense kinds', testgen=lambda rnd: [dict(_job=0, **t) for t in gen(3, 8)(rnd)], wall=900, step_cap=20_000_000))
    hs.append(Harness('mmap_clear', 'maps', h_map, jobs=[dict(kind=6, n=3, split=2, clear=1, idbound=8), dict(kind=6, n=2, split=1, clear=1, idbound=8), dict(kind=7, n=3, split=2, clear=1)], defs=('OSMCODE_LIBOSMIUM_VERIF', 'OSMCODE_LIBOSMIUM_VERIF_MMAP_VECTOR_SIZE_INCREMENT=4'),
                      desc='the same clear() history on DenseMmapArray and SparseMmapArray (anonymous mappings, growth step lowered to 4 elements through the guarded hook): slots of the first series that stay inside the mapping must read as not found after clear(), also when the second series grows the array past them',
                      bounds='2 + 1 or 1 + 1 insertions, ids < 8 for the dense array', testgen=lambda rnd: [dict(_job=0, **t) for t in gen(3, 8)(rnd)], wall=900, step_cap=20_000_000))
    hs.append(Harness('flexmem_auto_switch', 'maps', h_map, jobs=[dict(kind=2, n=3, idbound=10 if q else 12)], defs=('OSMCODE_LIBOSMIUM_VERIF', 'OSMCODE_LIBOSMIUM_VERIF_FLEXMEM_MIN_DENSE_ENTRIES=3'),
                      desc='FlexMem with the automatic switch from the sparse to the dense index reachable (guarded hook: threshold 3 entries instead of 2^24 - 1): %d insertions with distinct symbolic ids, the third or a later one triggers switch_to_dense() when the largest id is below three times the number of entries; lookups afterwards agree with the map model (the entry that triggers the switch included)' % 3,
                      bounds='3 insertions (4 do not finish in 15 minutes), ids < %d; threshold lowered through OSMCODE_LIBOSMIUM_VERIF_FLEXMEM_MIN_DENSE_ENTRIES' % (10 if q else 12), testgen=lambda rnd: [dict(_job=0, **t) for t in gen(3, 10)(rnd)], wall=900, step_cap=20_000_000))
    hs.append(Harness('mmap_arrays', 'maps', h_map, jobs=[dict(kind=6, n=3, idbound=14 if q else 16), dict(kind=7, n=N)], defs=('OSMCODE_LIBOSMIUM_VERIF', 'OSMCODE_LIBOSMIUM_VERIF_MMAP_VECTOR_SIZE_INCREMENT=4'),
                      desc='DenseMmapArray and SparseMmapArray on anonymous memory mappings (mmap / mremap / munmap modelled: fresh and grown memory is zero-filled, as the kernel delivers it) with the growth step of the mapping lowered from 2^20 to 4 elements (guarded hook), so that %d insertions make the mapping grow several times: lookups agree with the map model; in particular slots that were mapped but never set read as not found, although zero bytes are the valid location (0, 0)' % N,
                      bounds='3 (dense) / %d (sparse) insertions, ids < 14 (thorough: 16) for the dense array; growth step through OSMCODE_LIBOSMIUM_VERIF_MMAP_VECTOR_SIZE_INCREMENT; file-backed mappings (DenseFileArray, SparseFileArray) are not encoded' % N, native_ok=True, wall=900, step_cap=20_000_000))
    hs.append(Harness('dump_list', 'maps', h_dump_list, jobs=[dict(kind=1, n=3), dict(kind=5, n=3)], desc='SparseMemArray and SparseMemMap dump_as_list (write() replaced by a byte recorder): the bytes are the (id, value) records sorted by id', bounds='3 entries (block-wise variants that differ only beyond 2^16 entries are outside the bound)'))
    hs.append(Harness('dump_array', 'maps', h_dump_array, jobs=[dict(n=2, idbound=6)], desc='DenseMemArray dump_as_array: slot i holds the value of id i, the empty value elsewhere', bounds='2 entries, ids < 6'))
    hs.append(Harness('node_locations_for_ways', 'maps', h_handler, jobs=[dict(kind=1, nodes=3, refs=2, ignore=0), dict(kind=1, nodes=3, refs=2, ignore=1), dict(kind=0, nodes=2, refs=2, ignore=0, idbound=6)],
                      desc='NodeLocationsForWays with sparse and dense storage: nodes with positive and negative symbolic ids in any order, then a way: every node reference gets the location of the node with that id, not_found iff a referenced node is missing (unless errors are ignored)',
                      bounds='3 nodes, 2 references', wall=900))
    return hs
