"""C16 — object orderings are consistent strict weak orders; the order checker agrees (E2, BV mode, full 64-bit ids)"""
import z3
from fw import Harness
from llsym import Finding, Sym
from irparse import IntTy
i8, i32, i64 = IntTy(8), IntTy(32), IntTy(64)
INT64_MIN = 1 << 63


def mk_obj(I, tag, valid_ts=False, same_type=None):
    """an object header with symbolic (type in {node,way,relation}, id != INT64_MIN, version < 2^31, timestamp, visible)"""
    mem = I.new_obj(64, 'obj' + tag, 'heap')
    ty = I.named('type' + tag, 8); idv = I.named('id' + tag, 64); ver = I.named('ver' + tag, 32); ts = I.named('ts' + tag, 32); vis = I.named('vis' + tag, 1)
    t = I.term(ty, 8)
    I.assume(z3.And(z3.UGE(t, 1), z3.ULE(t, 3)))
    I.assume(I.term(idv, 64) != z3.BitVecVal(INT64_MIN, 64))
    I.assume(z3.ULT(I.term(ver, 32), 1 << 31))
    if valid_ts: I.assume(I.term(ts, 32) != 0)
    I.call('@verif_obj_init', [mem, I.zext(ty, 8, 32), idv, ver, ts, I.zext(vis, 1, 32)])
    return dict(mem=mem, type=t, id=I.term(idv, 64), ver=I.term(ver, 32), ts=I.term(ts, 32), vis=I.term(vis, 1))


def cmp(I, which, a, b):
    r = I.call('@verif_cmp', [which, a['mem'], b['mem']])
    return I.term(r, 32) != 0


def id_lt(x, y):
    """documented id rule: 0 first, then negative ids, then positive ids, each by ascending absolute value"""
    zx, zy = x == 0, y == 0
    nx, ny = x < 0, y < 0
    rank = lambda z, n: z3.If(z, 0, z3.If(n, 1, 2))
    absx = z3.If(nx, -x, x); absy = z3.If(ny, -y, y)
    return z3.Or(rank(zx, nx) < rank(zy, ny), z3.And(rank(zx, nx) == rank(zy, ny), z3.ULT(absx, absy)))


def h_axioms(I, job):
    which = job['which']; ts_mode = job['ts']
    a, b, c = [mk_obj(I, t, valid_ts=(ts_mode == 'valid')) for t in 'abc']
    if ts_mode == 'equalish':
        pass
    lt = lambda x, y: cmp(I, which, x, y)
    aa, ab, ba, bc, cb, ac, ca = lt(a, a), lt(a, b), lt(b, a), lt(b, c), lt(c, b), lt(a, c), lt(c, a)
    I.obligation(z3.Not(aa), 'irreflexive', 'a < a')
    I.obligation(z3.Not(z3.And(ab, ba)), 'asymmetric', 'a < b and b < a')
    I.obligation(z3.Implies(z3.And(ab, bc), ac), 'transitive', 'a < b < c but not a < c')
    I.obligation(z3.Implies(z3.And(z3.Not(ab), z3.Not(ba), z3.Not(bc), z3.Not(cb)), z3.And(z3.Not(ac), z3.Not(ca))), 'incomparability-transitive', 'a ~ b ~ c but a, c comparable')
    # agreement with the documented key: type, then id rule
    key_lt = z3.Or(z3.ULT(a['type'], b['type']), z3.And(a['type'] == b['type'], id_lt(a['id'], b['id'])))
    key_gt = z3.Or(z3.ULT(b['type'], a['type']), z3.And(a['type'] == b['type'], id_lt(b['id'], a['id'])))
    I.obligation(z3.Implies(key_lt, ab), 'key-order', 'type/id key says a before b but comparator disagrees')
    I.obligation(z3.Implies(key_gt, z3.Not(ab)), 'key-order', 'type/id key says b before a but comparator says a < b')
    samekey = z3.And(a['type'] == b['type'], a['id'] == b['id'])
    if which in (0, 1, 2):
        I.obligation(z3.Implies(z3.And(samekey, z3.ULT(a['ver'], b['ver'])), ab), 'version-order', 'lower version not first')
    if which == 3:
        I.obligation(z3.Implies(z3.And(samekey, z3.UGT(a['ver'], b['ver'])), ab), 'version-order', 'newest-first order: higher version not first')
    if which == 2:
        eq = cmp(I, 4, a, b)
        I.obligation(eq == z3.And(z3.Not(ab), z3.Not(ba)), 'equality', 'a == b differs from incomparability under the timestamp-free order')
    I.reach('end')


def h_relops(I, job):
    a, b = mk_obj(I, 'a'), mk_obj(I, 'b')
    lt, gt, le, ge = cmp(I, 0, a, b), cmp(I, 7, a, b), cmp(I, 8, a, b), cmp(I, 9, a, b)
    lt_ba = cmp(I, 0, b, a)
    eq, ne, eq2, eqid = cmp(I, 4, a, b), cmp(I, 10, a, b), cmp(I, 5, a, b), cmp(I, 6, a, b)
    I.obligation(gt == lt_ba, 'relops', 'a > b is not b < a')
    I.obligation(le == z3.Not(lt_ba), 'relops', 'a <= b is not !(b < a)')
    I.obligation(ge == z3.Not(lt), 'relops', 'a >= b is not !(a < b)')
    I.obligation(ne == z3.Not(eq), 'relops', '!= is not the negation of ==')
    I.obligation(eq == eq2, 'relops', 'functor equality differs from operator==')
    ref_eq = z3.And(a['type'] == b['type'], a['id'] == b['id'], a['ver'] == b['ver'])
    I.obligation(eq == ref_eq, 'equality', 'operator== is not equality of (type, id, version)')
    I.obligation(eqid == z3.And(a['type'] == b['type'], a['id'] == b['id']), 'equality', 'object_equal_type_id is not equality of (type, id)')
    I.obligation(cmp(I, 1, a, b) == lt, 'relops', 'object_order_type_id_version differs from operator<')
    x = I.named('x', 64); y = I.named('y', 64)
    for v in (x, y): I.assume(I.term(v, 64) != z3.BitVecVal(INT64_MIN, 64))
    r = I.call('@verif_id_order', [x, y])
    I.obligation((I.term(r, 32) != 0) == id_lt(I.term(x, 64), I.term(y, 64)), 'id-order', 'id_order differs from the documented id rule')
    I.reach('end')


def h_checkorder(I, job):
    n = job['n']
    objs = I.new_obj(64 * n, 'objs', 'heap')
    fs = []
    for k in range(n):
        ty = I.named('type%d' % k, 8); idv = I.named('id%d' % k, 64)
        t = I.term(ty, 8)
        I.assume(z3.And(z3.UGE(t, 1), z3.ULE(t, 3)))
        I.assume(I.term(idv, 64) != z3.BitVecVal(INT64_MIN, 64))
        I.call('@verif_obj_init', [objs + 64 * k, I.zext(ty, 8, 32), idv, 1, 0, 1])
        fs.append((t, I.term(idv, 64)))
    r = I.call('@verif_check_order', [objs, n])
    I.observe('first_rejected', r)
    rt = I.term(r, 32)
    # reference: index of the first object that is not strictly greater than its predecessor under (type, id rule)
    ref = z3.BitVecVal(n, 32)
    for k in range(n - 1, 0, -1):
        (t0, i0), (t1, i1) = fs[k - 1], fs[k]
        asc = z3.Or(z3.ULT(t0, t1), z3.And(t0 == t1, id_lt(i0, i1)))
        ref = z3.If(asc, ref, z3.BitVecVal(k, 32))
    I.obligation(rt == ref, 'check-order', 'CheckOrder accepts/rejects differently from the strict (type, id rule) order')
    I.reach('end')


def gen_co(n):
    def g(rnd):
        out = []
        ids = [0, 1, 2, -1, -2, 5, -5, (1 << 63) - 1, -((1 << 63) - 1), 1 << 32, -(1 << 32)]
        for _ in range(12):
            d = {}
            for k in range(n): d['type%d' % k] = rnd.randint(1, 3); d['id%d' % k] = rnd.choice(ids) & ((1 << 64) - 1)
            out.append(d)
        return out
    return g


def harnesses(tier):
    hs = []
    names = {0: 'operator<', 2: 'object_order_type_id_version_without_timestamp', 3: 'object_order_type_id_reverse_version'}
    for which, nm in names.items():
        modes = ['valid'] if which != 2 else ['any']
        hs.append(Harness('axioms_%d' % which, 'order', h_axioms, jobs=[{'which': which, 'ts': m} for m in modes],
                          desc='%s on three objects with fully symbolic type/id/version/timestamp/visible: irreflexive, asymmetric, transitive, transitive incomparability, agreement with the (type, id rule, version) key' % nm,
                          bounds='none on ids (64-bit, != INT64_MIN), versions < 2^31, timestamps %s' % ('all valid (non-zero)' if which != 2 else 'arbitrary (ignored by this order)')))
    hs.append(Harness('relops_equality', 'order', h_relops, desc='derived operators, operator==, equality functors and id_order agree with each other and with the documented rule', bounds='none (two fully symbolic objects)'))
    n = 3 if tier == 'quick' else 4
    hs.append(Harness('check_order_seq', 'order', h_checkorder, jobs=[{'n': n}], desc='CheckOrder fed %d objects of symbolic type and id from a fresh state: index of first rejected object == first position that is not strictly ascending' % n,
                      bounds='sequences of %d objects' % n, testgen=gen_co(n)))
    return hs
