"""C09 — compressed input is decompressed completely and truncation is detected (E2, BV mode; wrapper logic against an abstract libbz2/stdio model)"""
import os, z3, tempfile
from fw import Harness
from llsym import Finding, Sym, PathEnd
from irparse import IntTy
i8, i32, i64 = IntTy(8), IntTy(32), IntTy(64)
CHUNK = 10240


def h_bzip2_fd(I, job):
    ns = job['streams']; ra = job['readahead']
    cs = I.new_obj(4 * ns, 'csize', 'heap'); ps = I.new_obj(4 * ns, 'psize', 'heap'); C = []; P = []
    for k in range(ns):
        c = I.named('csize%d' % k, 8); p = I.named('psize%d' % k, 8)
        I.assume(z3.And(z3.UGE(I.term(c, 8), 1), z3.ULE(I.term(c, 8), job['maxc'])))
        I.assume(z3.And(z3.UGE(I.term(p, 8), job.get('minp', 0)), z3.ULE(I.term(p, 8), job['maxp'])))
        cc = I.concretize(c, 'csize'); pc = I.concretize(p, 'psize')
        I.store(cs + 4 * k, i32, cc); I.store(ps + 4 * k, i32, pc); C.append(cc); P.append(pc)
    total = sum(C)
    if job['truncate']:
        tr = I.named('truncate_to', 8); I.assume(z3.ULT(I.term(tr, 8), total)); trunc = I.concretize(tr, 'truncate')
        if trunc in [sum(C[:k]) for k in range(ns + 1)]: raise PathEnd()       # cut exactly between two streams: a valid shorter file
    else: trunc = 1 << 20
    fd = 7
    native = getattr(I, 'native', False)
    if native:
        import bz2
        data = b''.join(bz2.compress(bytes([97 + k]) * P[k]) for k in range(ns))
        if job['truncate']: data = data[:max(1, len(data) * trunc // total)]
        f = tempfile.NamedTemporaryFile(delete=False); f.write(data); f.close()
        fd = os.open(f.name, os.O_RDONLY); os.unlink(f.name)
    rle = I.new_obj(5 * 16, 'rle', 'heap'); rl = I.new_obj(4, 'rlelen', 'heap'); nr = I.new_obj(4, 'nreads', 'heap'); off = I.new_obj(8, 'offset', 'heap')
    rc = I.concretize(I.call('@verif_bzip2_fd', [fd, ns, cs, ps, trunc, ra, rle, 80, rl, nr, off]), 'rc'); I.observe('rc', rc)
    n = I.concretize(I.load(rl, i32), 'rlelen')
    got = [(I.concretize(I.load(rle + 5 * k, i8), 'byte'), I.concretize(I.load(rle + 5 * k + 1, i32), 'count')) for k in range(n // 5)]
    I.observe('rle', tuple(got))
    if job['truncate']:
        if rc == 0: raise Finding('truncation', 'a truncated compressed file is read without an error')
        I.reach('end'); return
    want = [(97 + k, P[k]) for k in range(ns) if P[k]]
    if rc != 0: raise Finding('rejects-valid', 'valid multi-stream file rejected (rc=%d)' % rc)
    if got != want: raise Finding('incomplete', 'the data returned by read() is not the concatenation of the payloads of all streams (got %d runs, expected %d)' % (len(got), len(want)))
    if not native:
        o = I.concretize(I.load(off, i64), 'offset')
        if o > total: raise Finding('offset', 'reported read offset %d exceeds the file size %d' % (o, total))
    I.reach('end')


def h_buffer(I, job):
    ns = job['streams']; kind = job['kind']
    cs = I.new_obj(4 * ns, 'csize', 'heap'); ps = I.new_obj(4 * ns, 'psize', 'heap'); C = []; P = []
    for k in range(ns):
        c = I.named('csize%d' % k, 8); p = I.named('psize%d' % k, 8)
        I.assume(z3.And(z3.UGE(I.term(c, 8), 1), z3.ULE(I.term(c, 8), 2))); I.assume(z3.And(z3.UGE(I.term(p, 8), job.get('minp', 1)), z3.ULE(I.term(p, 8), 3)))
        cc = I.concretize(c, 'csize'); pc = I.concretize(p, 'psize')
        if job.get('big'):
            if cc != 1 or (k == ns - 1 and pc != 1): raise PathEnd()          # the chunk-border job varies only the payload size of the leading streams
            if k < ns - 1: pc = CHUNK - 2 + pc          # payload that ends just before / exactly at / just after the 10240-byte output chunk of the decompressor
        I.store(cs + 4 * k, i32, cc); I.store(ps + 4 * k, i32, pc); C.append(cc); P.append(pc)
    total = sum(C); size = total
    if job['truncate']:
        tr = I.named('truncate_to', 8); I.assume(z3.ULT(I.term(tr, 8), total)); size = I.concretize(tr, 'truncate')
        if size in [sum(C[:k]) for k in range(ns + 1)]: raise PathEnd()
    if getattr(I, 'native', False):
        import bz2, gzip
        comp = bz2.compress if kind == 0 else gzip.compress
        raw = b''.join(comp(bytes([97 + k]) * P[k]) for k in range(ns))
        if job['truncate']: raw = raw[:max(1, len(raw) * size // total)]
        data = I.new_obj(len(raw), 'data', 'heap'); size = len(raw)
        for k, b in enumerate(raw): I.store(data + k, i8, b)
    else:
        data = I.new_obj(max(total, 1), 'data', 'heap')
    rle = I.new_obj(5 * 16, 'rle', 'heap'); rl = I.new_obj(4, 'rlelen', 'heap'); nr = I.new_obj(4, 'nreads', 'heap')
    rc = I.concretize(I.call('@verif_buffer_decomp', [kind, data, size, ns, cs, ps, rle, 80, rl, nr]), 'rc'); I.observe('rc', rc)
    n = I.concretize(I.load(rl, i32), 'rlelen')
    got = [(I.concretize(I.load(rle + 5 * k, i8), 'byte'), I.concretize(I.load(rle + 5 * k + 1, i32), 'count')) for k in range(n // 5)]
    I.observe('rle', tuple(got))
    if job['truncate']:
        if rc == 0: raise Finding('truncation', 'a truncated compressed buffer is read without an error')
        I.reach('end'); return
    want = [(97 + k, P[k]) for k in range(ns) if P[k]]
    if rc != 0: raise Finding('rejects-valid', 'valid multi-stream buffer rejected (rc=%d)' % rc)
    if got != want: raise Finding('incomplete', 'the data returned by read() is not the concatenation of the payloads of all streams (got %d runs, expected %d)' % (len(got), len(want)))
    I.reach('end')


def gen(ns, trunc=False):
    def g(rnd):
        out = []
        for _ in range(6):
            d = {}
            for k in range(ns): d['csize%d' % k] = rnd.randint(1, 2); d['psize%d' % k] = rnd.randint(1, 3)
            if trunc: d['truncate_to'] = 1
            out.append(d)
        return out
    return g


def h_gzip_fd(I, job):
    """GzipDecompressor (file based): gzdopen / gzoffset / gzread / gzclose_r as scripted stubs; what read() returns, what offset() reports, which failures surface"""
    import C08
    from C08 import make_script, read_log, K_GZDOPEN, K_CLOSE
    K_GZREAD, K_GZCLOSER, K_GZOFFSET = 14, 15, 16
    K = job['calls']; nreads = job['reads']; FS = job['file_size']; BUF = 1024 * 1024
    rets, errs, log, nc, R, E = make_script(I, K)
    for r_ in R: I.assume(z3.Or(r_ == z3.BitVecVal(-1, 64), z3.ULE(r_, FS), r_ == BUF))          # small results, or the full buffer
    stage = I.new_obj(4, 'stage', 'heap'); lens = I.new_obj(8 * nreads, 'lens', 'heap'); marks = I.new_obj(4 * nreads, 'marks', 'heap'); offs = I.new_obj(8 * nreads, 'offs', 'heap')
    rc = I.concretize(I.call('@verif_gzip_decompressor', [5, FS, nreads, rets, errs, K, log, 4 * K, nc, stage, lens, marks, offs]), 'rc')
    if rc == 77: raise PathEnd()
    I.observe('rc', rc)
    n = I.concretize(I.load(nc, i32), 'ncalls'); calls = read_log(I, log, min(n, K)); kinds = [c[0] for c in calls]
    k = 0; want = 0; done_reads = 0
    def nxt(kind, what):
        nonlocal k
        if k >= len(calls) or calls[k][0] != kind: raise Finding('calls', 'expected %s as call %d, log is %s' % (what, k, kinds))
        k += 1; return k - 1
    j = nxt(K_GZDOPEN, 'gzdopen')
    if I.decide(Sym(R[j] == 0, 1), 'gzdopen fails'):
        want = 2; nxt(K_CLOSE, 'close of the descriptor after a failed gzdopen')
    else:
        for rd in range(nreads):
            nxt(K_GZOFFSET, 'gzoffset before the read')
            j = nxt(K_GZREAD, 'gzread')
            ln = I.concretize(calls[j][2], 'gzread length')
            if ln != BUF: raise Finding('read-size', 'gzread asked for %d bytes' % ln)
            r = I.concretize(Sym(R[j], 64), 'gzread result')
            if r == (1 << 64) - 1: want = 2; break                       # error (also: damaged / truncated stream) -> must surface
            jo = nxt(K_GZOFFSET, 'gzoffset after the read')
            got = I.concretize(I.load(lens + 8 * rd, i64), 'returned length')
            if got != r: raise Finding('content', 'read() returns %d bytes, zlib delivered %d' % (got, r))
            if r > 0:
                mk = I.concretize(I.load(marks + 4 * rd, i32), 'marks'); tag = 0x40 + j
                if mk != (tag | (tag << 8)): raise Finding('content', 'read() does not return the bytes zlib delivered (first / last byte marks %x, expected %x)' % (mk, tag | (tag << 8)))
            I.obligation(I.term(I.load(offs + 8 * rd, i64), 64) == R[jo], 'offset', 'offset() after read %d is not the compressed position reported by zlib' % rd)
            I.obligation(z3.ULE(I.term(I.load(offs + 8 * rd, i64), 64), FS), 'offset', 'reported offset exceeds the file size')
            done_reads += 1
        if not want:
            j = nxt(K_GZCLOSER, 'gzclose_r')
            if I.decide(Sym(R[j] != 0, 1), 'gzclose_r fails'): want = 2        # Z_BUF_ERROR: the file ended inside a stream
    if k != len(calls): raise Finding('calls', 'unexpected extra library / OS calls: %s' % kinds)
    if rc != want: raise Finding('lost-error' if want else 'spurious-error', 'GzipDecompressor outcome rc=%d, the library results require %d (0 ok, 2 gzip_error)' % (rc, want))
    I.reach('end')


def harnesses(tier):
    q = tier == 'quick'
    hs = [
        Harness('bzip2_small_file', 'decomp', h_bzip2_fd, jobs=[dict(streams=n, readahead=5000, maxc=2, maxp=3, minp=1, truncate=False) for n in (1, 2, 3)] + [dict(streams=2, readahead=5000, maxc=3, maxp=2, minp=1, truncate=True)],
                desc='Bzip2Decompressor on files of 1-3 concatenated streams that are smaller than the library read-ahead (whole file buffered at once, EOF seen early): read() results concatenated = all payloads; truncated file -> error',
                bounds='<= 3 streams, payload 1..3 bytes, abstract libbz2/stdio model in the symbolic run, real libbz2 in the native replay', testgen=gen(2), wall=600),
        Harness('bzip2_read_ahead', 'decomp', h_bzip2_fd, native_ok=False,
                jobs=[dict(streams=n, readahead=r, maxc=3 if q else 4, maxp=2, minp=0, truncate=False) for n in ((2, 3) if q else (1, 2, 3)) for r in (1, 2, 3)] + [dict(streams=2, readahead=r, maxc=3, maxp=2, minp=0, truncate=True) for r in (1, 2)],
                desc='same with read-ahead blocks of 1-3 bytes against streams of 1-%d compressed bytes (stands for files much larger than the read-ahead: stream ends fall before, at and after block borders, with and without unused bytes, EOF seen late), empty payloads included' % (3 if q else 4),
                bounds='<= 3 streams, read-ahead 1..3, compressed size 1..%d, payload 0..2' % (3 if q else 4), wall=600),
    ]
    for kind, nm in ((0, 'bzip2'), (1, 'gzip')):
        hs.append(Harness('%s_buffer' % nm, 'decomp', h_buffer, jobs=[dict(kind=kind, streams=n, truncate=False) for n in (1, 2, 3)] + [dict(kind=kind, streams=2, truncate=True), dict(kind=kind, streams=2, truncate=False, big=1)], testgen=gen(1), step_cap=20_000_000,
                          tests=[dict(_job=3, csize0=2, psize0=2, csize1=2, psize1=2, truncate_to=t) for t in (1, 3)],
                          desc='%s in-memory decompressor on 1-3 concatenated streams: everything is returned; truncated input -> error' % nm, bounds='<= 3 streams, payload 1..3 bytes, or 10239..10241 bytes (stream ends around the border of the 10240-byte output chunk); abstract model of the library in the symbolic run, the real library in the native replay'))
    hs.append(Harness('gzip_file', 'io', h_gzip_fd, jobs=[dict(calls=3 * r + 2, reads=r, file_size=4) for r in ((1, 2) if q else (1, 2, 3))], native_ok=False,
                      desc='GzipDecompressor (file based) over scripted zlib stubs (gzdopen, gzoffset, gzread, gzclose_r returning any value their contracts allow): read() asks for the whole 1 MiB buffer and returns exactly what gzread stored (length and first / last byte), a negative gzread (damaged or truncated stream) and a non-zero gzclose_r (Z_BUF_ERROR: the file ends inside a stream) surface as gzip_error, offset() is the position zlib reports and never exceeds the file size, a failed gzdopen closes the descriptor',
                      bounds='<= %d reads; gzread results -1, 0..4 or the full buffer, file size 4; concatenated members and decompression itself are zlib\'s (gzread continues across members): not encoded' % (2 if q else 3)))
    # the library's own compressor side (shared with C08): what it writes must be a complete stream, also when nothing was written
    import C08
    bz = C08.bzip2_harness(tier); bz.name = 'bzip2_compressor_complete'
    hs.append(bz)
    gzh = [h for h in C08.harnesses(tier) if h.name == 'gzip_compressor'][0]; gzh.name = 'gzip_compressor_complete'
    hs.append(gzh)
    return hs
