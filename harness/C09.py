"""C09 — compressed input is decompressed completely and truncation is detected (E2, BV mode; wrapper logic against an abstract libbz2/stdio model)"""
import os, z3, tempfile
from fw import Harness
from llsym import Finding, Sym, PathEnd
from irparse import IntTy
i8, i32, i64 = IntTy(8), IntTy(32), IntTy(64)
CHUNK = 10240


def h_bzip2_fd(I, job):
    ns = job['streams']; ra = job['readahead']
    cs = I.new_obj(4 * ns, 'csize', 'heap'); ps = I.new_obj(4 * ns, 'psize', 'heap'); C = []; P = []
    for k in range(ns):
        c = I.named('csize%d' % k, 8); p = I.named('psize%d' % k, 8)
        I.assume(z3.And(z3.UGE(I.term(c, 8), 1), z3.ULE(I.term(c, 8), job['maxc'])))
        I.assume(z3.And(z3.UGE(I.term(p, 8), job.get('minp', 0)), z3.ULE(I.term(p, 8), job['maxp'])))
        cc = I.concretize(c, 'csize'); pc = I.concretize(p, 'psize')
        I.store(cs + 4 * k, i32, cc); I.store(ps + 4 * k, i32, pc); C.append(cc); P.append(pc)
    total = sum(C)
    if job['truncate']:
        tr = I.named('truncate_to', 8); I.assume(z3.ULT(I.term(tr, 8), total)); trunc = I.concretize(tr, 'truncate')
        if trunc in [sum(C[:k]) for k in range(ns + 1)]: raise PathEnd()       # cut exactly between two streams: a valid shorter file
    else: trunc = 1 << 20
    fd = 7
    native = getattr(I, 'native', False)
    if native:
        import bz2
        data = b''.join(bz2.compress(bytes([97 + k]) * P[k]) for k in range(ns))
        if job['truncate']: data = data[:max(1, len(data) * trunc // total)]
        f = tempfile.NamedTemporaryFile(delete=False); f.write(data); f.close()
        fd = os.open(f.name, os.O_RDONLY); os.unlink(f.name)
    rle = I.new_obj(5 * 16, 'rle', 'heap'); rl = I.new_obj(4, 'rlelen', 'heap'); nr = I.new_obj(4, 'nreads', 'heap'); off = I.new_obj(8, 'offset', 'heap')
    rc = I.concretize(I.call('@verif_bzip2_fd', [fd, ns, cs, ps, trunc, ra, rle, 80, rl, nr, off]), 'rc'); I.observe('rc', rc)
    n = I.concretize(I.load(rl, i32), 'rlelen')
    got = [(I.concretize(I.load(rle + 5 * k, i8), 'byte'), I.concretize(I.load(rle + 5 * k + 1, i32), 'count')) for k in range(n // 5)]
    I.observe('rle', tuple(got))
    if job['truncate']:
        if rc == 0: raise Finding('truncation', 'a truncated compressed file is read without an error')
        I.reach('end'); return
    want = [(97 + k, P[k]) for k in range(ns) if P[k]]
    if rc != 0: raise Finding('rejects-valid', 'valid multi-stream file rejected (rc=%d)' % rc)
    if got != want: raise Finding('incomplete', 'the data returned by read() is not the concatenation of the payloads of all streams (got %d runs, expected %d)' % (len(got), len(want)))
    if not native:
        o = I.concretize(I.load(off, i64), 'offset')
        if o > total: raise Finding('offset', 'reported read offset %d exceeds the file size %d' % (o, total))
    I.reach('end')


def h_buffer(I, job):
    ns = job['streams']; kind = job['kind']
    cs = I.new_obj(4 * ns, 'csize', 'heap'); ps = I.new_obj(4 * ns, 'psize', 'heap'); C = []; P = []
    for k in range(ns):
        c = I.named('csize%d' % k, 8); p = I.named('psize%d' % k, 8)
        I.assume(z3.And(z3.UGE(I.term(c, 8), 1), z3.ULE(I.term(c, 8), 2))); I.assume(z3.And(z3.UGE(I.term(p, 8), job.get('minp', 1)), z3.ULE(I.term(p, 8), 3)))
        cc = I.concretize(c, 'csize'); pc = I.concretize(p, 'psize')
        if job.get('big'):
            if cc != 1 or (k == ns - 1 and pc != 1): raise PathEnd()          # the chunk-border job varies only the payload size of the leading streams
            if k < ns - 1: pc = CHUNK - 2 + pc          # payload that ends just before / exactly at / just after the 10240-byte output chunk of the decompressor
        I.store(cs + 4 * k, i32, cc); I.store(ps + 4 * k, i32, pc); C.append(cc); P.append(pc)
    total = sum(C); size = total
    if job['truncate']:
        tr = I.named('truncate_to', 8); I.assume(z3.ULT(I.term(tr, 8), total)); size = I.concretize(tr, 'truncate')
        if size in [sum(C[:k]) for k in range(ns + 1)]: raise PathEnd()
    if getattr(I, 'native', False):
        import bz2, gzip
        comp = bz2.compress if kind == 0 else gzip.compress
        raw = b''.join(comp(bytes([97 + k]) * P[k]) for k in range(ns))
        if job['truncate']: raw = raw[:max(1, len(raw) * size // total)]
        data = I.new_obj(len(raw), 'data', 'heap'); size = len(raw)
        for k, b in enumerate(raw): I.store(data + k, i8, b)
    else:
        data = I.new_obj(max(total, 1), 'data', 'heap')
    rle = I.new_obj(5 * 16, 'rle', 'heap'); rl = I.new_obj(4, 'rlelen', 'heap'); nr = I.new_obj(4, 'nreads', 'heap')
    rc = I.concretize(I.call('@verif_buffer_decomp', [kind, data, size, ns, cs, ps, rle, 80, rl, nr]), 'rc'); I.observe('rc', rc)
    n = I.concretize(I.load(rl, i32), 'rlelen')
    got = [(I.concretize(I.load(rle + 5 * k, i8), 'byte'), I.concretize(I.load(rle + 5 * k + 1, i32), 'count')) for k in range(n // 5)]
    I.observe('rle', tuple(got))
    if job['truncate']:
        if rc == 0: raise Finding('truncation', 'a truncated compressed buffer is read without an error')
        I.reach('end'); return
    want = [(97 + k, P[k]) for k in range(ns) if P[k]]
    if rc != 0: raise Finding('rejects-valid', 'valid multi-stream buffer rejected (rc=%d)' % rc)
    if got != want: raise Finding('incomplete', 'the data returned by read() is not the concatenation of the payloads of all streams (got %d runs, expected %d)' % (len(got), len(want)))
    I.reach('end')


def gen(ns, trunc=False):
    def g(rnd):
        out = []
        for _ in range(6):
            d = {}
            for k in range(ns): d['csize%d' % k] = rnd.randint(1, 2); d['psize%d' % k] = rnd.randint(1, 3)
            if trunc: d['truncate_to'] = 1
            out.append(d)
        return out
    return g


def harnesses(tier):
    q = tier == 'quick'
    hs = [
        Harness('bzip2_small_file', 'decomp', h_bzip2_fd, jobs=[dict(streams=n, readahead=5000, maxc=2, maxp=3, minp=1, truncate=False) for n in (1, 2, 3)] + [dict(streams=2, readahead=5000, maxc=3, maxp=2, minp=1, truncate=True)],
                desc='Bzip2Decompressor on files of 1-3 concatenated streams that are smaller than the library read-ahead (whole file buffered at once, EOF seen early): read() results concatenated = all payloads; truncated file -> error',
                bounds='<= 3 streams, payload 1..3 bytes, abstract libbz2/stdio model in the symbolic run, real libbz2 in the native replay', testgen=gen(2), wall=600),
        Harness('bzip2_read_ahead', 'decomp', h_bzip2_fd, native_ok=False,
                jobs=[dict(streams=n, readahead=r, maxc=3 if q else 4, maxp=2, minp=0, truncate=False) for n in ((2, 3) if q else (1, 2, 3)) for r in (1, 2, 3)] + [dict(streams=2, readahead=r, maxc=3, maxp=2, minp=0, truncate=True) for r in (1, 2)],
                desc='same with read-ahead blocks of 1-3 bytes against streams of 1-%d compressed bytes (stands for files much larger than the read-ahead: stream ends fall before, at and after block borders, with and without unused bytes, EOF seen late), empty payloads included' % (3 if q else 4),
                bounds='<= 3 streams, read-ahead 1..3, compressed size 1..%d, payload 0..2' % (3 if q else 4), wall=600),
    ]
    for kind, nm in ((0, 'bzip2'), (1, 'gzip')):
        hs.append(Harness('%s_buffer' % nm, 'decomp', h_buffer, jobs=[dict(kind=kind, streams=n, truncate=False) for n in (1, 2, 3)] + [dict(kind=kind, streams=2, truncate=True), dict(kind=kind, streams=2, truncate=False, big=1)], testgen=gen(1), step_cap=20_000_000,
                          desc='%s in-memory decompressor on 1-3 concatenated streams: everything is returned; truncated input -> error' % nm, bounds='<= 3 streams, payload 1..3 bytes, or 10239..10241 bytes (stream ends around the border of the 10240-byte output chunk); abstract model of the library in the symbolic run, the real library in the native replay'))
    # the library's own compressor side (shared with C08): what it writes must be a complete stream, also when nothing was written
    import C08
    bz = C08.bzip2_harness(tier); bz.name = 'bzip2_compressor_complete'
    hs.append(bz)
    return hs
