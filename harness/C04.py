"""C04 — buffers and builders keep objects intact across growth, commit, rollback, purge (E2, BV mode, memory-checked)"""
import z3
from fw import Harness
from llsym import Finding, Sym
from irparse import IntTy
i8, i32, i64 = IntTy(8), IntTy(32), IntTy(64)
MARK = 0xb0f


# ---------------------------------------------------------------- expected dump (mirror of wrappers/dump.hpp)
def w64(v): return ('w', v)
def raw(bs): return ('b', list(bs))
def estr(bs): return [w64(len(bs)), raw(bs)]
def etags(tags):
    out = [w64(len(tags))]
    for k, v in tags: out += estr(k) + estr(v)
    return out
def eobject(ty, id_, version, visible, ts, cs, uid, user): return [w64(ty), w64(id_), w64(version), w64(visible), w64(ts), w64(cs), w64(uid)] + estr(user)
def enode(id_, user, tags): return eobject(1, id_, 3, 1, 77, 9, 11, user) + [w64(123), w64((-456) & 0xffffffff)] + etags(tags)


def flatten(I, items):
    """-> list of byte values (ints or 8-bit terms)"""
    out = []
    for kind, v in items:
        if kind == 'b': out += list(v)
        elif isinstance(v, int): out += list((v & (2**64 - 1)).to_bytes(8, 'little'))
        else:
            t = I.term(v, 64)
            out += [z3.Extract(8 * k + 7, 8 * k, t) for k in range(8)]
    return out


def check_dump(I, out, n, expected_items, what):
    """dump = buffers [MARK, committed, items...]; the items over all buffers, in order, must equal expected_items"""
    pos = 0; nbuf = 0
    def word_at(p): return I.load(out + p, i64)
    def skip_marks(pos):
        k = 0
        while pos + 16 <= n:
            wv = word_at(pos)
            if isinstance(wv, Sym) or wv != MARK: break
            pos += 16; k += 1
        return pos, k
    for idx, item in enumerate(expected_items):
        pos, k = skip_marks(pos); nbuf += k
        exp = flatten(I, item)
        if pos + len(exp) > n: raise Finding('content', '%s: delivered data ends inside item %d (have %d bytes, need %d more)' % (what, idx, n - pos, len(exp)))
        for j, e in enumerate(exp):
            I.obligation(I.term(I.load(out + pos + j, i8), 8) == (e if z3.is_expr(e) else z3.BitVecVal(e, 8)), 'content', '%s: item %d differs from what was passed to the builder' % (what, idx))
        pos += len(exp)
    pos, k = skip_marks(pos); nbuf += k
    if pos != n: raise Finding('content', '%s: %d extra bytes after the last expected item' % (what, n - pos))
    return nbuf


def sym_cap(I, lo=64, hi=256):
    """symbolic initial capacity: every multiple of 8 in [lo, min(hi, CAPMAX)], plus hi itself when hi is the 'certainly large enough' value 512"""
    cap = I.named('cap', 32); t = I.term(cap, 32)
    rng = z3.And(z3.UGE(t, lo), z3.ULE(t, min(hi, CAPMAX)), z3.URem(t, 8) == 0)
    I.assume(z3.Or(rng, t == hi) if hi == 512 else rng)
    return cap


def sym_len(I, name, hi):
    l = I.named(name, 32); I.assume(z3.ULE(I.term(l, 32), hi))
    return I.concretize(l, name)


def cstr(I, bs, name):
    buf = I.new_obj(len(bs) + 1, name, 'heap')
    for k, b in enumerate(bs): I.store(buf + k, i8, b)
    I.store(buf + len(bs), i8, 0)
    return buf


def sym_ids(I, n, name='id'):
    mem = I.new_obj(8 * n, name + 's', 'heap'); ids = []
    for k in range(n):
        v = I.named('%s%d' % (name, k), 64); ids.append(v); I.store(mem + 8 * k, i64, v)
    return mem, ids


def user_bytes(n): return [97 + (k % 26) for k in range(n)]


def finish(I, rc, mode, out, ol, what, expected, big_enough):
    I.observe('rc', rc)
    if rc == 0xffffffff:           # buffer_is_full
        if mode != 0: raise Finding('buffer-full', '%s: buffer_is_full from an auto-growing buffer' % what)
        if big_enough: raise Finding('buffer-full', '%s: buffer_is_full although the capacity suffices' % what)
        I.reach('full'); return None
    if rc != 0: raise Finding('harness', '%s: rc=%d' % (what, rc))
    n = I.concretize(I.load(ol, i32), 'dumplen'); I.observe('dumplen', n)
    nbuf = check_dump(I, out, n, expected, what)
    if mode != 2 and nbuf != 1: raise Finding('nested', '%s: nested buffers without auto_grow::internal' % what)
    I.reach('end')
    return nbuf


OUTCAP = 1536
CAPMAX = 160
MAXU = 20


def h_nodes(I, job):
    mode = job['mode']; count = job['count']; ntags = job['ntags']
    cap = sym_cap(I, 64, 512 if mode == 0 else 200)
    ul = sym_len(I, 'ulen', MAXU); ub = user_bytes(ul)
    user = cstr(I, ub, 'user'); k = cstr(I, b'key', 'k'); v = cstr(I, b'value', 'v')
    idm, ids = sym_ids(I, count)
    out = I.new_obj(OUTCAP, 'out', 'heap'); ol = I.new_obj(4, 'ol', 'heap')
    rc = I.concretize(I.call('@verif_nodes', [cap, mode, count, idm, user, ul, ntags, k, v, out, OUTCAP, ol]), 'rc')
    exp = [enode(ids[j], ub, [(b'key', b'value')] * ntags) for j in range(count)]
    big = I.concretize(cap, 'cap') >= 512
    finish(I, rc, mode, out, ol, 'nodes', exp, big)


def h_way(I, job):
    mode = job['mode']; nrefs = job['nrefs']; ntags = job['ntags']
    cap = sym_cap(I, 64, 512 if mode == 0 else 200)
    ul = sym_len(I, 'ulen', MAXU); ub = user_bytes(ul)
    user = cstr(I, ub, 'user'); k = cstr(I, b'k', 'k'); v = cstr(I, b'vv', 'v')
    wid = I.named('wid', 64); rm, refs = sym_ids(I, nrefs, 'ref')
    out = I.new_obj(OUTCAP, 'out', 'heap'); ol = I.new_obj(4, 'ol', 'heap')
    rc = I.concretize(I.call('@verif_way', [cap, mode, wid, user, ul, nrefs, rm, ntags, k, v, out, OUTCAP, ol]), 'rc')
    e = eobject(2, wid, 1, 1, 0, 0, 0, ub) + [w64(nrefs)]
    for r in refs: e += [w64(r), w64(0x7fffffff), w64(0x7fffffff)]
    e += etags([(b'k', b'vv')] * ntags)
    finish(I, rc, mode, out, ol, 'way', [e], I.concretize(cap, 'cap') >= 512)


def h_relation(I, job):
    mode = job['mode']; nmem = job['nmem']; full = job['full']; ntags = job['ntags']
    cap = sym_cap(I, 64, 512 if mode == 0 else 200)
    ul = sym_len(I, 'ulen', 12); ub = user_bytes(ul)
    rl = sym_len(I, 'rlen', 9); rb = user_bytes(rl)
    user = cstr(I, ub, 'user'); role = cstr(I, rb, 'role'); k = cstr(I, b'type', 'k'); v = cstr(I, b'mp', 'v')
    rid = I.named('rid', 64); rm, refs = sym_ids(I, nmem, 'ref')
    out = I.new_obj(OUTCAP, 'out', 'heap'); ol = I.new_obj(4, 'ol', 'heap')
    rc = I.concretize(I.call('@verif_relation', [cap, mode, rid, user, ul, nmem, rm, role, rl, full, ntags, k, v, out, OUTCAP, ol]), 'rc')
    e = eobject(3, rid, 2, 1, 0, 0, 0, ub) + [w64(nmem)]
    for j, r in enumerate(refs): e += [w64(j % 3 + 1), w64(r)] + estr(rb)
    e += etags([(b'type', b'mp')] * ntags)
    finish(I, rc, mode, out, ol, 'relation', [e], I.concretize(cap, 'cap') >= 512)


def h_changeset(I, job):
    mode = job['mode']; nc = job['ncomments']; ntags = job['ntags']
    cap = sym_cap(I, 64, 512 if mode == 0 else 200)
    ul = sym_len(I, 'ulen', 12); ub = user_bytes(ul)
    cl = sym_len(I, 'culen', MAXU); cub = user_bytes(cl)
    user = cstr(I, ub, 'user'); cuser = cstr(I, cub, 'cuser'); text = cstr(I, b'some text', 'text'); k = cstr(I, b'c', 'k'); v = cstr(I, b'd', 'v')
    cid = I.named('cid', 32)
    out = I.new_obj(OUTCAP, 'out', 'heap'); ol = I.new_obj(4, 'ol', 'heap')
    rc = I.concretize(I.call('@verif_changeset', [cap, mode, cid, user, ul, nc, cuser, text, ntags, k, v, out, OUTCAP, ol]), 'rc')
    e = [w64(5), w64(I.zext(cid, 32, 64)), w64(100), w64(200), w64(5)] + estr(ub) + [w64(8), w64(nc), w64(0x7fffffff), w64(0x7fffffff)] + etags([(b'c', b'd')] * ntags) + [w64(nc)]
    for j in range(nc): e += [w64(50 + j), w64(30 + j)] + estr(cub) + estr(b'some text')
    finish(I, rc, mode, out, ol, 'changeset', [e], I.concretize(cap, 'cap') >= 512)


def h_rollback(I, job):
    mode = job['mode']
    cap = sym_cap(I, 64, 512 if mode == 0 else 200)
    ul = sym_len(I, 'ulen', MAXU); ub = user_bytes(ul); user = cstr(I, ub, 'user')
    idm, ids = sym_ids(I, 3)
    out = I.new_obj(OUTCAP, 'out', 'heap'); ol = I.new_obj(4, 'ol', 'heap')
    rc = I.concretize(I.call('@verif_rollback', [cap, mode, idm, user, ul, out, OUTCAP, ol]), 'rc')
    exp = [enode(ids[0], ub, [(b'k', b'v')]), enode(ids[2], ub, [])]
    finish(I, rc, mode, out, ol, 'rollback', exp, I.concretize(cap, 'cap') >= 512)


def h_purge(I, job):
    count = job['count']
    cap = sym_cap(I, 64, 128)
    ul = sym_len(I, 'ulen', 10); user = cstr(I, user_bytes(ul + count), 'user')
    idm, ids = sym_ids(I, count)
    mask = I.concretize(I.named('removed', count), 'removed mask')
    offs = I.new_obj(8 * (count + 1), 'offsets', 'heap'); mlog = I.new_obj(8 * 2 * count, 'movelog', 'heap'); nm = I.new_obj(4, 'nm', 'heap')
    out = I.new_obj(OUTCAP, 'out', 'heap'); ol = I.new_obj(4, 'ol', 'heap')
    rc = I.concretize(I.call('@verif_purge', [cap, count, idm, user, ul, mask, job['cb'], offs, mlog, 2 * count, nm, out, OUTCAP, ol]), 'rc')
    kept = [j for j in range(count) if not (mask >> j) & 1]
    exp = [enode(ids[j], user_bytes(ul + j), [(b'k', b'v')] * (j & 1)) for j in kept]
    finish(I, rc, 1, out, ol, 'purge', exp, True)
    O = [I.concretize(I.load(offs + 8 * j, i64), 'offset') for j in range(count + 1)]
    if job['cb']:
        moves = []; new = 0
        for j in kept:
            if O[j] != new: moves.append((O[j], new))
            new += O[j + 1] - O[j]
        n = I.concretize(I.load(nm, i32), 'nmoves')
        got = [(I.concretize(I.load(mlog + 16 * j, i64), 'old'), I.concretize(I.load(mlog + 16 * j + 8, i64), 'new')) for j in range(min(n // 2, count))]
        if n != 2 * len(moves) or got != moves: raise Finding('purge-callback', 'moving_in_buffer reported %s, expected %s' % (got, moves))


def h_copy(I, job):
    mode = job['mode']; op = job['op']
    cap = sym_cap(I, 64, 512 if mode == 0 else 200)
    ul = sym_len(I, 'ulen', 10); ub = user_bytes(ul); user = cstr(I, ub, 'user')
    idm, ids = sym_ids(I, 3)
    out = I.new_obj(OUTCAP, 'out', 'heap'); ol = I.new_obj(4, 'ol', 'heap')
    rc = I.concretize(I.call('@verif_copy', [cap, mode, op, idm, user, ul, out, OUTCAP, ol]), 'rc')
    s0, s1, d0 = enode(ids[0], ub, [(b'k', b'v')]), enode(ids[1], ub, []), enode(ids[2], ub, [])
    exp = {0: [d0, s0, s1], 1: [d0, s0, s1], 2: [d0, s0, s1], 3: [s0, s1], 4: [s0, s1], 5: [s0, s1], 6: [d0, s0, s1], 7: [d0, s0, s1, s0, s1], 8: [d0, s0, s1]}[op]
    finish(I, rc, mode, out, ol, 'copy op %d' % op, exp, I.concretize(cap, 'cap') >= 512)


def gen(names64=(), lens=(), caps=(64, 72, 96, 128, 200), extra=None):
    def g(rnd):
        out = []
        for _ in range(10):
            d = {'cap': rnd.choice(caps)}
            for n in names64: d[n] = rnd.choice([0, 1, (1 << 64) - 1, rnd.getrandbits(64)])
            for n, hi in lens: d[n] = rnd.randint(0, hi)
            if extra: d.update(extra(rnd))
            out.append(d)
        return out
    return g


def h_callback_buffer(I, job):
    """CallbackBuffer under every sequence of add / possibly_flush / flush / read: every object leaves exactly once, in order, through the callback, read() or what remains"""
    nops = job['ops']; init = job['initial']; mx = job['max']; wc = job['callback']
    om = I.new_obj(nops, 'ops', 'heap'); ops = []
    for k in range(nops):
        o = I.named('op%d' % k, 8); I.assume(z3.ULE(I.term(o, 8), 3)); o = I.concretize(o, 'op'); I.store(om + k, i8, o); ops.append(o)
    log = I.new_obj(8 * 64, 'log', 'heap')
    n = I.concretize(I.call('@verif_callback_buffer', [om, nops, init, mx, wc, log, 64]), 'n')
    words = [I.concretize(I.load(log + 8 * k, i64), 'w') for k in range(min(n, 64))]
    # reference: NODE bytes per node; possibly_flush hands over iff a callback is set and more than `max` bytes are committed; flush iff callback and non-empty
    NODE = 48; pending = []; want = []; nid = 0
    for o in ops:
        if o == 0: nid += 1; pending.append(nid)
        elif o == 1:
            if wc and len(pending) * NODE > mx: want.append((1, pending)); pending = []
        elif o == 2:
            if wc and pending: want.append((1, pending)); pending = []
        else: want.append((2, pending)); pending = []
    want.append((3, pending))
    flat = []
    for tag, ids in want: flat += [tag, len(ids)] + ids
    if words != flat: raise Finding('callback-buffer', 'hand-overs %s differ from the reference %s (tag 1 callback / 2 read / 3 left, count, ids) for operations %s' % (words, flat, ops))
    I.reach('end')


def harnesses(tier):
    global CAPMAX
    q = tier == 'quick'
    CAPMAX = 160 if q else 256
    modes = (0, 1, 2)
    MN = {0: 'no', 1: 'yes', 2: 'internal'}
    hs = []
    hs.append(Harness('nodes', 'builders', h_nodes, jobs=[dict(mode=m, count=c, ntags=t) for m in modes for (c, t) in ((1, 2), (3, 1))], reach=('end',),
                      desc='1 and 3 nodes with user and tags built in a buffer of symbolic capacity: dump through the iterators == what was passed in, for auto_grow no/yes/internal (nested buffers oldest first)',
                      bounds='capacity 64..160 (quick) / 256 (thorough) step 8 (plus 512 for auto_grow::no), user length 0..%d, ids symbolic 64-bit' % MAXU, testgen=gen(['id0', 'id1', 'id2'], [('ulen', MAXU)]), sanitize=True))
    hs.append(Harness('way', 'builders', h_way, jobs=[dict(mode=m, nrefs=n, ntags=t) for m in modes for (n, t) in ((3, 1), (0, 0))],
                      desc='way with node list and tags', bounds='capacity 64..200/512, user length 0..%d, 3 refs' % MAXU, testgen=gen(['wid', 'ref0', 'ref1', 'ref2'], [('ulen', MAXU)]), sanitize=True))
    hs.append(Harness('relation', 'builders', h_relation, jobs=[dict(mode=m, nmem=3, full=f, ntags=1) for m in modes for f in (9, 1)],
                      desc='relation with three members (roles of symbolic length; with and without a full member object) and a tag', bounds='capacity 64..200/512, user 0..12, role 0..9',
                      testgen=gen(['rid', 'ref0', 'ref1', 'ref2'], [('ulen', 12), ('rlen', 9)]), sanitize=True))
    hs.append(Harness('changeset_discussion', 'builders', h_changeset, jobs=[dict(mode=m, ncomments=c, ntags=1) for m in modes for c in ((2,) if q else (1, 2, 3))],
                      desc='changeset with user, tag and a discussion of comments (user of symbolic length, text): growth can happen inside add_comment / add_comment_text',
                      bounds='capacity 64..200/512, user 0..12, comment user 0..%d' % MAXU, testgen=gen([], [('ulen', 12), ('culen', MAXU)], extra=lambda rnd: {'cid': rnd.getrandbits(32)}), sanitize=True))
    hs.append(Harness('rollback', 'builders', h_rollback, jobs=[dict(mode=m) for m in modes], desc='commit, build + rollback, commit: only the committed objects remain, unchanged',
                      bounds='capacity 64..200/512, user 0..%d' % MAXU, testgen=gen(['id0', 'id1', 'id2'], [('ulen', MAXU)]), sanitize=True))
    hs.append(Harness('purge', 'builders', h_purge, jobs=[dict(count=3, cb=c) for c in (0, 1)] + ([] if q else [dict(count=4, cb=1)]),
                      desc='three nodes of different sizes, every subset marked removed, purge_removed with and without callback: the kept items in order, (old,new) offsets reported for exactly the moved items',
                      bounds='3 items (4 in thorough), all removal subsets, capacity 64..128, user 0..10', testgen=gen(['id0', 'id1', 'id2'], [('ulen', 10)], caps=(64, 128), extra=lambda rnd: {'removed': rnd.getrandbits(3)}), sanitize=True))
    hs.append(Harness('copy_swap_move', 'builders', h_copy, jobs=[dict(mode=m, op=o) for m in modes for o in range(9)],
                      desc='add_buffer, push_back, add_item, swap, move construction/assignment, clear + add_buffer between two buffers; also from a source that holds a built but uncommitted object (only committed contents are copied or visited; a later rollback of the source changes nothing in the copy)', bounds='capacity 64..200/512, user 0..10',
                      testgen=gen(['id0', 'id1', 'id2'], [('ulen', 10)]), sanitize=True))
    hs.append(Harness('callback_buffer', 'builders', h_callback_buffer, jobs=[dict(ops=k, initial=i, max=m, callback=c) for k in ((4, 5) if q else (4, 5, 6)) for (i, m, c) in ((64, 50, 1), (256, 100, 1), (64, 50, 0))], sanitize=True,
                      desc='CallbackBuffer under every sequence of add-a-node-and-commit / possibly_flush() / flush() / read(): every node is handed over exactly once and in order -- through the callback (flush() when something is committed; possibly_flush() only above the size limit), through read(), or it is still in the buffer at the end; no empty buffer goes to the callback; without a callback nothing is flushed; the buffer grows past its initial size without losing nodes',
                      bounds='<= %d operations over 4 kinds; initial sizes 64 / 256 bytes, limits 50 / 100 bytes (48-byte nodes)' % (5 if q else 6)))
    return hs
