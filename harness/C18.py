"""C18 — tile numbers are in range, monotone and nested (E1: IR -> C -> cbmc, floating point bit-precise)"""
import ctypes
from e1 import CbmcHarness
MAXC = 20037508.34


def lib(so):
    L = ctypes.CDLL(so)
    L.verif_tilex.restype = ctypes.c_uint; L.verif_tilex.argtypes = [ctypes.c_uint, ctypes.c_double]
    L.verif_tiley.restype = ctypes.c_uint; L.verif_tiley.argtypes = [ctypes.c_uint, ctypes.c_double]
    L.verif_lon_to_x.restype = ctypes.c_double; L.verif_lon_to_x.argtypes = [ctypes.c_int]
    return L


def r_range(which):
    def f(so, v):
        L = lib(so); z = v.get('in_z', 0); x = v.get('in_x', 0.0)
        ts = [L.verif_tilex(z, x), L.verif_tiley(z, x)] if which == 'any' else [(L.verif_tilex if which == 'x' else L.verif_tiley)(z, x)]
        return any(t >= (1 << z) for t in ts), 'zoom %d coordinate %r -> tile %s' % (z, x, ts)
    return f


def r_clamp_y(so, v):
    L = lib(so); z = v.get('in_z', 0); x = v.get('in_x', 0.0)
    t = L.verif_tiley(z, x); last = (1 << z) - 1
    bad = t > last or (x <= -MAXC and t != last) or (x >= MAXC and t != 0)
    return bad, 'zoom %d mercator y %r -> tile row %d (last row %d)' % (z, x, t, last)


def r_nest(which, zoom):
    def f(so, v):
        L = lib(so); x = v.get('in_x', 0.0); fn = L.verif_tilex if which == 'x' else L.verif_tiley
        a, b = fn(zoom + 1, x), fn(zoom, x)
        return (a >> 1) != b, 'coordinate %r: zoom %d tile %d, zoom %d tile %d' % (x, zoom + 1, a, zoom, b)
    return f


def r_mono(which, zoom):
    def f(so, v):
        L = lib(so); x1 = v.get('in_x', 0.0); x2 = v.get('in_x2', 0.0); fn = L.verif_tilex if which == 'x' else L.verif_tiley
        a, b = fn(zoom, x1), fn(zoom, x2)
        return (a > b) if which == 'x' else (a < b), 'zoom %d: %r -> %d, %r -> %d' % (zoom, x1, a, x2, b)
    return f


def r_boundary(so, v):
    L = lib(so); z = v.get('in_z', 0)
    bad = L.verif_tilex(z, -MAXC) != 0 or L.verif_tilex(z, MAXC) != (1 << z) - 1 or L.verif_tiley(z, MAXC) != 0 or L.verif_tiley(z, -MAXC) != (1 << z) - 1 \
        or (z >= 1 and (L.verif_tilex(z, 0.0) != 1 << (z - 1) or L.verif_tiley(z, 0.0) != 1 << (z - 1)))
    return bad, 'zoom %d' % z


def r_lon(so, v):
    L = lib(so); a = v.get('in_a', 0)
    return not (L.verif_lon_to_x(a) < L.verif_lon_to_x(a + 1)), 'lon %d' % a


def harnesses(tier):
    return []


def cbmc_harnesses(tier):
    q = tier == 'quick'
    hs = [
        CbmcHarness('range_x', 'tile', 'c18_tile.c', 'h_range_x', replay=r_range('x'), desc='for every zoom 0..30 and every double x in the projected square: mercx_to_tilex < 2^zoom', bounds='none (all doubles in [-20037508.34, 20037508.34], zoom symbolic)'),
        CbmcHarness('range_y', 'tile', 'c18_tile.c', 'h_range_y', replay=r_range('y'), desc='same for mercy_to_tiley', bounds='none'),
        CbmcHarness('clamp_south', 'tile', 'c18_tile.c', 'h_clamp_south', replay=r_clamp_y, desc='for every zoom 0..30 and every mercator y south of the projected square that a valid location projects to -- [-1.4e8, -20037508.34] and -infinity for the south pole itself: mercy_to_tiley is the last row (tile numbers never decrease when moving south, the pole included)', bounds='none (zoom symbolic; y in [-1.4e8, -MAXC] or -inf)'),
        CbmcHarness('clamp_north', 'tile', 'c18_tile.c', 'h_clamp_north', replay=r_clamp_y, desc='same north of the square, up to the projection of the north pole (2.38e8): row 0', bounds='none (zoom symbolic; y in [MAXC, 2.4e8])'),
        CbmcHarness('boundaries', 'tile', 'c18_tile.c', 'h_boundary', replay=r_boundary, desc='exact values at -180 / +180 degrees, the poles of the projection and at 0, for every zoom; Tile constructor agrees', bounds='none (zoom symbolic)'),
    ]
    nz = (0, 1, 7, 16, 22, 29) if q else range(0, 30)
    for z in nz:
        for w in 'xy':
            hs.append(CbmcHarness('nest_%s_z%d' % (w, z), 'tile', 'c18_tile.c', 'h_nest_' + w, defines=['ZOOM=%d' % z], backend=['--cvc5'], timeout=240, replay=r_nest(w, z),
                                  desc='tile(zoom %d) >> 1 == tile(zoom %d) for every double in the square (%s)' % (z + 1, z, w), bounds='zoom %d' % z))
    mz = (0, 1, 2) if q else (0, 1, 2, 3, 4)
    for z in mz:
        for w in 'xy':
            hs.append(CbmcHarness('mono_%s_z%d' % (w, z), 'tile', 'c18_tile.c', 'h_mono_' + w, defines=['ZOOM=%d' % z], backend=['--cvc5'], timeout=300, replay=r_mono(w, z),
                                  desc='tile number is monotone in the coordinate at zoom %d (%s)' % (z, w), bounds='zoom %d (higher zooms do not finish: 280 s at zoom 17 without verdict)' % z))
    return hs
