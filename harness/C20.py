"""C20 — handler dispatch and diff iteration visit each object once with the right context (E2, BV mode)"""
import z3
from fw import Harness
from llsym import Finding, Sym
from irparse import IntTy
i8, i16, i32, i64 = IntTy(8), IntTy(16), IntTy(32), IntTy(64)
T = dict(undefined=0, node=1, way=2, relation=3, area=4, changeset=5, tag_list=0x11, way_node_list=0x12, relation_member_list=0x13,
         relation_member_list_with_full_members=0x23, outer_ring=0x40, inner_ring=0x41, changeset_discussion=0x80)
CODES = sorted(T.values())
OBJ, NODE, WAY, REL, AREA, CS, TAGS, WNL, RML, OUTER, INNER, DISC, FLUSH = range(1, 14)
ENTITY = {1: NODE, 2: WAY, 3: REL, 4: AREA, 5: CS}
OTHER = {0x11: TAGS, 0x12: WNL, 0x13: RML, 0x23: RML, 0x40: OUTER, 0x41: INNER, 0x80: DISC}


def full(h, t, i, all_types):
    """callbacks of a complete handler h for item i of type t"""
    if t in (1, 2, 3, 4): return [(h, OBJ, i), (h, ENTITY[t], i)]
    if t == 5: return [(h, CS, i)]
    if all_types and t in OTHER: return [(h, OTHER[t], i)]
    return []


def expected(variant, types):
    log = []
    ent = lambda t: t in (1, 2, 3, 4, 5)
    for i, t in enumerate(types):
        if variant == 0:
            if ent(t): log += full(1, t, i, False)
        elif variant in (1, 9):
            if ent(t): log += full(1, t, i, False) + full(2, t, i, False)
        elif variant == 2: log += full(1, t, i, True)
        elif variant == 3: log += full(1, t, i, True) + full(2, t, i, True) + full(3, t, i, True)
        elif variant == 4:
            if t == 1: log += [(1, NODE, i)]
            if t == 2: log += [(2, WAY, i)]
            if t in (1, 2, 3, 4): log += [(3, OBJ, i)]
        elif variant == 5:
            if ent(t): log += [(1, ENTITY[t], i)] + full(2, t, i, False)
        elif variant == 6:
            if t in (1, 2, 3, 4): log += full(1, t, i, False)
        elif variant == 7:
            if ent(t): log += [(1, ENTITY[t], i), (2, ENTITY[t], i)] + full(3, t, i, False)
        elif variant == 8:
            if t == 3: log += [(1, REL, i)]
            if t == 5: log += [(2, CS, i)]
        elif variant in (10, 11):
            nc = 0x20 if variant == 10 else 0
            if t in (1, 2, 3, 4): log += [(1, OBJ, i), (1, ENTITY[t] + nc, i)]
            if t == 5: log += [(1, CS + nc, i)]
        elif variant == 12:
            if t == 5: log += [(1, CS + 0x20, i)]
            if t == 1: log += [(2, NODE + 0x20, i)]
    fl = {0: [1], 1: [1, 2], 2: [1], 3: [1, 2, 3], 4: [], 5: [1, 2], 6: [1], 7: [1, 2, 3], 8: [], 9: [], 10: [1], 11: [1], 12: []}[variant]
    log += [(h, FLUSH, 0xff) for h in fl]
    return [(h << 16) | (cb << 8) | i for (h, cb, i) in log]


def h_dispatch(I, job):
    v = job['variant']; n = job['n']
    tm = I.new_obj(2 * n, 'types', 'heap'); rm = I.new_obj(n, 'removed', 'heap')
    types = []
    for k in range(n):
        t = I.named('type%d' % k, 16); I.assume(z3.Or([I.term(t, 16) == c for c in CODES]))
        r = I.named('removed%d' % k, 8)
        I.store(tm + 2 * k, i16, t); I.store(rm + k, i8, r); types.append(t)
    log = I.new_obj(4 * 40, 'log', 'heap')
    cnt = I.concretize(I.call('@verif_apply', [v, tm, rm, n, log, 40]), 'count'); I.observe('count', cnt)
    tc = [I.concretize(t, 'type') for t in types]          # the dispatch itself has already forked on the types it distinguishes; the rest is enumerated here
    exp = expected(v, tc)
    got = [I.concretize(I.load(log + 4 * k, i32), 'entry') for k in range(min(cnt, 40))]
    I.observe('log', tuple(got))
    if got != exp or cnt != len(exp):
        raise Finding('dispatch', 'variant %d: callbacks %s differ from the reference dispatch %s' % (v, [hex(x) for x in got], [hex(x) for x in exp]))
    I.reach('end')


def h_diff(I, job):
    """sorted version histories: every position visited once; prev/next are the neighbours iff same (type, id); first/last at run borders"""
    n = job['n']
    tm = I.new_obj(2 * n, 'types', 'heap'); im = I.new_obj(8 * n, 'ids', 'heap'); vm = I.new_obj(4 * n, 'versions', 'heap')
    ts, ids = [], []
    for k in range(n):
        t = I.named('type%d' % k, 16); I.assume(z3.And(z3.UGE(I.term(t, 16), 1), z3.ULE(I.term(t, 16), 3)))
        d = I.named('id%d' % k, 64)
        I.store(tm + 2 * k, i16, t); I.store(im + 8 * k, i64, d); I.store(vm + 4 * k, i32, k + 1)
        ts.append(I.term(t, 16)); ids.append(I.term(d, 64))
    log = I.new_obj(4 * (n + 2), 'log', 'heap')
    if job.get('cuts'):
        # the same objects handed out by an input-iterator source in several buffers
        cm = I.new_obj(4 * len(job['cuts']), 'cuts', 'heap')
        for k, c in enumerate(job['cuts']): I.store(cm + 4 * k, i32, c)
        cnt = I.concretize(I.call('@verif_diff_input', [tm, im, n, cm, len(job['cuts']), log, n + 2]), 'count'); I.observe('count', cnt)
    else:
        cnt = I.concretize(I.call('@verif_diff', [tm, im, vm, n, log, n + 2]), 'count'); I.observe('count', cnt)
    if cnt != n: raise Finding('diff', 'diff iterator visits %d positions for %d objects' % (cnt, n))
    same = lambda a, b: z3.And(ts[a] == ts[b], ids[a] == ids[b])
    for k in range(n):
        e = I.term(I.load(log + 4 * k, i32), 32)
        sp = same(k - 1, k) if k > 0 else z3.BoolVal(False)
        sn = same(k, k + 1) if k + 1 < n else z3.BoolVal(False)
        want = (z3.If(sp, z3.BitVecVal(max(k - 1, 0), 32), z3.BitVecVal(k, 32)) << 24) | (z3.BitVecVal(k, 32) << 16) | (z3.If(sn, z3.BitVecVal(min(k + 1, n - 1), 32), z3.BitVecVal(k, 32)) << 8) \
            | z3.If(sp, z3.BitVecVal(0, 32), z3.BitVecVal(2, 32)) | z3.If(sn, z3.BitVecVal(0, 32), z3.BitVecVal(1, 32))
        I.obligation(e == want, 'diff', 'position %d: prev/curr/next or the first/last flags differ from the reference' % k)
    I.reach('end')


def harnesses(tier):
    q = tier == 'quick'
    names = {0: 'apply(const Buffer&, handler)', 1: 'apply(Buffer&, h1, h2)', 2: 'apply over const Item range (all item types)', 3: 'apply over non-const Item range, three handlers',
             4: 'lambdas with const Node& / const Way& / const OSMObject&', 5: 'DynamicHandler + static handler', 6: 'apply over ItemIterator<const OSMObject>',
             7: 'ChainHandler + static handler on a non-const buffer', 10: 'handler with const and non-const overloads on a non-const buffer (non-const callbacks expected)',
             11: 'handler with const and non-const overloads on a const buffer (const callbacks expected)', 12: 'lambdas with Changeset& / Node& on a non-const buffer', 8: 'lambdas with Relation& / const Changeset& on a non-const buffer', 9: 'apply_item per item with two handlers'}
    def tg(n):
        return lambda rnd: [dict(**{'type%d' % k: rnd.choice(CODES) for k in range(n)}, **{'removed%d' % k: rnd.getrandbits(1) for k in range(n)}) for _ in range(6)]
    hs = []
    for v, nm in names.items():
        n = 3 if (v in (0, 2) and not q) else 2
        hs.append(Harness('dispatch_%d' % v, 'dispatch_chain' if v == 7 else 'dispatch', h_dispatch, jobs=[dict(variant=v, n=n)], testgen=tg(n),
                          desc='%s: %d items whose type ranges over all 13 item types (entity and non-entity) and whose removed flag is symbolic: the sequence (handler, callback, item) equals the reference dispatch; flush once per handler at the end' % (nm, n),
                          bounds='%d items' % n))
    nd = 4 if q else 5
    hs.append(Harness('diff_iterator', 'dispatch', h_diff, sanitize=True, jobs=[dict(n=k) for k in range(1, nd + 1)] + [dict(n=sum(c), cuts=c) for c in ([[1, 1], [2, 1], [1, 2], [1, 1, 1], [2, 0, 2]] if q else [[1, 1], [2, 1], [1, 2], [1, 1, 1], [2, 0, 2], [2, 2], [1, 1, 1, 1], [3, 1], [1, 3], [2, 1, 2]])],
                      desc='DiffIterator over 1..%d objects with symbolic type and 64-bit id: each position once, prev/next = neighbour iff same (type, id) else curr, first/last exactly at run borders; the same over an io::InputIterator whose source hands the objects out in 2-4 buffers (a buffer is freed when the last iterator copy leaves it: prev/curr/next must stay readable)' % nd,
                      bounds='<= %d objects in one buffer; <= %d objects split over <= %d buffers (empty buffer included)' % (nd, 4 if q else 5, 3 if q else 4), testgen=lambda rnd: [dict(_job=nd - 1, **{'type%d' % k: rnd.randint(1, 3) for k in range(nd)}, **{'id%d' % k: rnd.randint(1, 2) for k in range(nd)}) for _ in range(8)]))
    return hs
