/* C18 harnesses for cbmc; the functions under test come from the C translation of wrappers/tile.cpp (IR -> C by engine/ir2c.py) */
#include <stdint.h>
unsigned verif_tilex(unsigned zoom, double x); unsigned verif_tiley(unsigned zoom, double y); double verif_lon_to_x(int);
void verif_tile_of_coordinates(unsigned zoom, double x, double y, unsigned* out);
double nondet_double(void); unsigned nondet_uint(void); int nondet_int(void);
#define MAXC 20037508.34
/* inputs are copied to globals so that the counterexample trace names them */
double in_x, in_x2; unsigned in_z; int in_a;
#ifdef WITNESS
#define END __CPROVER_assert(0, "witness: end of harness reachable")
#else
#define END
#endif

void h_range_x(void) { in_z = nondet_uint(); __CPROVER_assume(in_z <= 30); in_x = nondet_double(); __CPROVER_assume(in_x >= -MAXC && in_x <= MAXC);
  unsigned t = verif_tilex(in_z, in_x); __CPROVER_assert(t < (1u << in_z), "tile x inside the tile range of the zoom level"); END; }
void h_range_y(void) { in_z = nondet_uint(); __CPROVER_assume(in_z <= 30); in_x = nondet_double(); __CPROVER_assume(in_x >= -MAXC && in_x <= MAXC);
  unsigned t = verif_tiley(in_z, in_x); __CPROVER_assert(t < (1u << in_z), "tile y inside the tile range of the zoom level"); END; }
void h_range_any(void) { in_z = nondet_uint(); __CPROVER_assume(in_z <= 30); in_x = nondet_double(); __CPROVER_assume(in_x == in_x);   /* any non-NaN double, also far outside the projected square */
  __CPROVER_assume(in_x >= -1e15 && in_x <= 1e15);
  unsigned t = verif_tilex(in_z, in_x); unsigned u = verif_tiley(in_z, in_x);
  __CPROVER_assert(t < (1u << in_z) && u < (1u << in_z), "clamped into the tile range"); END; }
void h_boundary(void) { in_z = nondet_uint(); __CPROVER_assume(in_z <= 30);
  __CPROVER_assert(verif_tilex(in_z, -MAXC) == 0, "west edge is tile 0");
  __CPROVER_assert(verif_tilex(in_z, MAXC) == (1u << in_z) - 1, "east edge (+180 degrees) is the last tile");
  __CPROVER_assert(verif_tiley(in_z, MAXC) == 0, "north edge is tile 0");
  __CPROVER_assert(verif_tiley(in_z, -MAXC) == (1u << in_z) - 1, "south edge is the last tile");
  if (in_z >= 1) { __CPROVER_assert(verif_tilex(in_z, 0.0) == (1u << (in_z - 1)), "x = 0 starts the eastern half");
                   __CPROVER_assert(verif_tiley(in_z, 0.0) == (1u << (in_z - 1)), "y = 0 starts the southern half"); }
  unsigned out[3]; verif_tile_of_coordinates(in_z, -MAXC, MAXC, out);
  __CPROVER_assert(out[0] == 0 && out[1] == 0 && out[2] == in_z, "Tile constructor uses the same functions"); END; }
#ifndef ZOOM
#define ZOOM 0
#endif
void h_nest_x(void) { in_z = ZOOM; in_x = nondet_double(); __CPROVER_assume(in_x >= -MAXC && in_x <= MAXC);
  __CPROVER_assert((verif_tilex(ZOOM + 1, in_x) >> 1) == verif_tilex(ZOOM, in_x), "tile of the finer zoom lies inside the tile of the coarser zoom (x)"); END; }
void h_nest_y(void) { in_z = ZOOM; in_x = nondet_double(); __CPROVER_assume(in_x >= -MAXC && in_x <= MAXC);
  __CPROVER_assert((verif_tiley(ZOOM + 1, in_x) >> 1) == verif_tiley(ZOOM, in_x), "tile of the finer zoom lies inside the tile of the coarser zoom (y)"); END; }
void h_mono_x(void) { in_z = ZOOM; in_x = nondet_double(); in_x2 = nondet_double(); __CPROVER_assume(in_x >= -MAXC && in_x2 <= MAXC && in_x <= in_x2);
  __CPROVER_assert(verif_tilex(ZOOM, in_x) <= verif_tilex(ZOOM, in_x2), "tile x never decreases when moving east"); END; }
void h_mono_y(void) { in_z = ZOOM; in_x = nondet_double(); in_x2 = nondet_double(); __CPROVER_assume(in_x >= -MAXC && in_x2 <= MAXC && in_x <= in_x2);
  __CPROVER_assert(verif_tiley(ZOOM, in_x) >= verif_tiley(ZOOM, in_x2), "tile y never decreases when moving south"); END; }
void h_lon_mono(void) { in_a = nondet_int(); __CPROVER_assume(in_a >= -1800000000 && in_a < 1800000000);
  __CPROVER_assert(verif_lon_to_x(in_a) < verif_lon_to_x(in_a + 1), "projected x strictly increases with the fixed-point longitude"); END; }
/* outside the projected square: valid locations with latitudes beyond +-85.0511288 degrees project there, down to y = -133 044 556 for the last
   representable latitude before the south pole and to -infinity for the south pole itself (lat_to_y(-90) = -inf), up to y = 238 107 693 for the north
   pole: everything south of the square is in the last tile row, everything north of it in row 0 */
#define YMIN -1.4e8
#define YMAX 2.4e8
void h_clamp_south(void) { in_z = nondet_uint(); __CPROVER_assume(in_z <= 30); in_x = nondet_double();
  __CPROVER_assume((in_x >= YMIN && in_x <= -MAXC) || in_x == -__builtin_inf());
  __CPROVER_assert(verif_tiley(in_z, in_x) == (1u << in_z) - 1, "everything south of the projected square, down to the south pole, is in the last tile row"); END; }
void h_clamp_north(void) { in_z = nondet_uint(); __CPROVER_assume(in_z <= 30); in_x = nondet_double();
  __CPROVER_assume(in_x >= MAXC && in_x <= YMAX);
  __CPROVER_assert(verif_tiley(in_z, in_x) == 0, "everything north of the projected square is in tile row 0"); END; }
