"""C02 — readers decode every spec-conformant file (E2, BV mode; decoder kernels against specification formulas)"""
import z3
from fw import Harness
from llsym import Finding, Sym, PathEnd
from irparse import IntTy
from pbfenc import *
i8, i32, i64 = IntTy(8), IntTy(32), IntTy(64)


def put(I, bs, name='msg'):
    buf = I.new_obj(max(len(bs), 1), name, 'heap')
    for k, b in enumerate(bs): I.store(buf + k, i8, Sym(b, 8) if z3.is_expr(b) else b)
    return buf


def h_be32(I, job):
    b = [I.named('b%d' % k, 8) for k in range(4)]
    buf = put(I, [I.term(x, 8) for x in b], 'hdr')
    r = I.call('@verif_be32', [buf]); I.observe('value', r)
    ref = z3.Concat(*[I.term(x, 8) for x in b])
    I.obligation(I.term(r, 32) == ref, 'length-prefix', 'BlobHeader length prefix is not the big-endian value of the four bytes')
    size = I.named('size', 32); out = I.new_obj(4, 'out', 'heap')
    rc = I.concretize(I.call('@verif_check_size', [size, out]), 'rc'); I.observe('rc', rc)
    ok = z3.ULE(I.term(size, 32), 64 * 1024)
    I.obligation(ok if rc == 0 else z3.Not(ok), 'header-size-limit', 'BlobHeader size accepted/rejected against the 64 KiB limit of the format')
    if rc == 0: I.obligation(I.icmp('eq', 32, I.load(out, i32), size), 'header-size', 'check_size changes the size')
    I.reach('end')


def h_blob_header(I, job):
    """BlobHeader with the fields in any order, optional indexdata and an unknown field; datasize symbolic (28 bits)"""
    ds = I.named('datasize', 28)
    typ = b'OSMData' if not job['header'] else b'OSMHeader'
    parts = {'T': f_bytes(1, typ), 'I': f_bytes(2, [I.term(I.named('ix%d' % k, 8), 8) for k in range(job.get('nidx', 3))]),
             'D': f_varint(3, sym_varint(I.term(ds, 28))), 'U': f_varint(7, 300), 'W': f_bytes(1, b'Other')}
    msg = []
    for c in job['layout']: msg += parts[c]
    buf = put(I, msg); out = I.new_obj(8, 'out', 'heap')
    rc = I.concretize(I.call('@verif_blob_header', [buf, len(msg), int(job['header']), out]), 'rc'); I.observe('rc', rc)
    dsz = I.term(ds, 28) == 0
    if 'W' in job['layout']:
        if rc == 0: raise Finding('blob-type', 'blob of the wrong type accepted')
    elif 'D' not in job['layout']:
        if rc == 0: raise Finding('datasize', 'BlobHeader without datasize accepted')
    else:
        if rc == 0:
            I.obligation(z3.Not(dsz), 'datasize', 'zero datasize accepted')
            I.obligation(I.term(I.load(out, i64), 64) == z3.ZeroExt(36, I.term(ds, 28)), 'datasize', 'decoded datasize differs from the encoded value')
        elif rc == 1: I.obligation(dsz, 'rejects-valid', 'spec-conformant BlobHeader rejected')
        else: raise Finding('rejects-valid', 'spec-conformant BlobHeader rejected (rc=%d)' % rc)
    I.reach('end')


def h_reftable(I, job):
    """o5m string table: after adding A then B from cursor position `start`: reference 1 is B, reference 2 is A (ring, wrap-around included)"""
    start = job['start']; la, lb = 3, 2
    A = [I.named('a%d' % k, 8) for k in range(la)]; B = [I.named('b%d' % k, 8) for k in range(lb)]
    strs = put(I, [I.term(x, 8) for x in A + B], 'strs'); lens = I.new_obj(8, 'lens', 'heap')
    I.store(lens, i32, la); I.store(lens + 4, i32, lb)
    for idx, want in ((1, B), (2, A)):
        out = I.new_obj(4, 'out', 'heap')
        rc = I.concretize(I.call('@verif_reftable', [start, strs, lens, 2, idx, out, len(want)]), 'rc')
        if rc != 0: raise Finding('string-table', 'reference %d rejected' % idx)
        for k in range(len(want)): I.obligation(I.icmp('eq', 8, I.load(out + k, i8), want[k]), 'string-table', 'reference %d does not return the %s most recent string' % (idx, 'second' if idx == 2 else ''))
    for idx in (0, 15001):
        out = I.new_obj(4, 'out', 'heap')
        rc = I.concretize(I.call('@verif_reftable', [start, strs, lens, 2, idx, out, 1]), 'rc')
        if rc != 1: raise Finding('string-table', 'reference %d (outside 1..15000) accepted' % idx)
    # strings longer than 250+2 bytes are not entered; the cursor wraps after 15000 entries
    for (n, ln, want) in ((1, 252, (start + 1) % 15000), (1, 253, start), (2, 10, (start + 2) % 15000)):
        c = I.concretize(I.call('@verif_reftable_cursor', [start, n, ln]), 'cursor'); I.observe('cursor', c)
        if c != want: raise Finding('string-table', 'cursor after %d additions of length %d from %d is %d, expected %d' % (n, ln, start, c, want))
    I.reach('end')


NODE_DUMP = 88         # bytes of the dump of a node without user name and tags: 8 header words, x, y, ntags


def word(I, buf, idx): return I.load(buf + 8 * idx, i64)


def h_dense(I, job):
    """PrimitiveBlock with two dense nodes: symbolic zig-zag deltas for id/lat/lon, symbolic lat/lon offsets, granularity per job"""
    g = job['gran']
    zid = [I.named('zid%d' % k, 28) for k in range(2)]; zlat = [I.named('zlat%d' % k, 28) for k in range(2)]; zlon = [I.named('zlon%d' % k, 28) for k in range(2)]
    laoff = I.named('lat_offset', 28); looff = I.named('lon_offset', 28)
    pk = lambda zs: sum((sym_varint(I.term(z, 28)) for z in zs), [])
    dense = f_bytes(1, pk(zid)) + f_bytes(8, pk(zlat)) + f_bytes(9, pk(zlon))
    group = f_bytes(2, dense)
    fields = {'S': f_bytes(1, f_bytes(1, b'')), 'G': f_bytes(2, group), 'g': f_varint(17, g) if g != 100 else [], 'a': f_varint(19, sym_varint(I.term(laoff, 28))),
              'o': f_varint(20, sym_varint(I.term(looff, 28))), 'U': f_varint(30, 5)}
    msg = []
    for c in job['layout']: msg += fields[c]
    buf = put(I, msg); out = I.new_obj(4 * NODE_DUMP, 'out', 'heap'); ol = I.new_obj(4, 'ol', 'heap')
    rc = I.concretize(I.call('@verif_primitive_block', [buf, len(msg), job.get('meta', 1), out, 4 * NODE_DUMP, ol]), 'rc'); I.observe('rc', rc)
    if rc != 0: raise Finding('rejects-valid', 'spec-conformant PrimitiveBlock rejected (rc=%d)' % rc)
    n = I.concretize(I.load(ol, i32), 'dumplen'); I.observe('dumplen', n)
    if n != 2 * NODE_DUMP: raise Finding('object-count', 'dump has %d bytes, expected two plain nodes (%d)' % (n, 2 * NODE_DUMP))
    ids = [unzigzag_term(I.term(z, 28)) for z in zid]; lats = [unzigzag_term(I.term(z, 28)) for z in zlat]; lons = [unzigzag_term(I.term(z, 28)) for z in zlon]
    lo = z3.ZeroExt(36, I.term(looff, 28)) if 'o' in job['layout'] else z3.BitVecVal(0, 64)
    la = z3.ZeroExt(36, I.term(laoff, 28)) if 'a' in job['layout'] else z3.BitVecVal(0, 64)
    cid = z3.BitVecVal(0, 64); clat = z3.BitVecVal(0, 64); clon = z3.BitVecVal(0, 64)
    for k in range(2):
        cid = cid + ids[k]; clat = clat + lats[k]; clon = clon + lons[k]
        base = k * (NODE_DUMP // 8)
        I.obligation(I.term(word(I, out, base + 0), 64) == 1, 'type', 'entity %d is not a node' % k)
        I.obligation(I.term(word(I, out, base + 1), 64) == cid, 'delta-id', 'node %d: id is not the running sum of the id deltas' % k)
        # spec: degrees = 1e-9 * (offset + granularity * value); the library stores 1e-7 degrees, truncating
        wx = z3.Extract(31, 0, (clon * g + lo) / 100); wy = z3.Extract(31, 0, (clat * g + la) / 100)
        I.obligation(z3.Extract(31, 0, I.term(word(I, out, base + 8), 64)) == wx, 'coordinate', 'node %d: longitude != (lon_offset + granularity * lon) / 100' % k)
        I.obligation(z3.Extract(31, 0, I.term(word(I, out, base + 9), 64)) == wy, 'coordinate', 'node %d: latitude != (lat_offset + granularity * lat) / 100' % k)
        I.obligation(I.term(word(I, out, base + 3), 64) == 1, 'visible', 'node %d without DenseInfo must be visible' % k)
    I.reach('end')


def h_dense_info(I, job):
    """two dense nodes with DenseInfo: versions, delta-coded timestamps / changesets / uids / user string ids, visible flags; date_granularity per job"""
    dg = job['date_gran']
    ver = [I.named('ver%d' % k, 21) for k in range(2)]; zts = [I.named('zts%d' % k, 28) for k in range(2)]; zcs = [I.named('zcs%d' % k, 28) for k in range(2)]
    zuid = [I.named('zuid%d' % k, 28) for k in range(2)]; vis1 = I.named('vis1', 1)
    pk = lambda zs, w=28: sum((sym_varint(I.term(z, w), w // 7) for z in zs), [])
    info = f_bytes(1, pk(ver, 21)) + f_bytes(2, pk(zts)) + f_bytes(3, pk(zcs)) + f_bytes(4, pk(zuid)) + f_bytes(5, varint(zigzag(1)) + varint(zigzag(0)))
    if job['visible']: info += f_bytes(6, [1, z3.ZeroExt(7, I.term(vis1, 1))])
    dense = f_bytes(1, varint(zigzag(10)) + varint(zigzag(1))) + f_bytes(5, info) + f_bytes(8, varint(zigzag(5)) * 2) + f_bytes(9, varint(zigzag(7)) * 2)
    st = f_bytes(1, b'') + f_bytes(1, b'usr')
    msg = f_bytes(1, st) + (f_varint(18, dg) if dg != 1000 else []) + f_bytes(2, f_bytes(2, dense))
    ts = [unzigzag_term(I.term(z, 28)) for z in zts]; cs = [unzigzag_term(I.term(z, 28)) for z in zcs]; ui = [unzigzag_term(I.term(z, 28)) for z in zuid]
    I.assume(z3.And(cs[0] >= 0, cs[0] + cs[1] >= 0, ui[0] >= 0, ui[0] + ui[1] >= 0, ts[0] >= 0, ts[0] + ts[1] >= 0))        # the value domain of C01/C02: non-negative changeset ids, uids, timestamps
    buf = put(I, msg); cap = 256; out = I.new_obj(cap, 'out', 'heap'); ol = I.new_obj(4, 'ol', 'heap')
    rc = I.concretize(I.call('@verif_primitive_block', [buf, len(msg), 1, out, cap, ol]), 'rc'); I.observe('rc', rc)
    if rc != 0: raise Finding('rejects-valid', 'spec-conformant PrimitiveBlock with DenseInfo rejected (rc=%d)' % rc)
    n = I.concretize(I.load(ol, i32), 'dumplen'); I.observe('dumplen', n)
    per = 64 + 3 + 16 + 8
    if n != 2 * per: raise Finding('object-shape', 'dump has %d bytes, expected two nodes with a 3-byte user name (%d)' % (n, 2 * per))
    st_, sc, su = z3.BitVecVal(0, 64), z3.BitVecVal(0, 64), z3.BitVecVal(0, 64)
    for k in range(2):
        st_, sc, su = st_ + ts[k], sc + cs[k], su + ui[k]
        W = lambda j: I.term(I.load(out + per * k + 8 * j if j < 8 else out + per * k + 3 + 8 * j, i64), 64)
        I.obligation(W(1) == (10 if k == 0 else 11), 'delta-id', 'dense node %d: id' % k)
        I.obligation(W(2) == z3.ZeroExt(43, I.term(ver[k], 21)), 'version', 'dense node %d: version differs' % k)
        I.obligation(W(4) == z3.ZeroExt(32, z3.Extract(31, 0, (st_ * dg) / 1000)), 'timestamp', 'dense node %d: timestamp != (running sum of deltas) * date_granularity / 1000' % k)
        I.obligation(W(5) == sc, 'changeset', 'dense node %d: changeset is not the running sum of deltas' % k)
        I.obligation(W(6) == su, 'uid', 'dense node %d: uid is not the running sum of deltas' % k)
        I.obligation(W(7) == 3, 'user', 'dense node %d: user string' % k)
        visible = z3.BoolVal(True) if (k == 0 or not job['visible']) else I.term(vis1, 1) == 1
        I.obligation((W(3) == 1) == visible, 'visible', 'dense node %d: visible flag' % k)
        I.obligation(z3.If(visible, W(8) == (7 * (k + 1)), W(8) == 0x7fffffff), 'coordinate', 'dense node %d: longitude (undefined iff not visible)' % k)
    I.reach('end')


def h_node_info(I, job):
    """PrimitiveBlock with one plain Node carrying Info (version, timestamp, changeset, uid, user_sid, optional visible) and one tag"""
    dg = job['date_gran']
    ver = I.named('version', 28); ts = I.named('timestamp', 28); cs = I.named('changeset', 28); uid = I.named('uid', 28)
    zid = I.named('zid', 28); zlat = I.named('zlat', 28); zlon = I.named('zlon', 28)
    info = f_varint(1, sym_varint(I.term(ver, 28))) + f_varint(2, sym_varint(I.term(ts, 28))) + f_varint(3, sym_varint(I.term(cs, 28))) + f_varint(4, sym_varint(I.term(uid, 28))) + f_varint(5, 3)
    if job['visible'] is not None: info += f_varint(6, job['visible'])
    node = f_varint(1, sym_varint(I.term(zid, 28))) + f_bytes(2, varint(1)) + f_bytes(3, varint(2)) + (f_bytes(4, info) if job['info'] else []) + f_varint(8, sym_varint(I.term(zlat, 28))) + f_varint(9, sym_varint(I.term(zlon, 28)))
    st = f_bytes(1, b'') + f_bytes(1, b'k') + f_bytes(1, b'v') + f_bytes(1, b'usr')
    msg = f_bytes(1, st) + (f_varint(18, dg) if dg != 1000 else []) + f_bytes(2, f_bytes(1, node))
    buf = put(I, msg); cap = 256; out = I.new_obj(cap, 'out', 'heap'); ol = I.new_obj(4, 'ol', 'heap')
    rc = I.concretize(I.call('@verif_primitive_block', [buf, len(msg), 1, out, cap, ol]), 'rc'); I.observe('rc', rc)
    if rc != 0: raise Finding('rejects-valid', 'spec-conformant PrimitiveBlock rejected (rc=%d)' % rc)
    n = I.concretize(I.load(ol, i32), 'dumplen'); I.observe('dumplen', n)
    ulen = 3 if job['info'] else 0
    want = 8 * 8 + ulen + 2 * 8 + 8 + (8 + 1 + 8 + 1)
    if n != want: raise Finding('object-shape', 'dump has %d bytes, expected %d (one node, user of %d bytes, one tag k=v)' % (n, want, ulen))
    W = lambda k: I.term(word(I, out, k), 64)
    z64 = lambda s, w=28: z3.ZeroExt(64 - w, I.term(s, w))
    I.obligation(W(1) == unzigzag_term(I.term(zid, 28)), 'id', 'node id differs')
    if job['info']:
        I.obligation(W(2) == z64(ver), 'version', 'version differs')
        I.obligation(W(4) == z3.ZeroExt(32, z3.Extract(31, 0, z3.UDiv(z64(ts) * dg, z3.BitVecVal(1000, 64)))), 'timestamp', 'timestamp != raw * date_granularity / 1000')
        I.obligation(W(5) == z64(cs), 'changeset', 'changeset differs'); I.obligation(W(6) == z64(uid), 'uid', 'uid differs')
        vis = 1 if job['visible'] is None else job['visible']
        I.obligation(W(3) == vis, 'visible', 'visible flag differs (absent means visible)')
        I.obligation(W(7) == 3, 'user', 'user name length differs')
    else:
        I.obligation(z3.And(W(2) == 0, W(4) == 0, W(5) == 0, W(6) == 0, W(7) == 0, W(3) == 1), 'defaults', 'missing Info must give default metadata and a visible object')
    I.reach('end')


def h_pbf_way_relation(I, job):
    """PrimitiveBlock with one Way (delta-coded refs, optional delta-coded locations) and one Relation (roles_sid, delta-coded memids, types), both with Info and a tag"""
    from xmlenc import Reader
    zr = [I.named('zref%d' % k, 21) for k in range(3)]; zm = [I.named('zmem%d' % k, 21) for k in range(3)]
    mt = [I.concretize(I.named('mtype%d' % k, 2), 'member type') for k in range(3)]
    for t_ in mt:
        if t_ > 2: raise PathEnd()
    # the coordinate deltas are concrete: (value * granularity + offset) / 100 on a symbolic 64-bit value is not decided in time (unknown after 330 s)
    zx = [z3.BitVecVal(v, 14) for v in (40, 7, 9000)]; zy = [z3.BitVecVal(v, 14) for v in (3, 16001, 2)]
    class _T:
        pass
    wid = I.named('zwid', 14); rid = I.named('zrid', 14)
    pk = lambda zs, w: sum((sym_varint(I.term(z, w), w // 7) for z in zs), [])
    info = f_varint(1, 3) + f_varint(2, 77) + f_varint(3, 9) + f_varint(4, 11) + f_varint(5, 3)
    way = f_varint(1, sym_varint(I.term(wid, 14), 2)) + f_bytes(2, varint(1)) + f_bytes(3, varint(2)) + f_bytes(4, info) + f_bytes(8, pk(zr, 21))
    pkc = lambda zs: sum((sym_varint(z, 2) for z in zs), [])
    if job['low']: way += f_bytes(9, pkc(zy)) + f_bytes(10, pkc(zx))
    rel = f_varint(1, sym_varint(I.term(rid, 14), 2)) + f_bytes(2, varint(1)) + f_bytes(3, varint(2)) + f_bytes(4, info) + f_bytes(8, varint(4) + varint(0) + varint(4)) + f_bytes(9, pk(zm, 21)) + f_bytes(10, sum((varint(t_) for t_ in mt), []))
    st = f_bytes(1, b'') + f_bytes(1, b'k') + f_bytes(1, b'v') + f_bytes(1, b'usr') + f_bytes(1, b'role')
    groups = [f_bytes(2, f_bytes(3, way)), f_bytes(2, f_bytes(4, rel))]
    if job.get('swap'): groups.reverse()
    la_off, lo_off = job.get('offsets', (0, 0))
    msg = f_bytes(1, st) + sum(groups, []) + (f_varint(19, la_off) + f_varint(20, lo_off) if job.get('offsets') else [])
    buf = put(I, msg); cap = 1024; out = I.new_obj(cap, 'out', 'heap'); ol = I.new_obj(4, 'ol', 'heap')
    rc = I.concretize(I.call('@verif_primitive_block', [buf, len(msg), 1, out, cap, ol]), 'rc'); I.observe('rc', rc)
    if rc != 0: raise Finding('rejects-valid', 'spec-conformant PrimitiveBlock rejected (rc=%d)' % rc)
    R = Reader(I, out, I.concretize(I.load(ol, i32), 'dumplen'))
    def header(tcode, idt, what):
        R.expect(tcode, 'type', what + ': type'); R.expect(z3.ZeroExt(64 - idt.size(), idt), 'id', what + ': id');       # Way.id / Relation.id are int64 (plain varint)
        R.expect(3, 'meta', what + ': version'); R.expect(1, 'meta', what + ': visible')
        R.expect(77, 'meta', what + ': timestamp'); R.expect(9, 'meta', what + ': changeset'); R.expect(11, 'meta', what + ': uid'); R.string('usr', what + ' user')
    def do_way():
        header(2, I.term(wid, 14), 'way'); R.expect(3, 'refs', 'way: number of node references')
        acc = z3.BitVecVal(0, 64); ax = z3.BitVecVal(0, 64); ay = z3.BitVecVal(0, 64)
        for k in range(3):
            acc = acc + unzigzag_term(I.term(zr[k], 21)); R.expect(acc, 'delta-ref', 'way: node reference %d is not the running sum of the deltas' % k)
            if job['low']:
                ax = ax + unzigzag_term(zx[k]); ay = ay + unzigzag_term(zy[k])
                cx = z3.simplify((ax * 100 + lo_off) / 100); cy = z3.simplify((ay * 100 + la_off) / 100)          # (offset + granularity * value) / 100, granularity 100
                R.expect(z3.ZeroExt(32, z3.Extract(31, 0, cx)), 'location', 'way: longitude of reference %d is not (lon_offset + granularity * running sum) / 100' % k)
                R.expect(z3.ZeroExt(32, z3.Extract(31, 0, cy)), 'location', 'way: latitude of reference %d is not (lat_offset + granularity * running sum) / 100' % k)
            else: R.expect(UNDEF32, 'location', 'x'); R.expect(UNDEF32, 'location', 'y')
        R.expect(1, 'tags', 'way: tags'); R.string('k', 'way tag key'); R.string('v', 'way tag value')
    def do_rel():
        header(3, I.term(rid, 14), 'relation'); R.expect(3, 'members', 'relation: number of members')
        acc = z3.BitVecVal(0, 64)
        for k in range(3):
            acc = acc + unzigzag_term(I.term(zm[k], 21))
            R.expect(mt[k] + 1, 'member-type', 'relation: member %d type' % k); R.expect(acc, 'delta-member', 'relation: member id %d is not the running sum of the deltas' % k); R.string('role' if k != 1 else '', 'member %d role' % k)
        R.expect(1, 'tags', 'relation: tags'); R.string('k', 'relation tag key'); R.string('v', 'relation tag value')
    if job.get('swap'): do_rel(); do_way()
    else: do_way(); do_rel()
    R.done()
    I.reach('end')


def h_o5m_deltas(I, job):
    """o5m file with three nodes whose id / coordinate / timestamp / changeset deltas are symbolic zig-zag bytes; a reset marker before the third"""
    import C06
    z = {nm: I.named(nm, 7) for nm in ('id1', 'id2', 'id3', 'lon1', 'lon2', 'lon3', 'lat1', 'lat2', 'lat3', 'ts1', 'cs1')}
    B = lambda nm: z3.ZeroExt(1, I.term(z[nm], 7))
    n1 = [B('id1'), 1, B('ts1'), B('cs1'), 0, 5, 0, ord('u'), 0, B('lon1'), B('lat1')]
    n2 = [B('id2'), 0, B('lon2'), B('lat2')]
    n3 = [B('id3'), 0, B('lon3'), B('lat3')]
    I.assume(I.term(z['ts1'], 7) != 0)             # timestamp 0 means "no author information follows" in o5m
    f = list(C06.O5M_HDR) + [0x10, len(n1)] + n1 + [0x10, len(n2)] + n2 + ([0xff] if job['reset'] else []) + [0x10, len(n3)] + n3 + [0xfe]
    data = I.new_obj(len(f), 'file', 'heap')
    for k, b in enumerate(f): I.store(data + k, i8, Sym(b, 8) if z3.is_expr(b) else b)
    I.call('@verif_set_summary', [2])
    out = I.new_obj(512, 'out', 'heap'); ol = I.new_obj(4, 'ol', 'heap'); c = I.new_obj(4, 'cuts', 'heap')
    rc = I.concretize(I.call('@verif_o5m_run', [data, len(f), c, 0, out, 512, ol]), 'rc'); I.observe('rc', rc)
    I.call('@verif_set_summary', [0])
    if rc != 0: raise Finding('rejects-valid', 'spec-conformant o5m file rejected (rc=%d)' % rc)
    n = I.concretize(I.load(ol, i32), 'n'); I.observe('dumplen', n)
    if n != 89 + 88 + 88: raise Finding('object-count', 'dump has %d bytes, expected three nodes' % n)
    d = {nm: unzigzag_term(I.term(v, 7)) for nm, v in z.items()}
    W = lambda base, k: I.term(I.load(out + base + 8 * k, i64), 64)
    ids = [d['id1'], d['id1'] + d['id2'], (d['id3'] if job['reset'] else d['id1'] + d['id2'] + d['id3'])]
    lons = [d['lon1'], d['lon1'] + d['lon2'], (d['lon3'] if job['reset'] else d['lon1'] + d['lon2'] + d['lon3'])]
    lats = [d['lat1'], d['lat1'] + d['lat2'], (d['lat3'] if job['reset'] else d['lat1'] + d['lat2'] + d['lat3'])]
    bases = [0, 89, 89 + 88]
    for k in range(3):
        xoff = bases[k] + (65 if k == 0 else 64)
        I.obligation(W(bases[k], 1) == ids[k], 'delta-id', 'node %d: id is not the running sum of the deltas%s' % (k + 1, ' (restarting after the reset marker)' if job['reset'] else ''))
        I.obligation(z3.Extract(31, 0, I.term(I.load(out + xoff, i64), 64)) == z3.Extract(31, 0, lons[k]), 'delta-lon', 'node %d: longitude is not the running sum of the deltas' % (k + 1))
        I.obligation(z3.Extract(31, 0, I.term(I.load(out + xoff + 8, i64), 64)) == z3.Extract(31, 0, lats[k]), 'delta-lat', 'node %d: latitude is not the running sum of the deltas' % (k + 1))
    I.obligation(W(0, 2) == 1, 'version', 'node 1: version')
    I.obligation(z3.Extract(31, 0, W(0, 4)) == z3.Extract(31, 0, d['ts1']), 'timestamp', 'node 1: timestamp is not the decoded delta')
    I.obligation(z3.Extract(31, 0, W(0, 5)) == z3.Extract(31, 0, d['cs1']), 'changeset', 'node 1: changeset is not the decoded delta')
    I.obligation(W(0, 6) == 5, 'uid', 'node 1: uid'); I.obligation(W(0, 7) == 1, 'user', 'node 1: user name length')
    I.reach('end')


def h_xml_discussion(I, job):
    """schema-conformant changeset content as an element event script; the delivered discussion and tags against a reference reading of the script"""
    import C03
    n = job['n']
    ch = [I.named('ch%d' % k, 8) for k in range(3)]
    for c in ch: I.assume(I.term(c, 8) != 0)
    cb = I.new_obj(3, 'chars', 'heap')
    for k, c in enumerate(ch): I.store(cb + k, i8, c)
    em = I.new_obj(n, 'events', 'heap')
    # reference reading of the script (concrete structure, symbolic character bytes); non-conformant scripts are outside this harness
    stack = []; comments = []; ntags = 0; seen_disc = False; tags_done = False
    for k in range(n):
        e = I.named('ev%d' % k, 8); I.assume(z3.And(z3.UGE(I.term(e, 8), 1), z3.ULE(I.term(e, 8), 7)))
        ev = I.concretize(e, 'event'); I.store(em + k, i8, ev)
        top = stack[-1] if stack else 'changeset'
        if ev == 6:
            if not stack: raise PathEnd()
            stack.pop()
        elif ev == 1 and top == 'changeset' and not seen_disc: stack.append('discussion'); seen_disc = True; tags_done = ntags > 0
        elif ev == 2 and top == 'discussion': stack.append('comment'); comments.append(None)
        elif ev == 3 and top == 'comment' and comments[-1] is None: stack.append('text'); comments[-1] = []
        elif ev in (4, 7) and top == 'text': comments[-1] += ([ch[0], ch[1]] if ev == 4 else [ch[2]])
        elif ev == 5 and top == 'changeset' and not tags_done: stack.append('tag'); ntags += 1     # the tags form one contiguous run (before or after the discussion), as every producer writes them
        else: raise PathEnd()
    # elements still open at the end of the script are closed by the wrapper in order
    I.call('@verif_xml_chars', [cb])
    out = I.new_obj(2048, 'out', 'heap'); ol = I.new_obj(4, 'ol', 'heap')
    rc = I.concretize(I.call('@verif_xml_events', [em, n, out, 2048, ol]), 'rc'); I.observe('rc', rc)
    I.call('@verif_xml_chars', [0])
    if rc != 0: raise Finding('rejects-valid', 'schema-conformant changeset content rejected (rc=%d)' % rc)
    total = I.concretize(I.load(ol, i32), 'n')
    pos = [0]
    def word():
        v = I.load(out + pos[0], i64); pos[0] += 8; return v
    def cword(what):
        return I.concretize(word(), what)
    def string(expect, what):
        ln = cword(what + ' length')
        if ln != len(expect): raise Finding('string-length', '%s has %d bytes, the script describes %d' % (what, ln, len(expect)))
        for j, x in enumerate(expect):
            I.obligation(I.term(I.load(out + pos[0] + j, i8), 8) == (I.term(x, 8) if isinstance(x, Sym) else x), 'string-content', '%s: byte %d differs from the script' % (what, j))
        pos[0] += ln
    if total == 0: raise Finding('object-count', 'no changeset delivered')
    t_, i_ = cword('type'), cword('id')
    if t_ != 5 or i_ != 7: raise Finding('object', 'delivered object is not changeset 7 (type %d id %d, %d dump bytes)' % (t_, i_, total))
    cword('created'); cword('closed')
    if cword('uid') != 3: raise Finding('uid', 'changeset uid')
    string(list(b'u'), 'user')
    cword('num_changes'); cword('num_comments'); word(); word()
    nt = cword('number of tags')
    if nt != ntags: raise Finding('tag-count', '%d tags delivered, the script has %d' % (nt, ntags))
    for _ in range(ntags): string(list(b'key'), 'tag key'); string(list(b'value'), 'tag value')
    nc = cword('number of comments')
    if nc != len(comments): raise Finding('comment-count', '%d comments delivered, the script has %d' % (nc, len(comments)))
    for k, c in enumerate(comments):
        cword('date')
        if cword('comment uid') != 5: raise Finding('comment-uid', 'comment %d uid' % k)
        string(list(b'commenter'), 'comment %d user' % k)
        string(c or [], 'comment %d text' % k)
    if pos[0] != total: raise Finding('object-count', 'more than one changeset delivered (%d of %d dump bytes used)' % (pos[0], total))
    I.reach('end')


TS = 1420070400      # 2015-01-01T00:00:00Z
UNDEF32 = 2147483647


def perm(lst, k):
    """k-th of a fixed family of orders: identity, reversed, rotations, adjacent swaps"""
    n = len(lst); fam = [list(range(n)), list(range(n))[::-1]] + [[(i + r) % n for i in range(n)] for r in range(1, n)]
    for i in range(n - 1):
        q = list(range(n)); q[i], q[i + 1] = q[i + 1], q[i]; fam.append(q)
    return [lst[i] for i in fam[k % len(fam)]]


def h_xml_objects(I, job):
    """schema-conformant XML as an element script: node / way / relation with metadata attributes in a symbolic choice of order, symbolic digits in the numeric attributes, change sections, bounds"""
    import C03
    from xmlenc import S, E, C, run_script, digit, dval, dig, below, Reader
    kind = job['kind']
    idd = [digit(I, 'id0', 1), digit(I, 'id1')]; ver = [digit(I, 'ver', 1)]; uid = [digit(I, 'uid0', 1), digit(I, 'uid1')]; cs = [digit(I, 'cs0', 1), digit(I, 'cs1')]
    neg = I.concretize(I.named('negid', 1), 'negative id')
    vis = I.concretize(I.named('visible', 1), 'visible attribute') if not job.get('section') else 1
    attrs = [('id', ([ord('-')] if neg else []) + idd), ('version', ver), ('timestamp', '2015-01-01T00:00:00Z'), ('uid', uid), ('user', 'usr'), ('changeset', cs)]
    if not job.get('section'): attrs.append(('visible', 'true' if vis else 'false'))
    latd = digit(I, 'latd')
    if kind == 'node': attrs += [('lat', [ord('4'), latd, '.25']), ('lon', '-1.5')]
    attrs.append(('unknown', 'zzz'))                       # attributes the reader does not know are ignored
    pk = I.named('order', 8); nperm = 2 * len(attrs)
    below(I, pk, 8, nperm); pk = I.concretize(pk, 'attribute order')
    attrs = perm(attrs, pk)
    body = []; refs = []; mtypes = []
    if kind == 'way':
        for k in range(2):
            r = [digit(I, 'ref%d0' % k, 1), digit(I, 'ref%d1' % k)]; refs.append(r)
            body += [S('nd', perm([('ref', r)], 0)), E]
    if kind == 'relation':
        for k in range(2):
            r = [digit(I, 'ref%d0' % k, 1), digit(I, 'ref%d1' % k)]; refs.append(r)
            mt = I.named('mtype%d' % k, 8); I.assume(z3.Or([I.term(mt, 8) == ord(c) for c in 'nwr'])); mt = I.concretize(mt, 'member type'); mtypes.append(mt)
            body += [S('member', perm([('type', [[ord('n'), 'ode'], [ord('w'), 'ay'], [ord('r'), 'elation']][{110: 0, 119: 1, 114: 2}[mt]]), ('ref', r), ('role', 'ro' if k else '')], pk + k)), E]
    body += [S('tag', perm([('k', 'key'), ('v', 'va l')], pk)), E]
    obj = [S(kind, attrs)] + body + [E]
    sec = job.get('section')
    if sec: ev = [S('osmChange', perm([('version', '0.6'), ('generator', 'g')], pk))] + [S(sec), ] + obj + [E, E]
    else: ev = [S('osm', perm([('version', '0.6'), ('generator', 'g'), ('upload', 'false')], pk))] + obj + [E]
    rc, out, n, hdr = run_script(I, ev)
    I.observe('rc', rc)
    if rc != 0: raise Finding('rejects-valid', 'schema-conformant XML rejected (rc=%d)' % rc)
    R = Reader(I, out, n)
    if n == 0: raise Finding('object-count', 'no object delivered')
    tcode = {'node': 1, 'way': 2, 'relation': 3}[kind]
    R.expect(tcode, 'type', 'object type')
    idv = dval(I, idd)
    R.expect(-idv if neg else idv, 'id', 'id attribute (any attribute order, negative ids)')
    R.expect(dval(I, ver), 'version', 'version attribute')
    R.expect(0 if sec == 'delete' else (1 if vis else 0), 'visible', 'visible flag (attribute, or false inside a <delete> section)')
    R.expect(TS, 'timestamp', 'timestamp attribute'); R.expect(dval(I, cs), 'changeset', 'changeset attribute'); R.expect(dval(I, uid), 'uid', 'uid attribute')
    R.string('usr', 'user')
    if kind == 'node':
        lat = (40 + dig(I, latd)) * 10000000 + 2500000
        R.expect((-15000000) & 0xffffffff, 'location', 'lon attribute'); R.expect(lat, 'location', 'lat attribute')
    if kind == 'way':
        R.expect(2, 'nodes', 'number of node references')
        for k in range(2): R.expect(dval(I, refs[k]), 'nodes', 'nd ref %d' % k); R.expect(UNDEF32, 'nodes', 'nd without location x'); R.expect(UNDEF32, 'nodes', 'nd without location y')
    if kind == 'relation':
        R.expect(2, 'members', 'number of members')
        for k in range(2):
            R.expect({110: 1, 119: 2, 114: 3}[mtypes[k]], 'members', 'member %d type' % k); R.expect(dval(I, refs[k]), 'members', 'member %d ref' % k); R.string('ro' if k else '', 'member %d role' % k)
    R.expect(1, 'tags', 'number of tags'); R.string('key', 'tag key'); R.string('va l', 'tag value')
    R.done()
    if sec and I.concretize(I.load(hdr + 4 * 17, i32), 'flag') != 1: raise Finding('header', 'change file not flagged as having multiple object versions')
    I.reach('end')


def h_xml_bounds(I, job):
    """<bounds> with its four attributes in any order -> header box"""
    from xmlenc import S, E, run_script, digit
    d = [digit(I, 'd%d' % k) for k in range(4)]
    attrs = [('minlat', [ord('1'), d[0], '.5']), ('minlon', ['-2', d[1]]), ('maxlat', ['3', d[2], '.25']), ('maxlon', ['4', d[3]])]
    pk = I.named('order', 8); I.assume(z3.ULT(I.term(pk, 8), 8)); pk = I.concretize(pk, 'attribute order')
    ev = [S('osm', [('version', '0.6')]), S('bounds', perm(attrs, pk)), E, S('node', [('id', '1'), ('lat', '1'), ('lon', '1')]), E, E]
    rc, out, n, hdr = run_script(I, ev)
    if rc != 0: raise Finding('rejects-valid', 'schema-conformant XML rejected (rc=%d)' % rc)
    nb = I.concretize(I.load(hdr, i32), 'boxes')
    if nb != 1: raise Finding('header', '%d header boxes for one <bounds> element' % nb)
    dv = [z3.ZeroExt(24, I.term(x, 8)) - 48 for x in d]
    want = [-(20 + dv[1]) * 10000000, (10 + dv[0]) * 10000000 + 5000000, (40 + dv[3]) * 10000000, (30 + dv[2]) * 10000000 + 2500000]
    for k, nm in enumerate(('minlon', 'minlat', 'maxlon', 'maxlat')):
        I.obligation(I.term(I.load(hdr + 4 * (1 + k), i32), 32) == want[k], 'header', 'bounding box %s differs from the attribute' % nm)
    I.reach('end')


def h_o5m_member_deltas(I, job):
    """o5m ways and relations: way node references and relation member ids (one chain per member type) are running sums of symbolic zig-zag deltas that restart after a reset marker"""
    import C06
    from xmlenc import Reader
    names = ['w%d' % k for k in range(4)] + ['m%d' % k for k in range(6)] + ['wid', 'rid']
    z = {nm: I.named(nm, 7) for nm in names}
    B = lambda nm: z3.ZeroExt(1, I.term(z[nm], 7))
    d = {nm: unzigzag_term(I.term(v, 7)) for nm, v in z.items()}
    def way(idb, refs): body = [idb, 0, len(refs)] + refs; return [0x11, len(body)] + body
    def rel(idb, members):
        ms = []
        for (delta, code, role) in members: ms += [delta, 0, code] + list(role) + [0]
        body = [idb, 0, len(ms)] + ms; return [0x12, len(body)] + body
    reset = [0xff] if job['reset'] else []
    f = list(C06.O5M_HDR) + way(B('wid'), [B('w0'), B('w1')]) + (reset if job['reset'] == 1 else []) + way(2, [B('w2'), B('w3')]) \
        + rel(B('rid'), [(B('m0'), ord('0'), b'a'), (B('m1'), ord('1'), b''), (B('m2'), ord('2'), b'c')]) + (reset if job['reset'] == 2 else []) \
        + rel(2, [(B('m3'), ord('2'), b'x'), (B('m4'), ord('0'), b''), (B('m5'), ord('1'), b'z')]) + [0xfe]
    data = I.new_obj(len(f), 'file', 'heap')
    for k, b in enumerate(f): I.store(data + k, i8, Sym(b, 8) if z3.is_expr(b) else b)
    I.call('@verif_set_summary', [2])
    out = I.new_obj(1024, 'out', 'heap'); ol = I.new_obj(4, 'ol', 'heap'); c = I.new_obj(4, 'cuts', 'heap')
    rc = I.concretize(I.call('@verif_o5m_run', [data, len(f), c, 0, out, 1024, ol]), 'rc'); I.observe('rc', rc)
    I.call('@verif_set_summary', [0])
    if rc != 0: raise Finding('rejects-valid', 'spec-conformant o5m file rejected (rc=%d)' % rc)
    n = I.concretize(I.load(ol, i32), 'n')
    R = Reader(I, out, n)
    r1 = job['reset'] == 1; r2 = job['reset'] == 2
    def header(tcode, idv, what):
        R.expect(tcode, 'type', what + ': type'); R.expect(idv, 'delta-id', what + ': id is not the running sum of the deltas')
        R.expect(0, 'meta', what + ': version'); R.expect(1, 'meta', what + ': visible'); R.expect(0, 'meta', what + ': timestamp'); R.expect(0, 'meta', what + ': changeset'); R.expect(0, 'meta', what + ': uid'); R.string('', what + ' user')
    wsum = [d['w0'], d['w0'] + d['w1']]
    w2 = [(z3.BitVecVal(0, 64) if r1 else wsum[1]) + d['w2']]; w2.append(w2[0] + d['w3'])
    wid2 = (z3.BitVecVal(0, 64) if r1 else d['wid']) + 1
    for idv, refs, nm in ((d['wid'], wsum, 'way 1'), (wid2, w2, 'way 2')):
        header(2, idv, nm); R.expect(2, 'refs', nm + ': number of node references')
        for k, r in enumerate(refs):
            R.expect(r, 'delta-ref', '%s: node reference %d is not the running sum of the deltas%s' % (nm, k, ' (restarting after the reset marker)' if r1 else ''))
            R.expect(UNDEF32, 'refs', 'x'); R.expect(UNDEF32, 'refs', 'y')
        R.expect(0, 'tags', nm + ': tags')
    # relation ids continue the id chain of the ways (one chain for all object ids)
    rid1 = wid2 + d['rid']; rid2 = (z3.BitVecVal(0, 64) if r2 else rid1) + 1
    header(3, rid1, 'relation 1'); R.expect(3, 'members', 'relation 1: number of members')
    for (tc, ref, role) in ((1, d['m0'], b'a'), (2, d['m1'], b''), (3, d['m2'], b'c')):
        R.expect(tc, 'members', 'relation 1: member type'); R.expect(ref, 'delta-member', 'relation 1: member id is not the delta from 0 of its type'); R.string(role, 'relation 1 role')
    R.expect(0, 'tags', 'relation 1: tags')
    header(3, rid2, 'relation 2'); R.expect(3, 'members', 'relation 2: number of members')
    zero = z3.BitVecVal(0, 64)
    for (tc, base, dl, role) in ((3, d['m2'], d['m3'], b'x'), (1, d['m0'], d['m4'], b''), (2, d['m1'], d['m5'], b'z')):
        R.expect(tc, 'members', 'relation 2: member type')
        R.expect((zero if r2 else base) + dl, 'delta-member', 'relation 2: member id is not the running sum of the deltas of its member type%s' % (' (restarting after the reset marker)' if r2 else '')); R.string(role, 'relation 2 role')
    R.expect(0, 'tags', 'relation 2: tags'); R.done()
    I.reach('end')


def h_o5m_anonymous(I, job):
    """o5m author information: named user inline, reset marker, anonymous user inline (uid 0, no name), then the anonymous user by back-reference"""
    import C06
    from xmlenc import Reader
    ub = [I.named('u%d' % k, 8) for k in range(2)]; uid = I.named('uid', 7)
    for b in ub: I.assume(I.term(b, 8) != 0)
    I.assume(I.term(uid, 7) != 0)
    def node(idb, user): body = [idb, 1, 2, 2] + user + [2, 2]; return [0x10, len(body)] + body
    named = [0, z3.ZeroExt(1, I.term(uid, 7)), 0] + [I.term(b, 8) for b in ub] + [0]
    f = list(C06.O5M_HDR) + node(2, named) + ([0xff] if job['reset'] else []) + node(2, [0, 0, 0]) + node(2, [1]) + node(2, [2] if not job['reset'] else [1]) + [0xfe]
    data = I.new_obj(len(f), 'file', 'heap')
    for k, b in enumerate(f): I.store(data + k, i8, Sym(b, 8) if z3.is_expr(b) else b)
    I.call('@verif_set_summary', [2])
    out = I.new_obj(1024, 'out', 'heap'); ol = I.new_obj(4, 'ol', 'heap'); c = I.new_obj(4, 'cuts', 'heap')
    rc = I.concretize(I.call('@verif_o5m_run', [data, len(f), c, 0, out, 1024, ol]), 'rc'); I.observe('rc', rc)
    I.call('@verif_set_summary', [0])
    if rc != 0: raise Finding('rejects-valid', 'spec-conformant o5m file rejected (rc=%d)' % rc)
    R = Reader(I, out, I.concretize(I.load(ol, i32), 'n'))
    # expected users: node 1 named; node 2 anonymous (inline); node 3 anonymous (reference 1 = the anonymous entry); node 4: without reset reference 2 = the named entry, with reset reference 1 again
    users = [(z3.ZeroExt(57, I.term(uid, 7)), ub), (0, []), (0, []), ((0, []) if job['reset'] else (z3.ZeroExt(57, I.term(uid, 7)), ub))]
    for k, (u, name) in enumerate(users):
        what = 'node %d' % (k + 1)
        R.expect(1, 'type', what); R.word(); R.expect(1, 'meta', what + ': version'); R.expect(1, 'meta', what + ': visible'); R.word(); R.word()
        R.expect(u, 'uid', what + ': uid differs from the (referenced) uid / user pair')
        R.string(name, what + ' user name')
        R.word(); R.word(); R.expect(0, 'tags', what + ': tags')
    R.done()
    I.reach('end')


def h_pbf_blob(I, job):
    """Blob message: raw payload (symbolic bytes) with raw_size / unknown fields before or after it; blobs without data"""
    n = job.get('n', 3)
    pay = [I.term(I.named('p%d' % k, 8), 8) for k in range(n)]
    parts = {'R': f_bytes(1, pay), 'S': f_varint(2, n if n else 1), 'U': f_varint(9, 77), 'V': f_bytes(10, b'xy'), 'L': f_bytes(4, b'z'), 'E': f_bytes(1, []),
             'Z': f_bytes(3, [z3.simplify(b ^ 0x5a) for b in pay]), 's': f_varint(2, n + 2)}
    msg = []
    for c in job['layout']: msg += parts[c]
    buf = put(I, msg); cap = 16; out = I.new_obj(cap, 'out', 'heap'); ol = I.new_obj(4, 'ol', 'heap')
    rc = I.concretize(I.call('@verif_decode_blob', [buf, len(msg), out, cap, ol]), 'rc'); I.observe('rc', rc)
    lay = job['layout']
    first = next((c for c in lay if c in 'RLE'), None)
    if first is None and 'Z' in lay and 'S' in lay: first = 'R'           # zlib data with its raw_size, in either order
    if first == 'R':
        if rc != 0: raise Finding('rejects-valid', 'spec-conformant raw blob rejected (rc=%d)' % rc)
        k = I.concretize(I.load(ol, i32), 'len'); I.observe('len', k)
        if k != n: raise Finding('blob-payload', 'raw blob: %d payload bytes returned, %d encoded' % (k, n))
        for j in range(n): I.obligation(I.term(I.load(out + j, i8), 8) == pay[j], 'blob-payload', 'raw blob payload byte %d differs' % j)
    else:
        if rc == 0 and first != 'E': raise Finding('blob-no-data', 'blob without usable data accepted')
        if rc not in (0, 1): raise Finding('blob-no-data', 'blob without data: rc=%d (expected pbf_error)' % rc)
    I.reach('end')


KNOWN_FEATURES = (b'OsmSchema-V0.6', b'DenseNodes', b'HistoricalInformation')


def setup_header(I):
    for sfx in 'ilxjmy': I.overrides.pop('@_ZNSt7__cxx119to_stringE' + sfx, None)


def h_pbf_header(I, job):
    """HeaderBlock: required features (known ones in any order; one of symbolic bytes), optional features, writing program of symbolic bytes, unknown field"""
    gen = [I.term(I.named('g%d' % k, 8), 8) for k in range(3)]
    fl = job.get('flen', 0)
    feat = [I.term(I.named('f%d' % k, 8), 8) for k in range(fl)]
    parts = {'O': f_bytes(4, KNOWN_FEATURES[0]), 'D': f_bytes(4, KNOWN_FEATURES[1]), 'H': f_bytes(4, KNOWN_FEATURES[2]), 'X': f_bytes(4, feat),
             's': f_bytes(5, b'Sort.Type_then_ID'), 'o': f_bytes(5, b'Foo'), 'G': f_bytes(16, gen), 'U': f_varint(40, 5), 'B': f_bytes(34, b'http://x')}
    msg = []
    for c in job['layout']: msg += parts[c]
    buf = put(I, msg); cap = 256; out = I.new_obj(cap, 'out', 'heap'); ol = I.new_obj(4, 'ol', 'heap')
    rc = I.concretize(I.call('@verif_header_block', [buf, len(msg), out, cap, ol]), 'rc'); I.observe('rc', rc)
    lay = job['layout']
    if 'X' in lay:
        known = z3.Or([z3.And([feat[k] == kf[k] for k in range(fl)]) for kf in KNOWN_FEATURES if len(kf) == fl] + [z3.BoolVal(False)])
        if rc == 0: I.obligation(known, 'required-feature', 'HeaderBlock with a required feature the reader does not know is accepted (the format requires rejecting it)')
        elif rc == 1: I.obligation(z3.Not(known), 'rejects-valid', 'HeaderBlock with a known required feature rejected')
        else: raise Finding('required-feature', 'rc=%d' % rc)
        I.reach('end'); return
    if rc != 0: raise Finding('rejects-valid', 'spec-conformant HeaderBlock rejected (rc=%d)' % rc)
    exp = {}
    no = 0
    for c in lay:
        if c == 'D': exp[b'pbf_dense_nodes'] = list(b'true')
        if c in 'so':
            v = b'Sort.Type_then_ID' if c == 's' else b'Foo'
            exp[b'pbf_optional_feature_%d' % no] = list(v); no += 1
            if c == 's': exp[b'sorting'] = list(b'Type_then_ID')
        if c == 'G': exp[b'generator'] = gen
        if c == 'B': exp[b'osmosis_replication_base_url'] = list(b'http://x')
    want = []
    for k in sorted(exp): want += list(k) + [ord('=')] + exp[k] + [10]
    want += list(b'H=1\n' if 'H' in lay else b'H=0\n')
    n = I.concretize(I.load(ol, i32), 'dumplen'); I.observe('dumplen', n)
    if n != len(want): raise Finding('header-options', 'header dump has %d bytes, expected %d' % (n, len(want)))
    for j, w in enumerate(want):
        I.obligation(I.term(I.load(out + j, i8), 8) == w, 'header-options', 'header options differ from the HeaderBlock at dump byte %d' % j)
    I.reach('end')


def gen28(names):
    def g(rnd):
        return [{n: rnd.choice([0, 1, 2, 3, (1 << 28) - 1, rnd.getrandbits(28), rnd.getrandbits(10)]) for n in names} for _ in range(12)]
    return g


def harnesses(tier):
    hs = [
        Harness('pbf_length_prefix', 'decode', h_be32, desc='all 2^32 four-byte length prefixes: get_size_in_network_byte_order == big-endian value; check_size accepts exactly sizes <= 64 KiB',
                bounds='none', testgen=lambda rnd: [dict(b0=rnd.getrandbits(8), b1=rnd.getrandbits(8), b2=rnd.getrandbits(8), b3=rnd.getrandbits(8), size=rnd.choice([0, 1, 65536, 65537, rnd.getrandbits(32)])) for _ in range(20)]),
        Harness('pbf_blob_header', 'decode', h_blob_header,
                jobs=[dict(layout=l, header=h) for h in (False, True) for l in ('TD', 'DT', 'TID', 'TUD', 'UDIT', 'T', 'WD', 'DW')],
                desc='decode_blob_header: fields in any order, with indexdata and an unknown field; datasize is a symbolic 28-bit value; wrong type and missing/zero datasize must be rejected',
                bounds='datasize < 2^28, indexdata of 3 symbolic bytes', testgen=lambda rnd: [dict(datasize=rnd.choice([0, 1, 200, rnd.getrandbits(28)]), ix0=1, ix1=2, ix2=3) for _ in range(6)]),
        Harness('pbf_blob', 'blob', h_pbf_blob,
                jobs=[dict(layout=l) for l in ('R', 'SR', 'RS', 'UR', 'RU', 'VSR', 'URV', 'S', 'U', '', 'SL', 'E', 'SZ', 'ZS', 'UZVS', 'Z', 'ZU')] + [dict(layout='R', n=0), dict(layout='UR', n=7)],
                desc='decode_blob on a Blob message with a raw payload of symbolic bytes and raw_size / unknown varint / unknown bytes fields before or after it: the returned view is exactly the payload; zlib_data with raw_size in either order is uncompressed into exactly raw_size bytes; blobs with no data field, an lzma field, only raw_size, or zlib_data without raw_size are rejected with pbf_error',
                bounds='payload of 0, 3 or 7 symbolic bytes; libz uncompress() is replaced by an abstract codec with the same contract (byte-wise xor, Z_BUF_ERROR when the declared raw_size is too small)', testgen=lambda rnd: [dict(_job=j, p0=rnd.getrandbits(8), p1=rnd.getrandbits(8), p2=rnd.getrandbits(8)) for j in (0, 1, 2, 3, 4)]),
        Harness('pbf_header_block', 'blob', h_pbf_header, setup=setup_header,
                jobs=[dict(layout=l) for l in ('ODG', 'GDO', 'OHs', 'sOD', 'OosG', 'UOGU', 'OB', 'HDOsoBG', '')] + [dict(layout='OX', flen=k) for k in ((0, 5, 10, 14) if tier == 'quick' else (0, 1, 2, 3, 5, 9, 10, 11, 14, 15, 21, 22))] + [dict(layout='XD', flen=10)],
                desc='decode_header_block: required features OsmSchema-V0.6 / DenseNodes / HistoricalInformation in any order set pbf_dense_nodes and the multiple-versions flag, optional features are numbered in file order and Sort.Type_then_ID sets sorting, the writing program (symbolic bytes) becomes generator, replication base url copied, unknown fields skipped; a required feature of symbolic bytes is accepted exactly if it is one of the three known strings',
                bounds='feature strings of the listed lengths (<= 22 symbolic bytes), generator of 3 symbolic bytes; bbox (floating point) and replication timestamp (calendar) fields not in this harness',
                testgen=lambda rnd: [dict(_job=j, g0=rnd.randint(32, 126), g1=rnd.randint(32, 126), g2=rnd.randint(32, 126)) for j in (0, 1, 2, 3, 4)]),
        Harness('o5m_string_table', 'decode', h_reftable, jobs=[{'start': s} for s in (0, 1, 7000, 14998, 14999)],
                desc='o5m ReferenceTable ring law from cursor positions incl. the wrap-around: after adding A, B reference 1 = B and reference 2 = A; references 0 and > 15000 rejected; strings > 252 bytes not entered',
                bounds='5 cursor positions, strings of 3 and 2 symbolic bytes', testgen=lambda rnd: [dict(a0=1, a1=2, a2=3, b0=4, b1=5)]),
        Harness('pbf_dense_nodes', 'decode', h_dense, jobs=[dict(gran=g, layout=l) for g in (100, 1000, 1, 37) for l in ('SGgao', 'gaoSG')] + [dict(gran=100, layout='SG'), dict(gran=250, layout='USgGU')] + [dict(gran=g, layout='SGgao', meta=0) for g in (100, 250, 1, 1000)],
                desc='PBFPrimitiveBlockDecoder on a block with two dense nodes: ids/lats/lons are running sums of symbolic zig-zag deltas, coordinates follow (offset + granularity*value)/100 for symbolic offsets, several granularities and field orders, unknown fields skipped',
                bounds='2 nodes; deltas and offsets 28-bit symbolic; granularity in {1, 37, 100, 250, 1000}', testgen=gen28(['zid0', 'zid1', 'zlat0', 'zlat1', 'zlon0', 'zlon1', 'lat_offset', 'lon_offset']), wall=900),
        Harness('pbf_node_info', 'decode', h_node_info, jobs=[dict(date_gran=d, visible=v, info=i) for (d, v, i) in ((1000, None, True), (1, 1, True), (60000, 0, True), (1000, None, False))],
                desc='plain Node with Info: version/changeset/uid copied, timestamp = raw*date_granularity/1000, visible default true, user and tag from the string table; Node without Info gets default metadata',
                bounds='1 node; all numeric fields 28-bit symbolic; date_granularity in {1, 1000, 60000}', testgen=gen28(['version', 'timestamp', 'changeset', 'uid', 'zid', 'zlat', 'zlon'])),
        Harness('pbf_dense_info', 'decode', h_dense_info, jobs=[dict(date_gran=d, visible=v) for (d, v) in ((1000, 0), (1, 1), (37, 1), (60000, 0))],
                desc='two dense nodes with DenseInfo: versions copied, timestamps / changesets / uids are running sums of symbolic zig-zag deltas, timestamp = sum * date_granularity / 1000 (converted once, not per delta), visible flags, user from the string table, invisible node has no location',
                bounds='2 nodes; deltas 28-bit symbolic; date_granularity in {1, 37, 1000, 60000}', testgen=lambda rnd: [dict(t, ver0=rnd.randint(0, 9), ver1=rnd.randint(0, 9), vis1=rnd.getrandbits(1), _job=rnd.randint(0, 3)) for t in gen28(['zts0', 'zts1', 'zcs0', 'zcs1', 'zuid0', 'zuid1'])(rnd)]),
        Harness('o5m_delta_chains', 'chunk', h_o5m_deltas, jobs=[dict(reset=0), dict(reset=1)], setup=__import__('C06').setup_env,
                desc='O5mParser on a file of three nodes with symbolic zig-zag deltas for id, longitude, latitude, timestamp and changeset, author information with inline user string, with and without a reset marker before the third node: every value is the running sum of its deltas and restarts at 0 after a reset',
                bounds='3 nodes, one-byte (7-bit) zig-zag deltas', testgen=lambda rnd: [dict(_job=rnd.randint(0, 1), **{nm: rnd.randint(1, 127) for nm in ('id1', 'id2', 'id3', 'lon1', 'lon2', 'lon3', 'lat1', 'lat2', 'lat3', 'ts1', 'cs1')}) for _ in range(6)]),
        Harness('xml_discussion_content', 'xml', h_xml_discussion, jobs=[dict(n=k) for k in ((3, 5, 7) if tier == 'quick' else (2, 3, 4, 5, 6, 7, 8, 9))], setup=__import__('C03').setup_xml,
                tests=[dict(_job=0, ev0=1, ev1=2, ev2=6, ev3=6, ch0=65, ch1=66, ch2=67)],
                desc='XMLParser element callbacks on every schema-conformant event script inside <changeset> (one <discussion> with <comment>s, at most one <text> each, character data delivered in one or several pieces with symbolic bytes, <tag>s): the delivered changeset has exactly the script\'s tags and comments, each comment text being the concatenation of its character-data pieces',
                bounds='event scripts of the listed lengths (<= %d) over 7 event kinds, 3 symbolic character bytes; expat itself (tokenising, entity decoding, attribute order) is not encoded' % (7 if tier == 'quick' else 9)),
        Harness('pbf_way_relation', 'decode', h_pbf_way_relation, jobs=[dict(low=0), dict(low=1), dict(low=0, swap=1), dict(low=1, offsets=(300, 700)), dict(low=1, offsets=(1000000, 0))],
                desc='PBFPrimitiveBlockDecoder on a block with one Way (three node references as symbolic zig-zag deltas, with and without the delta-coded locations of the locations-on-ways extension, with different lat / lon offsets of the block) and one Relation (three members: symbolic member types, member ids as symbolic zig-zag deltas, roles through the string table), both with Info and a tag, groups in either order: references / member ids are the running sums, types and roles as given, metadata and tags from the string table',
                bounds='3 references / 3 members; 21-bit symbolic deltas, 14-bit symbolic ids; coordinate deltas of the way nodes concrete'),
        Harness('o5m_member_deltas', 'chunk', h_o5m_member_deltas, jobs=[dict(reset=0), dict(reset=1), dict(reset=2)], setup=__import__('C06').setup_env,
                desc='O5mParser on a file with two ways and two relations: way node references (one chain across ways) and relation member ids (one chain per member type node / way / relation) are running sums of symbolic zig-zag deltas, object ids form one chain, inline role strings; a reset marker between the ways or between the relations restarts every chain at 0',
                bounds='2 ways x 2 references, 2 relations x 3 members (one per type), one-byte (7-bit) zig-zag deltas', testgen=lambda rnd: [dict(_job=rnd.randint(0, 2), **{nm: rnd.randint(0, 127) for nm in ['w%d' % k for k in range(4)] + ['m%d' % k for k in range(6)] + ['wid', 'rid']}) for _ in range(6)]),
        Harness('o5m_anonymous_user', 'chunk', h_o5m_anonymous, jobs=[dict(reset=0), dict(reset=1)], setup=__import__('C06').setup_env,
                desc='O5mParser author information: a named uid / user pair (symbolic uid and name bytes) inline, optionally a reset marker (the string table restarts but keeps its old bytes), the anonymous pair (uid 0, no name) inline, then back-references to the pairs: a referenced anonymous pair gives uid 0 and the empty user name, a referenced named pair gives its uid and name',
                bounds='4 nodes, 2 symbolic name bytes, 7-bit uid', testgen=lambda rnd: [dict(_job=rnd.randint(0, 1), u0=rnd.randint(1, 255), u1=rnd.randint(1, 255), uid=rnd.randint(1, 127)) for _ in range(4)]),
        Harness('xml_objects', 'xml', h_xml_objects, mode='INT', setup=__import__('C03').setup_xml, wall=900,
                jobs=[dict(kind='node'), dict(kind='way'), dict(kind='relation'), dict(kind='node', section='delete'), dict(kind='way', section='modify')] + ([] if tier == 'quick' else [dict(kind='relation', section='delete'), dict(kind='node', section='create'), dict(kind='relation', section='modify'), dict(kind='way', section='delete')]),
                tests=[dict(_job=0, id0=49, id1=50, ver=51, uid0=52, uid1=53, cs0=54, cs1=55, negid=0, visible=1, latd=56, order=0)],
                desc='XMLParser element callbacks on a node / way / relation (with nd / member / tag children) inside <osm> or an <osmChange> create / modify / delete section: the metadata attributes arrive in a symbolic choice among 2n orders (identity, reversed, rotations, adjacent swaps) with an unknown attribute in between, numeric attributes have symbolic digits, ids may be negative, member types n / w / r: every delivered field equals the attribute, objects in <delete> are invisible, change files are flagged',
                bounds='one object per script; two-digit ids / uids / changesets / refs, one-digit version and latitude digit; expat (tokenising, entities, encoding) is not encoded'),
        Harness('xml_bounds', 'xml', h_xml_bounds, setup=__import__('C03').setup_xml,
                desc='<bounds minlat minlon maxlat maxlon> in 8 attribute orders with symbolic digits: the header gets exactly that box', bounds='one bounds element'),
    ]
    return hs
