"""C15 — id sets, relation maps and the item stash match their set/map models (E2, BV mode; one-step for IdSetDense)"""
import z3
from fw import Harness
from llsym import Finding, Sym
from irparse import IntTy
i8, i32, i64 = IntTy(8), IntTy(32), IntTy(64)
NCH = 3                      # chunks in the pre-state skeleton (chunk = 4 bytes = 32 ids with chunk_bits = 2)
OPS = {0: 'set', 1: 'unset', 2: 'check_and_set', 3: 'get', 4: 'clear', 5: 'copy', 6: 'move'}


def popcount(t):
    return z3.Sum([z3.ZeroExt(31, z3.Extract(k, k, t)) for k in range(t.size())]) if t.size() > 1 else z3.ZeroExt(31, t)


def h_idset_step(I, job):
    """one operation with a symbolic id from an arbitrary valid state: chunk skeleton per job, chunk contents symbolic, size = number of set bits"""
    W = job['width']; op = job['op']; skel = job['skeleton']; idw = 32 if W == 32 else 64
    fn = '@verif_idset%d' % W
    contents = I.new_obj(4 * NCH, 'contents', 'heap'); cb = []
    for c in range(NCH):
        for k in range(4):
            b = I.named('c%d_%d' % (c, k), 8) if (skel >> c) & 1 else 0
            cb.append(b); I.store(contents + 4 * c + k, i8, b)
    bit = lambda c, k, j: z3.Extract(j, j, I.term(cb[4 * c + k], 8)) == 1      # id 32c + 8k + j
    size0 = z3.Sum([z3.If(bit(c, k, j), z3.BitVecVal(1, idw), z3.BitVecVal(0, idw)) for c in range(NCH) for k in range(4) for j in range(8) if (skel >> c) & 1] + [z3.BitVecVal(0, idw)])
    size0 = z3.simplify(size0)
    nch_pre = job['nchunks']
    idv = I.named('id', idw); idt = I.term(idv, idw)
    I.assume(z3.ULT(idt, 32 * (NCH + 1)))                   # one chunk beyond the skeleton: growth included
    after = I.new_obj(32, 'after', 'heap'); present = I.new_obj(4, 'present', 'heap'); sz = I.new_obj(8, 'size', 'heap'); ni = I.new_obj(4, 'ni', 'heap')
    for k in range(32): I.store(after + k, i8, 0)
    size_arg = Sym(size0, idw) if z3.is_expr(size0) and not z3.is_bv_value(size0) else z3.simplify(size0).as_long()
    ret = I.call(fn, [skel & ((1 << nch_pre) - 1), nch_pre, contents, size_arg, op, idv, after, present, sz, 0, 0, ni])
    I.observe('ret', ret)
    pres = I.concretize(I.load(present, i32), 'present'); I.observe('present', pres)
    was = z3.Or([z3.And(idt == 32 * c + 8 * k + j, bit(c, k, j)) for c in range(NCH) for k in range(4) for j in range(8) if (skel >> c) & 1 and c < nch_pre] + [z3.BoolVal(False)])
    size1 = I.term(I.load(sz, IntTy(idw)), idw)
    def member_after(c, k, j):
        """membership of id 32c+8k+j in the result, from the dumped chunks"""
        if not (pres >> c) & 1: return z3.BoolVal(False)
        return z3.Extract(j, j, I.term(I.load(after + 4 * c + k, i8), 8)) == 1
    def member_before(c, k, j):
        if not ((skel >> c) & 1 and c < nch_pre): return z3.BoolVal(False)
        return bit(c, k, j)
    for c in range(NCH + 1):
        for k in range(4):
            for j in range(8):
                x = 32 * c + 8 * k + j
                before = member_before(c, k, j) if c < NCH else z3.BoolVal(False)
                if op in (0, 2): want = z3.Or(before, idt == x)
                elif op == 1: want = z3.And(before, idt != x)
                elif op == 4: want = z3.BoolVal(False)
                else: want = before
                I.obligation(member_after(c, k, j) == want, 'membership', '%s: membership of an id differs from the set model afterwards' % OPS[op])
    if op in (0, 2): I.obligation(size1 == size0 + z3.If(was, z3.BitVecVal(0, idw), z3.BitVecVal(1, idw)), 'size', '%s: size() differs from the model' % OPS[op])
    elif op == 1: I.obligation(size1 == size0 - z3.If(was, z3.BitVecVal(1, idw), z3.BitVecVal(0, idw)), 'size', 'unset: size() differs from the model')
    elif op == 4: I.obligation(size1 == 0, 'size', 'clear: size() not zero')
    else: I.obligation(size1 == size0, 'size', '%s: size() changed' % OPS[op])
    if op == 2: I.obligation((I.term(ret, 32) == 1) == z3.Not(was), 'return', 'check_and_set: return value is not "was absent"')
    if op == 3: I.obligation((I.term(ret, 32) == 1) == was, 'return', 'get: result differs from membership')
    I.reach('end')


def h_idset_iter(I, job):
    """iteration from a state with two set bits at symbolic positions (chunk borders and gaps included): ascending list of exactly the members"""
    W = job['width']; idw = W; skel = job['skeleton']; nch = job['nchunks']
    p = [I.named('p%d' % k, 8) for k in range(2)]
    for x in p: I.assume(z3.ULT(I.term(x, 8), 32 * nch))
    for x in p: I.assume(z3.Or([z3.And(z3.UGE(I.term(x, 8), 32 * c), z3.ULT(I.term(x, 8), 32 * c + 32)) for c in range(nch) if (skel >> c) & 1]))
    I.assume(z3.ULE(I.term(p[0], 8), I.term(p[1], 8)))
    contents = I.new_obj(4 * NCH, 'contents', 'heap')
    for c in range(NCH):
        for k in range(4):
            base = 32 * c + 8 * k
            v = z3.BitVecVal(0, 8)
            for x in p:
                t = I.term(x, 8)
                v = v | z3.If(z3.And(z3.UGE(t, base), z3.ULT(t, base + 8)), z3.BitVecVal(1, 8) << (t - base), z3.BitVecVal(0, 8))
            I.store(contents + 4 * c + k, i8, Sym(z3.simplify(v), 8) if (skel >> c) & 1 else 0)
    distinct = I.decide(Sym(I.term(p[0], 8) != I.term(p[1], 8), 1), 'distinct')
    n = 2 if distinct else 1
    after = I.new_obj(32, 'after', 'heap'); present = I.new_obj(4, 'present', 'heap'); sz = I.new_obj(8, 'size', 'heap'); ni = I.new_obj(4, 'ni', 'heap')
    it = I.new_obj(8 * 8, 'iter', 'heap')
    I.call('@verif_idset%d' % W, [skel, nch, contents, n, 7, 0, after, present, sz, it, 8, ni])
    k = I.concretize(I.load(ni, i32), 'niter'); I.observe('niter', k)
    if k != n: raise Finding('iteration', 'iteration yields %d ids, the set has %d' % (k, n))
    esz = W // 8
    for j in range(n):
        got = I.load(it + esz * j, IntTy(W))
        I.obligation(I.term(got, W) == z3.ZeroExt(W - 8, I.term(p[j if distinct else 0], 8)), 'iteration', 'iteration does not yield the members in ascending order')
    I.reach('end')


def h_small(I, job):
    n = job['n']
    mem = I.new_obj(8 * n, 'ids', 'heap'); ids = []
    for k in range(n):
        v = I.named('id%d' % k, 64); ids.append(I.term(v, 64)); I.store(mem + 8 * k, i64, v)
    probe = I.named('probe', 64); pt = I.term(probe, 64)
    out = I.new_obj(8 * n, 'out', 'heap'); f1 = I.new_obj(4, 'f1', 'heap'); f2 = I.new_obj(4, 'f2', 'heap')
    cnt = I.concretize(I.call('@verif_idset_small', [mem, n, job['sort'], probe, out, n, f1, f2]), 'count'); I.observe('count', cnt)
    member = z3.Or([pt == x for x in ids])
    I.obligation((I.term(I.load(f1, i32), 32) == 1) == member, 'membership', 'IdSetSmall::get differs from the set model')
    outs = [I.term(I.load(out + 8 * k, i64), 64) for k in range(min(cnt, n))]
    for x in ids: I.obligation(z3.Or(outs + [z3.BoolVal(False)]) if False else z3.Or([o == x for o in outs]), 'iteration', 'an id that was set is missing from the iteration')
    for o in outs: I.obligation(z3.Or([o == x for x in ids]), 'iteration', 'iteration yields an id that was never set')
    if job['sort']:
        I.obligation((I.term(I.load(f2, i32), 32) == 1) == member, 'membership', 'get_binary_search after sort_unique differs from the set model')
        for a, b in zip(outs, outs[1:]): I.obligation(z3.ULT(a, b), 'iteration', 'after sort_unique the ids are not strictly ascending')
    I.reach('end')


def h_relmap(I, job):
    N = job['n']; which = job['which']
    mem = I.new_obj(8 * N, 'mem', 'heap'); par = I.new_obj(8 * N, 'par', 'heap'); out = I.new_obj(8 * 8, 'out', 'heap')
    ms = [I.named('m%d' % k, 64) for k in range(N)]; ps = [I.named('p%d' % k, 64) for k in range(N)]
    for k in range(N): I.store(mem + 8 * k, i64, ms[k]); I.store(par + 8 * k, i64, ps[k])
    probe = I.named('probe', 64); pt = I.term(probe, 64)
    cnt = I.concretize(I.call('@verif_relmap', [mem, par, N, which, probe, out, 8]), 'count'); I.observe('count', cnt)
    outs = [I.term(I.load(out + 8 * j, i64), 64) for j in range(min(cnt, 8))]
    by_member = which in (0, 2)
    key = (lambda k: I.term(ms[k], 64)) if by_member else (lambda k: I.term(ps[k], 64))
    val = (lambda k: I.term(ps[k], 64)) if by_member else (lambda k: I.term(ms[k], 64))
    for j, o in enumerate(outs):
        I.obligation(z3.Or([z3.And(key(k) == pt, val(k) == o) for k in range(N)]), 'spurious', 'lookup returns an id that was never recorded for this key')
        for j2 in range(j): I.obligation(outs[j2] != o, 'duplicate', 'lookup returns the same id twice')
    for k in range(N):
        I.obligation(z3.Implies(key(k) == pt, z3.Or([val(k) == o for o in outs]) if outs else z3.BoolVal(False)), 'missing', 'a recorded pair is missing from the lookup')
    I.reach('end')


def h_stash(I, job):
    n = job['n']
    idm = I.new_obj(8 * (n + 1), 'ids', 'heap'); ids = []
    for k in range(n + 1):
        v = I.named('id%d' % k, 64); ids.append(v); I.store(idm + 8 * k, i64, v)
    m1 = I.concretize(I.named('mask1', n), 'mask1'); m2 = I.concretize(I.named('mask2', n + 1), 'mask2')
    ul = I.concretize(I.named('ulen', 3), 'ulen')
    gi = I.new_obj(8 * (n + 1), 'got_ids', 'heap'); gs = I.new_obj(4 * (n + 1), 'got_sizes', 'heap'); cn = I.new_obj(24, 'counts', 'heap')
    I.call('@verif_stash', [n, idm, ul, m1, job['gc1'], m2, job['gc2'], gi, gs, cn])
    live = [k for k in range(n + 1) if not ((m1 | m2) >> k) & 1]
    pad = lambda x: (x + 7) // 8 * 8
    size_of = lambda k: 40 + pad(2 + (ul + 3 * k if k < n else ul + 1) + 1)       # sizeof(Node) + padded user field
    for k in live:
        I.obligation(I.icmp('eq', 64, I.load(gi + 8 * k, i64), ids[k]), 'handle', 'handle %d resolves to a different object' % k)
        s = I.concretize(I.load(gs + 4 * k, i32), 'size')
        if s != size_of(k): raise Finding('handle', 'handle %d resolves to an item of size %d, expected %d' % (k, s, size_of(k)))
    items = I.concretize(I.load(cn, i64), 'items'); removed = I.concretize(I.load(cn + 8, i64), 'removed'); committed = I.concretize(I.load(cn + 16, i64), 'committed')
    I.observe('counts', (items, removed, committed))
    if items != len(live): raise Finding('count', 'size() is %d, %d items are live' % (items, len(live)))
    if job['gc2']:
        if removed != 0: raise Finding('gc', 'count_removed() is %d after garbage collection' % removed)
        if committed != sum(size_of(k) for k in live): raise Finding('gc', 'buffer holds %d bytes after garbage collection, live items need %d' % (committed, sum(size_of(k) for k in live)))
    I.reach('end')


def gen_rel(N):
    def g(rnd):
        vals = [1, 2, 7, (1 << 32) + 7, (1 << 32) - 1, 1 << 32, (1 << 40) + 1]
        out = []
        for _ in range(12):
            d = {}
            for k in range(N): d['m%d' % k] = rnd.choice(vals); d['p%d' % k] = rnd.choice(vals)
            d['probe'] = rnd.choice(vals); out.append(d)
        return out
    return g


def harnesses(tier):
    q = tier == 'quick'
    hs = []
    skels = [(0b101, 3), (0b011, 2), (0b000, 0)] if q else [(0b101, 3), (0b011, 2), (0b000, 0), (0b111, 3), (0b100, 3), (0b001, 1)]
    for W in (32, 64):
        hs.append(Harness('idset_dense_step_%d' % W, 'idx', h_idset_step, jobs=[dict(width=W, op=op, skeleton=s, nchunks=n) for op in OPS for (s, n) in skels],
                          desc='IdSetDense<uint%d_t, chunk_bits=2>: one set/unset/check_and_set/get/clear/copy/move with a symbolic id (growth by one chunk included) from an arbitrary valid state (chunk skeleton per job, chunk contents symbolic, size = number of set bits): membership of all 128 ids, size() and return value equal the set model' % W,
                          bounds='states of up to 3 chunks of 32 ids (chunk_bits = 2), skeletons %s; ids < 128' % [bin(s) for s, _ in skels], sanitize=True,
                          testgen=lambda rnd: [dict(_job=0, id=rnd.randint(0, 127), **{'c%d_%d' % (c, k): rnd.getrandbits(8) for c in (0, 2) for k in range(4)}) for _ in range(8)]))
    hs.append(Harness('idset_dense_iter', 'idx', h_idset_iter, jobs=[dict(width=W, skeleton=s, nchunks=n) for W in (32, 64) for (s, n) in ((0b101, 3), (0b011, 2))],
                      desc='iteration over IdSetDense from states with one or two members at symbolic positions (first/last bit of a chunk, across an unallocated chunk): exactly the members, ascending',
                      bounds='up to 3 chunks, at most 2 members', testgen=lambda rnd: [dict(p0=0, p1=95), dict(p0=31, p1=64), dict(p0=5, p1=5)]))
    hs.append(Harness('idset_small', 'idx', h_small, jobs=[dict(n=3, sort=s) for s in (0, 1)], desc='IdSetSmall: set x3 with symbolic 64-bit ids (+ sort_unique): get / get_binary_search / iteration equal the set model',
                      bounds='3 insertions', testgen=lambda rnd: [dict(id0=rnd.randint(0, 3), id1=rnd.randint(0, 3), id2=rnd.randint(0, 3), probe=rnd.randint(0, 3)) for _ in range(8)]))
    N = 3
    hs.append(Harness('relations_map', 'idx', h_relmap, jobs=[dict(n=N, which=w) for w in range(4)], testgen=gen_rel(N),
                      desc='RelationsMapStash::add x%d with symbolic 64-bit (member, parent) pairs (mixes of ids below and above 2^32), each index builder, lookup of a symbolic id: exactly the recorded values, no duplicates' % N,
                      bounds='%d pairs' % N, wall=900))
    hs.append(Harness('item_stash', 'idx', h_stash, jobs=[dict(n=3, gc1=a, gc2=b) for a in (0, 1, 2) for b in (0, 1)],
                      desc='ItemStash: add 3 items of different sizes, remove any subset, optional garbage_collect, add another, remove any subset, optional garbage_collect: every live handle resolves to its unchanged item, counts and reclaimed space match',
                      bounds='4 items, all removal subsets, 2 collection points (explicit, or triggered inside add_item by raising the removal counter past its threshold)', testgen=lambda rnd: [dict(id0=1, id1=2, id2=3, id3=4, mask1=rnd.getrandbits(3), mask2=rnd.getrandbits(4), ulen=rnd.getrandbits(3)) for _ in range(8)], sanitize=True))
    return hs
