"""C11 — relation managers complete each relation exactly once with all its members (E2, BV mode; the databases under the manager)"""
import z3
from fw import Harness
from llsym import Finding, Sym
from irparse import IntTy
i8, i32, i64 = IntTy(8), IntTy(32), IntTy(64)


def h_relations(I, job):
    nrel, mper, nn = job['nrel'], job['mper'], job['nodes']
    IDS = job['idset']
    def small(name):
        v = I.named(name, 8); I.assume(z3.Or([I.term(v, 8) == (x & 0xff) for x in IDS])); c = I.concretize(v, name); return c - 256 if c >= 128 else c        # ids are small signed numbers (negative ids occur in editor files)
    nm = I.new_obj(4 * nrel, 'nmem', 'heap'); rf = I.new_obj(8 * nrel * mper, 'refs', 'heap'); rels = []
    for r in range(nrel):
        cnt = I.named('nmem%d' % r, 8); I.assume(z3.And(z3.UGE(I.term(cnt, 8), 1), z3.ULE(I.term(cnt, 8), mper))); cnt = I.concretize(cnt, 'nmem')
        I.store(nm + 4 * r, i32, cnt); ms = []
        for k in range(mper):
            x = small('ref%d_%d' % (r, k)) if k < cnt else 0
            I.store(rf + 8 * (r * mper + k), i64, x & ((1 << 64) - 1))
            if k < cnt: ms.append(x)
        rels.append(ms)
    im = I.new_obj(8 * nn, 'ids', 'heap'); stream = []
    for k in range(nn):
        x = small('node%d' % k)
        if stream and x <= stream[-1]: from llsym import PathEnd; raise PathEnd()        # member objects arrive sorted by id, each id once (no history files)
        I.store(im + 8 * k, i64, x & ((1 << 64) - 1)); stream.append(x)
    log = I.new_obj(8 * 96, 'log', 'heap')
    n = I.concretize(I.call('@verif_relations', [nrel, nm, mper, rf, nn, im, log, 96]), 'n')
    got = [I.concretize(I.load(log + 8 * k, i64), 'w') for k in range(min(n, 96))]
    got = [g - (1 << 64) if g >> 63 else g for g in got]
    I.observe('log', tuple(got))
    # ---- set-based model of the same history
    need = [dict() for _ in rels]                       # per relation: member id -> number of references not yet satisfied
    for r, ms in enumerate(rels):
        for x in ms: need[r][x] = need[r].get(x, 0) + 1
    alive = [True] * nrel; users = {}                   # member id -> number of live references
    for r, ms in enumerate(rels):
        for x in ms: users[x] = users.get(x, 0) + 1
    have = set(); exp = []
    for pos, x in enumerate(stream):
        if users.get(x, 0) == 0 and x not in [m for r, ms in enumerate(rels) if alive[r] for m in ms]: continue
        have.add(x)
        done_now = []
        for r in range(nrel):
            if alive[r] and x in need[r] and need[r][x] > 0:
                need[r][x] = 0 if False else need[r][x]
        # each reference to x is satisfied once per arrival of x
        for r in range(nrel):
            if alive[r] and need[r].get(x, 0) > 0:
                need[r][x] = 0
                if all(v == 0 for v in need[r].values()): done_now.append(r)
        for r in done_now:
            exp += [1, 100 + r, pos]
            for m in rels[r]: exp += [2, m, m]
            for m in rels[r]: users[m] -= 1
            alive[r] = False
    lookups = []
    seen = []
    for x in stream:
        if x in seen: continue
        seen.append(x)
        present = x in have and users.get(x, 0) > 0
        lookups += [3, x, 1 if present else 0]
    def norm(words):
        """completion records (with their member lookups) that happen at the same stream position are compared as a set"""
        recs = []; j = 0
        while j < len(words) and words[j] == 1:
            r = [tuple(words[j:j + 3])]; j += 3
            while j < len(words) and words[j] == 2: r.append(tuple(words[j:j + 3])); j += 3
            recs.append(tuple(r))
        recs.sort(key=lambda r: (r[0][2], r[0][1]))
        return recs, words[j:]
    exp_prefix = exp + lookups
    g_recs, g_rest = norm(got[:len(exp_prefix)]); e_recs, e_rest = norm(exp_prefix)
    if g_recs != e_recs:
        raise Finding('relations', 'completions differ from the set-based model of the same history (which relations complete, when, exactly once, with every member retrievable)')
    if g_rest != e_rest:
        raise Finding('relations', 'lookups after the stream differ from the model: a member must be available while a relation still needs it and absent after its last user was completed')
    if len(got) != len(exp_prefix) + 5 or got[len(exp_prefix)] != 4: raise Finding('relations', 'malformed log tail')
    left = got[len(exp_prefix) + 1]
    if left != sum(alive): raise Finding('relations', '%d relations left in the database, %d are incomplete' % (left, sum(alive)))
    I.reach('end')


def harnesses(tier):
    q = tier == 'quick'
    return [
        Harness('relations_members_db', 'reldb', h_relations, jobs=[dict(nrel=2, mper=2, nodes=3, idset=(1, 2, 3), dups_ok=False), dict(nrel=2, mper=2, nodes=3, idset=(-2, -1, 3), dups_ok=False)] + ([] if q else [dict(nrel=2, mper=3, nodes=4, idset=(1, 2, 3, 4), dups_ok=False)]),
                desc='RelationsDatabase + MembersDatabase<Node> + ItemStash driven like RelationsManager: 2 relations with 1-2 node references each (ids symbolic over a small set: shared, duplicate and missing members all occur), a sorted stream of 3 distinct nodes: each complete relation is reported exactly once at its last member with all members retrievable; members stay available while another relation needs them and are reported absent afterwards; incomplete relations stay in the database',
                bounds='2 relations x <= 2 members, 3 stream nodes, ids in {1,2,3} and in {-2,-1,3} (negative ids)', sanitize=True, wall=900,
                testgen=lambda rnd: [dict(nmem0=2, nmem1=1, ref0_0=1, ref0_1=2, ref1_0=2, node0=1, node1=2, node2=3)]),
    ]
