"""C11 — relation managers complete each relation exactly once with all its members (E2, BV mode; the databases under the manager)"""
import z3
from fw import Harness
from llsym import Finding, Sym
from irparse import IntTy
i8, i32, i64 = IntTy(8), IntTy(32), IntTy(64)


def h_relations(I, job):
    nrel, mper, nn = job['nrel'], job['mper'], job['nodes']
    IDS = job['idset']
    def small(name):
        v = I.named(name, 8); I.assume(z3.Or([I.term(v, 8) == (x & 0xff) for x in IDS])); c = I.concretize(v, name); return c - 256 if c >= 128 else c        # ids are small signed numbers (negative ids occur in editor files)
    nm = I.new_obj(4 * nrel, 'nmem', 'heap'); rf = I.new_obj(8 * nrel * mper, 'refs', 'heap'); rels = []
    for r in range(nrel):
        cnt = I.named('nmem%d' % r, 8); I.assume(z3.And(z3.UGE(I.term(cnt, 8), 1), z3.ULE(I.term(cnt, 8), mper))); cnt = I.concretize(cnt, 'nmem')
        I.store(nm + 4 * r, i32, cnt); ms = []
        for k in range(mper):
            x = small('ref%d_%d' % (r, k)) if k < cnt else 0
            I.store(rf + 8 * (r * mper + k), i64, x & ((1 << 64) - 1))
            if k < cnt: ms.append(x)
        rels.append(ms)
    im = I.new_obj(8 * nn, 'ids', 'heap'); stream = []
    for k in range(nn):
        x = small('node%d' % k)
        if stream and x <= stream[-1]: from llsym import PathEnd; raise PathEnd()        # member objects arrive sorted by id, each id once (no history files)
        I.store(im + 8 * k, i64, x & ((1 << 64) - 1)); stream.append(x)
    log = I.new_obj(8 * 96, 'log', 'heap')
    n = I.concretize(I.call('@verif_relations', [nrel, nm, mper, rf, nn, im, log, 96]), 'n')
    got = [I.concretize(I.load(log + 8 * k, i64), 'w') for k in range(min(n, 96))]
    got = [g - (1 << 64) if g >> 63 else g for g in got]
    I.observe('log', tuple(got))
    # ---- set-based model of the same history
    need = [dict() for _ in rels]                       # per relation: member id -> number of references not yet satisfied
    for r, ms in enumerate(rels):
        for x in ms: need[r][x] = need[r].get(x, 0) + 1
    alive = [True] * nrel; users = {}                   # member id -> number of live references
    for r, ms in enumerate(rels):
        for x in ms: users[x] = users.get(x, 0) + 1
    have = set(); exp = []
    for pos, x in enumerate(stream):
        if users.get(x, 0) == 0 and x not in [m for r, ms in enumerate(rels) if alive[r] for m in ms]: continue
        have.add(x)
        done_now = []
        for r in range(nrel):
            if alive[r] and x in need[r] and need[r][x] > 0:
                need[r][x] = 0 if False else need[r][x]
        # each reference to x is satisfied once per arrival of x
        for r in range(nrel):
            if alive[r] and need[r].get(x, 0) > 0:
                need[r][x] = 0
                if all(v == 0 for v in need[r].values()): done_now.append(r)
        for r in done_now:
            exp += [1, 100 + r, pos]
            for m in rels[r]: exp += [2, m, m]
            for m in rels[r]: users[m] -= 1
            alive[r] = False
    lookups = []
    seen = []
    for x in stream:
        if x in seen: continue
        seen.append(x)
        present = x in have and users.get(x, 0) > 0
        lookups += [3, x, 1 if present else 0]
    def norm(words):
        """completion records (with their member lookups) that happen at the same stream position are compared as a set"""
        recs = []; j = 0
        while j < len(words) and words[j] == 1:
            r = [tuple(words[j:j + 3])]; j += 3
            while j < len(words) and words[j] == 2: r.append(tuple(words[j:j + 3])); j += 3
            recs.append(tuple(r))
        recs.sort(key=lambda r: (r[0][2], r[0][1]))
        return recs, words[j:]
    exp_prefix = exp + lookups
    g_recs, g_rest = norm(got[:len(exp_prefix)]); e_recs, e_rest = norm(exp_prefix)
    if g_recs != e_recs:
        raise Finding('relations', 'completions differ from the set-based model of the same history (which relations complete, when, exactly once, with every member retrievable)')
    if g_rest != e_rest:
        raise Finding('relations', 'lookups after the stream differ from the model: a member must be available while a relation still needs it and absent after its last user was completed')
    if len(got) != len(exp_prefix) + 5 or got[len(exp_prefix)] != 4: raise Finding('relations', 'malformed log tail')
    left = got[len(exp_prefix) + 1]
    if left != sum(alive): raise Finding('relations', '%d relations left in the database, %d are incomplete' % (left, sum(alive)))
    I.reach('end')


def h_relmgr(I, job):
    """the RelationsManager layer: relations with node and way members (types and refs symbolic over small sets), interest predicates, both member streams"""
    nrel, mper = job['nrel'], job['mper']; nodes, ways = list(job['nodes']), list(job['ways']); skip = job.get('skip', -1); unw = job.get('unwanted', 0)
    IDS = job['idset']
    nm = I.new_obj(4 * nrel, 'nmem', 'heap'); ty = I.new_obj(4 * nrel * mper, 'types', 'heap'); rf = I.new_obj(8 * nrel * mper, 'refs', 'heap'); rels = []
    for r in range(nrel):
        cnt = I.named('nmem%d' % r, 8); I.assume(z3.And(z3.UGE(I.term(cnt, 8), 1), z3.ULE(I.term(cnt, 8), mper))); cnt = I.concretize(cnt, 'nmem')
        I.store(nm + 4 * r, i32, cnt); ms = []
        for k in range(mper):
            t, x = 1, 0
            if k < cnt:
                tv = I.named('type%d_%d' % (r, k), 8); I.assume(z3.Or(I.term(tv, 8) == 1, I.term(tv, 8) == 2)); t = I.concretize(tv, 'type')
                xv = I.named('ref%d_%d' % (r, k), 8); I.assume(z3.Or([I.term(xv, 8) == i for i in IDS])); x = I.concretize(xv, 'ref')
                ms.append((t, x))
            I.store(ty + 4 * (r * mper + k), i32, t); I.store(rf + 8 * (r * mper + k), i64, x)
        rels.append(ms)
    na = I.new_obj(8 * max(len(nodes), 1), 'nids', 'heap'); wa = I.new_obj(8 * max(len(ways), 1), 'wids', 'heap')
    for k, x in enumerate(nodes): I.store(na + 8 * k, i64, x)
    for k, x in enumerate(ways): I.store(wa + 8 * k, i64, x)
    cap = 160; log = I.new_obj(8 * cap, 'log', 'heap')
    n = I.concretize(I.call('@verif_relmgr', [nrel, nm, mper, ty, rf, skip & ((1 << 64) - 1), unw, len(nodes), na, len(ways), wa, log, cap]), 'n')
    if n > cap: raise Finding('relmgr', 'log overflow (%d words)' % n)
    got = [I.concretize(I.load(log + 8 * k, i64), 'w') for k in range(n)]
    got = [g - (1 << 64) if g >> 63 else g for g in got]
    I.observe('log', tuple(got))
    # ---- set-based model of the same history
    wanted = [[not ((unw >> (r * mper + k)) & 1) for k in range(len(ms))] for r, ms in enumerate(rels)]
    alive = [100 + r != skip for r in range(nrel)]
    need = [set(m for k, m in enumerate(ms) if wanted[r][k]) if alive[r] else set() for r, ms in enumerate(rels)]
    tracked = set().union(*need) if need else set()
    users = {}
    for r, ms in enumerate(rels):
        if alive[r]:
            for k, m in enumerate(ms):
                if wanted[r][k]: users[m] = users.get(m, 0) + 1
    events = []; have = set()
    for r in range(nrel):                               # a relation of interest none of whose members is wanted: never completed by a member arrival
        pass
    for phase, stream in ((1, nodes), (2, ways)):
        for pos, x in enumerate(stream):
            m = (phase, x)
            if m not in tracked: events.append(('notin', phase, x)); continue
            have.add(m); done = []
            for r in range(nrel):
                if alive[r] and m in need[r]:
                    need[r].discard(m)
                    if not need[r]: done.append(r)
            for r in done:
                rec = [(100 + r, phase * 100 + pos)]
                for k, mm in enumerate(rels[r]): rec.append((mm[0], mm[1], mm[1]) if wanted[r][k] else (mm[0], 0, -2))
                events.append(('done', tuple(rec)))
                for k, mm in enumerate(rels[r]):
                    if wanted[r][k]: users[mm] -= 1
                alive[r] = False
    incomplete = sorted(100 + r for r in range(nrel) if alive[r])
    lookups = [(t, x, 1 if ((t, x) in have and users.get((t, x), 0) > 0) else 0) for t, stream in ((1, nodes), (2, ways)) for x in stream]
    # ---- parse the log
    j = 0; g_events = []
    while j < len(got) and got[j] in (1, 5):
        if got[j] == 5: g_events.append(('notin', got[j + 1], got[j + 2])); j += 3; continue
        rec = [(got[j + 1], got[j + 2])]; j += 3
        while j < len(got) and got[j] == 2: rec.append((got[j + 1], got[j + 2], got[j + 3])); j += 4
        g_events.append(('done', tuple(rec)))
    def canon(ev):
        """completions at the same stream position are compared as a set; everything else in stream order"""
        out = []; group = []
        for e in ev:
            if e[0] == 'done': group.append(e)
            else: out += sorted(group); group = []; out.append(e)
        return out + sorted(group)
    if canon(g_events) != canon(events):
        raise Finding('relmgr', 'completion / not-in-any-relation callbacks differ from the set-based model of the same history (which relations complete, when, exactly once, wanted members retrievable, unwanted members marked)')
    g_inc = []
    while j < len(got) and got[j] == 6: g_inc.append(got[j + 1]); j += 2
    if sorted(g_inc) != incomplete or len(set(g_inc)) != len(g_inc):
        raise Finding('relmgr', 'for_each_incomplete_relation lists %r, the relations with missing members are %r' % (g_inc, incomplete))
    g_look = []
    while j < len(got) and got[j] == 3: g_look.append((got[j + 1], got[j + 2], got[j + 3])); j += 4
    if g_look != lookups:
        raise Finding('relmgr', 'member lookups after the streams differ from the model: available while a relation still needs the member, absent after its last user was completed')
    if got[j:] != [4, len(incomplete)]: raise Finding('relmgr', 'relations left in the database: log tail %r, %d incomplete' % (got[j:], len(incomplete)))
    I.reach('end')


def harnesses(tier):
    q = tier == 'quick'
    return [
        Harness('relations_members_db', 'reldb', h_relations, jobs=[dict(nrel=2, mper=2, nodes=3, idset=(1, 2, 3), dups_ok=False), dict(nrel=2, mper=2, nodes=3, idset=(-2, -1, 3), dups_ok=False)] + ([] if q else [dict(nrel=2, mper=3, nodes=4, idset=(1, 2, 3, 4), dups_ok=False)]),
                desc='RelationsDatabase + MembersDatabase<Node> + ItemStash driven like RelationsManager: 2 relations with 1-2 node references each (ids symbolic over a small set: shared, duplicate and missing members all occur), a sorted stream of 3 distinct nodes: each complete relation is reported exactly once at its last member with all members retrievable; members stay available while another relation needs them and are reported absent afterwards; incomplete relations stay in the database',
                bounds='2 relations x <= 2 members, 3 stream nodes, ids in {1,2,3} and in {-2,-1,3} (negative ids)', sanitize=True, wall=900,
                testgen=lambda rnd: [dict(nmem0=2, nmem1=1, ref0_0=1, ref0_1=2, ref1_0=2, node0=1, node1=2, node2=3)]),
        Harness('relations_manager', 'relmgr', h_relmgr,
                jobs=[dict(nrel=2, mper=2, idset=(1, 2), nodes=(1, 2), ways=(1, 3)), dict(nrel=2, mper=2, idset=(1, 2), nodes=(2, 3), ways=(2,), unwanted=2),
                      dict(nrel=2, mper=2, idset=(1, 2), nodes=(1, 2), ways=(1, 2), skip=101)] + ([] if q else [dict(nrel=2, mper=2, idset=(1, 2, 3), nodes=(1, 3), ways=(2, 3), unwanted=4), dict(nrel=3, mper=2, idset=(1, 2), nodes=(1, 2), ways=(2,)), dict(nrel=2, mper=3, idset=(1, 2), nodes=(1, 2), ways=(1, 2), unwanted=1)]),
                desc='RelationsManager<.., nodes, ways> itself (relation() with new_relation / new_member predicates and set_ref(0) marking, prepare_for_lookup, SecondPassHandler node / way / flush, handle_complete_relation, *_not_in_any_relation, for_each_incomplete_relation): relations with 1-2 members whose types (node / way) and ids are symbolic over a small set, fixed sorted node and way streams with missing and unrelated ids: every callback, the member objects retrievable inside complete_relation, the incomplete list and the lookups after the run equal a set-based model of the same history',
                bounds='2 relations x <= 2 members (thorough: also 3 relations, 3 members, 3 ids), member ids in {1,2}, streams of <= 2 nodes and <= 2 ways, one unwanted-member mask / skipped relation per job; relation-type members and the output buffer callback not driven', sanitize=True, wall=900,
                testgen=lambda rnd: [dict(_job=0, nmem0=2, nmem1=1, type0_0=1, ref0_0=1, type0_1=2, ref0_1=1, type1_0=2, ref1_0=3)]),
    ]
