"""C05 — reader delivers each selected object exactly once and in file order (E2, BV mode; sequential mechanisms only)"""
import z3
from fw import Harness
from llsym import Finding, Sym
from irparse import IntTy
import C06
i8, i32, i64 = IntTy(8), IntTy(32), IntTy(64)
MARK = 0xb0f
LINES = [(b'n1 v1 x1 y2', 1, 1), (b'n2 x3 y4 Tk=v', 1, 2), (b'w3 Nn1,n2 Thighway=x', 2, 3), (b'n7 x1 y1', 1, 7), (b'r4 Mn1@a,w3@b', 3, 4), (b'c5 k2', 5, 5), (b'w6 Nn2', 2, 6), (b'c8', 5, 8), (b'r9', 3, 9)]
BIT = {1: 0x01, 2: 0x02, 3: 0x04, 5: 0x10}


def h_opl_order(I, job):
    lines = LINES[:job['nlines']]
    text = b'\n'.join(l for l, _, _ in lines) + b'\n'
    L = len(text)
    data = I.new_obj(L, 'file', 'heap')
    for k, b in enumerate(text): I.store(data + k, i8, b)
    mask = I.named('mask', 5); I.assume(I.term(mask, 5) & 0x08 == 0)
    m = I.concretize(mask, 'entity mask')
    cuts = C06.cut_positions(I, L, job['cuts'])
    c = I.new_obj(4 * max(len(cuts), 1), 'cuts', 'heap')
    for j, v in enumerate(cuts): I.store(c + 4 * j, i32, v)
    cap = 16 * (2 * len(lines) + 4); out = I.new_obj(cap, 'out', 'heap'); ol = I.new_obj(4, 'ol', 'heap')
    rc = I.concretize(I.call('@verif_opl_run', [data, L, c, len(cuts), m, job['single'], out, cap, ol]), 'rc'); I.observe('rc', rc)
    if rc != 0: raise Finding('error', 'valid OPL input rejected (rc=%d)' % rc)
    n = I.concretize(I.load(ol, i32), 'n')
    got = []; p = 0
    while p + 8 <= n:
        w = I.concretize(I.load(out + p, i64), 'word')
        if w == MARK: p += 8; continue
        if p + 16 > n: raise Finding('order', 'truncated record')
        got.append((w, I.concretize(I.load(out + p + 8, i64), 'id'))); p += 16
    want = [(t, i) for (_, t, i) in lines if m & BIT[t]]
    I.observe('entities', tuple(got))
    if got != want: raise Finding('order', 'entity mask %#x: delivered (type, id) sequence %s differs from the selected objects in file order %s' % (m, got, want))
    I.reach('end')


def harnesses(tier):
    q = tier == 'quick'
    nl = 6 if q else 9
    hs = [
        Harness('opl_reader_order', 'chunk', h_opl_order, setup=C06.setup_env,
                jobs=[dict(nlines=nl, single=s, cuts=c) for s in (0, 1) for c in (('singles',) if q else ('singles', 'pairs'))],
                desc='OPLParser (line splitting, opl_parse_line, maybe_new_buffer / flush_nested_buffer / flush_final_buffer; 256-byte initial buffer so that nested buffers occur) on a %d-object file of mixed types: for every entity mask (all subsets of node/way/relation/changeset), buffers_type any/single and every single cut of the byte stream, the delivered buffers flattened in delivery order contain exactly the selected objects, once each, in file order' % nl,
                bounds='one concrete OPL file of %d objects; all 16 entity masks; single cuts%s' % (nl, '' if q else ' and pairs of cuts'),
                testgen=lambda rnd: [dict(mask=rnd.choice([0x17, 0x01, 0x12, 0x04, 0x00]), **{'cut%d' % k: 0 for k in range(1, 200)})][:0]),
    ]
    return hs
