"""C05 — reader delivers each selected object exactly once and in file order (E2, BV mode; sequential mechanisms only)"""
import z3
from fw import Harness
from llsym import Finding, Sym
from irparse import IntTy
import C06
i8, i32, i64 = IntTy(8), IntTy(32), IntTy(64)
MARK = 0xb0f
LINES = [(b'n1 v1 x1 y2', 1, 1), (b'n2 x3 y4 Tk=v', 1, 2), (b'w3 Nn1,n2 Thighway=x', 2, 3), (b'n7 x1 y1', 1, 7), (b'r4 Mn1@a,w3@b', 3, 4), (b'c5 k2', 5, 5), (b'w6 Nn2', 2, 6), (b'c8', 5, 8), (b'r9', 3, 9)]
BIT = {1: 0x01, 2: 0x02, 3: 0x04, 5: 0x10}


def h_opl_order(I, job):
    lines = LINES[:job['nlines']]
    text = b'\n'.join(l for l, _, _ in lines) + b'\n'
    L = len(text)
    data = I.new_obj(L, 'file', 'heap')
    for k, b in enumerate(text): I.store(data + k, i8, b)
    mask = I.named('mask', 5); I.assume(I.term(mask, 5) & 0x08 == 0)
    m = I.concretize(mask, 'entity mask')
    cuts = C06.cut_positions(I, L, job['cuts'])
    c = I.new_obj(4 * max(len(cuts), 1), 'cuts', 'heap')
    for j, v in enumerate(cuts): I.store(c + 4 * j, i32, v)
    cap = 16 * (2 * len(lines) + 4); out = I.new_obj(cap, 'out', 'heap'); ol = I.new_obj(4, 'ol', 'heap')
    rc = I.concretize(I.call('@verif_opl_run', [data, L, c, len(cuts), m, job['single'], out, cap, ol]), 'rc'); I.observe('rc', rc)
    if rc != 0: raise Finding('error', 'valid OPL input rejected (rc=%d)' % rc)
    n = I.concretize(I.load(ol, i32), 'n')
    got = []; p = 0
    while p + 8 <= n:
        w = I.concretize(I.load(out + p, i64), 'word')
        if w == MARK: p += 8; continue
        if p + 16 > n: raise Finding('order', 'truncated record')
        got.append((w, I.concretize(I.load(out + p + 8, i64), 'id'))); p += 16
    want = [(t, i) for (_, t, i) in lines if m & BIT[t]]
    I.observe('entities', tuple(got))
    if got != want: raise Finding('order', 'the delivered (type, id) sequence differs from the selected objects in file order')
    I.reach('end')


POPB = '@_ZN6osmium2io6detail13queue_wrapperINS_6memory6BufferEE3popEv'
RCLOSE = '@_ZN6osmium2io6Reader5closeEv'


def setup_reader(I):
    if POPB not in I.m.funcs: raise Exception('queue_wrapper<Buffer>::pop not found in the IR (inlined?)')
    I.overrides[POPB] = lambda I_, ret, this: I_.call('@verif_model_pop_buffer', [ret, this])
    if RCLOSE in I.m.funcs: I.overrides[RCLOSE] = lambda I_, this: None


def h_reader_read(I, job):
    """Reader::read() on a script of 1-3 buffers with symbolic object counts (0 = valid empty buffer), built with a small internally growing buffer"""
    nb = job['nbuf']
    cm = I.new_obj(4 * nb, 'counts', 'heap'); counts = []
    for k in range(nb):
        c = I.named('count%d' % k, 8); I.assume(z3.ULE(I.term(c, 8), job['maxcount'])); c = I.concretize(c, 'count')
        I.store(cm + 4 * k, i32, c); counts.append(c)
    cap = I.named('cap', 32); I.assume(z3.And(z3.UGE(I.term(cap, 32), 64), z3.ULE(I.term(cap, 32), job['maxcap']), z3.URem(I.term(cap, 32), 8) == 0))
    ul = I.named('ulen', 6); I.assume(z3.Or([I.term(ul, 6) == v for v in (0, 5, 6, 14, 22, 23, 40)])); ul = I.concretize(ul, 'ulen')      # user lengths around the padding steps; 22+ makes the first object larger than a 64-byte buffer
    out = I.new_obj(8 * 40, 'out', 'heap')
    n = I.concretize(I.call('@verif_reader_read', [nb, cm, cap, ul, 1, out, 40]), 'n')
    got = [I.concretize(I.load(out + 8 * k, i64), 'id') for k in range(min(n, 40))]
    got = [g - (1 << 64) if g >> 63 else g for g in got]
    I.observe('delivered', tuple(got))
    want = list(range(1, sum(counts) + 1)) + [-1, -2]
    if got != want: raise Finding('order', 'Reader::read() does not deliver every object once in build order, then the end-of-data buffer, then an error for a further read')
    I.reach('end')


def h_pbf_mask(I, job):
    """one PrimitiveBlock with several groups of different types (legal in the format), read with every entity mask"""
    from pbfenc import f_bytes, pbf_dense, pbf_way, pbf_relation
    groups = {'n': (f_bytes(2, pbf_dense([1, 2])), [(1, 1), (1, 2)]), 'w': (f_bytes(3, pbf_way(10, [1, 2])) + f_bytes(3, pbf_way(11, [2])), [(2, 10), (2, 11)]),
              'r': (f_bytes(4, pbf_relation(20, [(0, 1), (1, 10)])), [(3, 20)])}
    msg = f_bytes(1, f_bytes(1, b'')); want_all = []
    for g in job['groups']:
        msg += f_bytes(2, groups[g][0]); want_all += groups[g][1]
    buf = I.new_obj(len(msg), 'msg', 'heap')
    for k, b in enumerate(msg): I.store(buf + k, i8, b)
    mask = I.named('mask', 3); m = I.concretize(mask, 'mask')
    out = I.new_obj(1024, 'out', 'heap'); ol = I.new_obj(4, 'ol', 'heap')
    rc = I.concretize(I.call('@verif_primitive_block_mask', [buf, len(msg), m, 1, out, 1024, ol]), 'rc'); I.observe('rc', rc)
    if rc != 0: raise Finding('error', 'valid PrimitiveBlock rejected (rc=%d)' % rc)
    n = I.concretize(I.load(ol, i32), 'n'); got = []; p = 0
    while p + 16 <= n:
        t = I.concretize(I.load(out + p, i64), 'type'); idv = I.concretize(I.load(out + p + 8, i64), 'id'); got.append((t, idv))
        ulen = I.concretize(I.load(out + p + 56, i64), 'ulen'); p += 64 + ulen
        if t == 1: p += 16 + 8
        elif t == 2: cnt = I.concretize(I.load(out + p, i64), 'nrefs'); p += 8 + 24 * cnt + 8
        elif t == 3:
            cnt = I.concretize(I.load(out + p, i64), 'nmem'); p += 8
            for _ in range(cnt): rl = I.concretize(I.load(out + p + 16, i64), 'rlen'); p += 24 + rl
            p += 8
    want = [(t, i) for (t, i) in want_all if m & {1: 1, 2: 2, 3: 4}[t]]
    I.observe('entities', tuple(got))
    if got != want: raise Finding('order', 'the delivered (type, id) sequence differs from the selected objects in file order')
    I.reach('end')


def h_o5m_meta(I, job):
    """o5m file read with read_meta::yes and read_meta::no: everything but the metadata must be identical"""
    uid = I.named('uid', 7); ub = I.named('ub', 8); I.assume(I.term(ub, 8) != 0)
    anon = I.concretize(I.named('anonymous', 1), 'anonymous first author')
    zr = [I.named('zref%d' % k, 7) for k in range(2)]
    B7 = lambda v: z3.ZeroExt(1, I.term(v, 7))
    if not anon: I.assume(I.term(uid, 7) != 0)
    user = [0, 0, 0] if anon else [0, B7(uid), 0, I.term(ub, 8), 0]
    def node(idb, userbytes, xb, yb): body = [idb, 1, 2, 2] + userbytes + [xb, yb]; return [0x10, len(body)] + body
    def way(idb, userbytes, refs): body = [idb, 1, 2, 2] + userbytes + [len(refs)] + refs; return [0x11, len(body)] + body
    f = list(C06.O5M_HDR) + ([0xff] if job['reset'] else []) + node(2, user, 6, 8) + node(2, [1], 10, 12) + way(2, [1] if job['backref'] else user, [B7(zr[0]), B7(zr[1])]) + [0xfe]
    data = I.new_obj(len(f), 'file', 'heap')
    for k, b in enumerate(f): I.store(data + k, i8, Sym(b, 8) if z3.is_expr(b) else b)
    dumps = []
    for meta in (1, 0):
        I.call('@verif_set_read_meta', [meta]); I.call('@verif_set_summary', [2])
        out = I.new_obj(1024, 'out%d' % meta, 'heap'); ol = I.new_obj(4, 'ol', 'heap'); c = I.new_obj(4, 'cuts', 'heap')
        rc = I.concretize(I.call('@verif_o5m_run', [data, len(f), c, 0, out, 1024, ol]), 'rc'); I.observe('rc%d' % meta, rc)
        I.call('@verif_set_summary', [0]); I.call('@verif_set_read_meta', [1])
        if rc != 0: raise Finding('rejects-valid', 'valid o5m file rejected with read_meta::%s (rc=%d)' % ('yes' if meta else 'no', rc))
        dumps.append((out, I.concretize(I.load(ol, i32), 'n')))
    def objects(out, n):
        pos = 0; objs = []
        W = lambda p: I.load(out + p, i64)
        while pos < n:
            hdr = [W(pos + 8 * k) for k in range(7)]; pos += 56
            ulen = I.concretize(W(pos), 'user length'); pos += 8 + ulen
            t = I.concretize(hdr[0], 'type')
            if t == 1: rest = [W(pos), W(pos + 8)]; pos += 16
            else:
                cnt = I.concretize(W(pos), 'refs'); pos += 8; rest = [cnt]
                for _ in range(cnt): rest += [W(pos), W(pos + 8), W(pos + 16)]; pos += 24
            ntags = I.concretize(W(pos), 'tags'); pos += 8
            if ntags: raise Finding('object-shape', 'unexpected tags')
            objs.append((t, hdr[1], rest))
        return objs
    a, b = objects(*dumps[0]), objects(*dumps[1])
    if len(a) != len(b): raise Finding('object-count', '%d objects with metadata, %d without' % (len(a), len(b)))
    for k, ((t1, id1, r1), (t2, id2, r2)) in enumerate(zip(a, b)):
        if t1 != t2 or len(r1) != len(r2): raise Finding('object-shape', 'object %d: type or reference count differs between read_meta::yes and ::no' % k)
        eq = lambda x, y: (I.term(x, 64) if isinstance(x, Sym) else z3.BitVecVal(x, 64)) == (I.term(y, 64) if isinstance(y, Sym) else z3.BitVecVal(y, 64))
        I.obligation(eq(id1, id2), 'id', 'object %d: id differs between read_meta::yes and ::no' % k)
        for j, (x, y) in enumerate(zip(r1, r2)): I.obligation(eq(x, y), 'content', 'object %d: location / reference word %d differs between read_meta::yes and ::no' % (k, j))
    I.reach('end')


def harnesses(tier):
    q = tier == 'quick'
    nl = 6 if q else 9
    hs = [
        Harness('opl_reader_order', 'chunk', h_opl_order, setup=C06.setup_env,
                jobs=[dict(nlines=nl, single=s, cuts='singles') for s in (0, 1)] + ([] if q else [dict(nlines=4, single=s, cuts='pairs') for s in (0, 1)]),
                desc='OPLParser (line splitting, opl_parse_line, maybe_new_buffer / flush_nested_buffer / flush_final_buffer; 256-byte initial buffer so that nested buffers occur) on a %d-object file of mixed types: for every entity mask (all subsets of node/way/relation/changeset), buffers_type any/single and every single cut of the byte stream, the delivered buffers flattened in delivery order contain exactly the selected objects, once each, in file order' % nl,
                bounds='one concrete OPL file of %d objects; all 16 entity masks; single cuts%s' % (nl, '' if q else '; pairs of cuts on the first 4 objects'),
                testgen=lambda rnd: [dict(mask=rnd.choice([0x17, 0x01, 0x12, 0x04, 0x00]), **{'cut%d' % k: 0 for k in range(1, 200)})][:0]),
    ]
    hs.append(Harness('pbf_block_mask', 'decode', h_pbf_mask, jobs=[dict(groups=g) for g in ('nwr', 'wn', 'rw', 'n', 'wr')],
                      desc='PBFPrimitiveBlockDecoder on blocks with one to three PrimitiveGroups of different types (dense nodes, ways, relations, in several orders) for every entity mask: exactly the selected objects, once each, in file order',
                      bounds='blocks of <= 5 objects; all 8 node/way/relation masks'))
    hs.append(Harness('reader_read', 'reader', h_reader_read, setup=setup_reader, native_ok=False, jobs=[dict(nbuf=n, maxcount=3, maxcap=96 if q else 160) for n in (1, 2, 3)], wall=900,
                      desc='Reader::read() itself (back-buffer handling of nested buffers, skipping of valid empty buffers, end-of-data marker, status) on a partially constructed Reader whose output queue is a script of 1-3 buffers with 0-3 nodes each, built by the real builders in internally growing buffers of symbolic capacity: every object once, in order, then the end-of-data buffer, then io_error',
                      bounds='<= 3 buffers x <= 3 objects, buffer capacity 64..%d, user lengths {0,5,6,14,22,23,40} (+0..2)' % (96 if q else 160)))
    # skipping metadata changes nothing but the metadata: the dense-node decoder used with read_meta::no (a separate code path) against the same reference
    import C02
    hs.append(Harness('pbf_dense_without_metadata', 'decode', C02.h_dense, jobs=[dict(gran=g, layout=l, meta=0) for g in (100, 250, 1, 1000, 37) for l in ('SGgao', 'gaoSG')],
                      desc='PBFPrimitiveBlockDecoder with read_meta::no on a block with two dense nodes: ids / latitudes / longitudes are the running sums of symbolic zig-zag deltas and the coordinates follow (offset + granularity * value) / 100 for symbolic offsets and several granularities, exactly as with metadata (same reference as C02 pbf_dense_nodes)',
                      bounds='2 nodes, 28-bit symbolic deltas and offsets, granularity in {100, 250, 1, 1000, 37}'))
    hs.append(Harness('o5m_without_metadata', 'chunk', h_o5m_meta, setup=C06.setup_env, jobs=[dict(reset=r, backref=b) for r in (0, 1) for b in (0, 1)],
                      desc='O5mParser on a file with two nodes and a way carrying author information (named or anonymous first author with symbolic uid / name byte, inline and by back-reference, with and without a reset marker, symbolic reference deltas), read once with read_meta::yes and once with read_meta::no: number, types, ids, locations and node references of the delivered objects are identical (only metadata may differ)',
                      bounds='3 objects, 7-bit symbolic uid and reference deltas'))
    return hs
