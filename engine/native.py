"""Native back end: runs a harness function against the g++ build of the wrapper TU.

The harness code is the one the symbolic interpreter runs; here every named()
input is a constant taken from a counterexample (or a generated test input),
memory is real process memory (ctypes), and call() invokes the real compiled
function.  Harness-level expressions that were z3 terms over inputs become z3
terms over constants and are folded by simplify().
"""
import ctypes, struct, sys, os
import z3
from irparse import IntTy, FloatTy, PtrTy, ArrTy, StructTy, VoidTy
from llsym import Interp, Sym, Finding, Unsupported, PathEnd, mask, Layout


def cval(v):
    """fold a Sym over constants to a Python int"""
    if isinstance(v, Sym):
        t = z3.simplify(v.t)
        if z3.is_true(t): return 1
        if z3.is_false(t): return 0
        if z3.is_bv_value(t) or z3.is_int_value(t): return t.as_long() & mask(v.n)
        raise Unsupported('native: non-constant term %s' % t)
    return v


class Native(Interp):
    def __init__(self, mod, so_path, inputs, mode='BV'):
        Interp.__init__(self, mod, mode=mode)
        self.lib = ctypes.CDLL(so_path)
        self.concrete_inputs = dict(inputs)
        self.bufs = []
        self.pc = []; self.inputs = {}; self.observations = []; self.path_obl = 0; self.trace = []
        self.native = True

    # inputs are constants
    def fresh(self, name, n):
        raise Unsupported('native: fresh symbol %s (unscripted nondeterminism)' % name)

    def assume(self, c):
        if isinstance(c, Sym): c = self.boolof(c)
        elif not z3.is_expr(c): c = z3.BoolVal(bool(c))
        c = z3.simplify(c)
        if z3.is_false(c): raise PathEnd()
        if not z3.is_true(c): raise Unsupported('native: assumption not constant: %s' % c)

    assume_feasible = assume

    def check(self, extra=None):
        if extra is None: return True
        c = z3.simplify(extra)
        if z3.is_true(c): return True
        if z3.is_false(c): return False
        raise Unsupported('native: query not constant')

    def obligation(self, cond, kind, msg):
        self.path_obl += 1
        if isinstance(cond, Sym): cond = self.boolof(cond)
        elif not z3.is_expr(cond): cond = z3.BoolVal(bool(cond))
        c = z3.simplify(cond)
        if z3.is_true(c): return
        if z3.is_false(c): raise Finding(kind, msg)
        raise Unsupported('native: obligation not constant: %s' % c)

    def decide(self, cond, why):
        return bool(cval(cond))

    def decide_value(self, v, why, cap=64):
        return cval(v)

    def concretize(self, v, why):
        return cval(v)

    # memory is process memory
    def new_obj(self, size, name, kind):
        b = ctypes.create_string_buffer(max(size, 1) + 64)   # slack is not relied upon; ASan build catches overruns inside the library
        self.bufs.append(b)
        return ctypes.addressof(b)

    def new_exact(self, size, name='buf'):
        """exact-size heap block obtained from the C allocator (ASan red zones apply)"""
        libc = ctypes.CDLL(None)
        libc.malloc.restype = ctypes.c_void_p; libc.malloc.argtypes = [ctypes.c_size_t]
        p = libc.malloc(max(size, 1))
        return p

    def store(self, addr, ty, v):
        if isinstance(ty, (StructTy, ArrTy)): raise Unsupported('native aggregate store')
        size = self.L.size_align(ty)[0]
        v = cval(v)
        if isinstance(ty, FloatTy):
            raw = struct.pack('<d' if ty.k == 'double' else '<f', v)
        else:
            raw = (v & mask(size * 8)).to_bytes(size, 'little')
        ctypes.memmove(addr, raw, size)

    def load(self, addr, ty):
        if isinstance(ty, (StructTy, ArrTy)): raise Unsupported('native aggregate load')
        size = self.L.size_align(ty)[0]
        raw = ctypes.string_at(addr, size)
        if isinstance(ty, FloatTy): return struct.unpack('<d' if ty.k == 'double' else '<f', raw)[0]
        v = int.from_bytes(raw, 'little')
        if isinstance(ty, IntTy): v &= mask(ty.n)
        return v

    def memcpy(self, d, s, n):
        ctypes.memmove(d, s, n)

    def ctype(self, ty):
        if isinstance(ty, VoidTy): return None
        if isinstance(ty, PtrTy): return ctypes.c_uint64
        if isinstance(ty, FloatTy): return ctypes.c_double if ty.k == 'double' else ctypes.c_float
        if isinstance(ty, IntTy):
            return {1: ctypes.c_uint8, 8: ctypes.c_uint8, 16: ctypes.c_uint16, 32: ctypes.c_uint32, 64: ctypes.c_uint64}[ty.n]
        raise Unsupported('native ctype ' + ty.key())

    def call(self, name, args):
        f = self.m.funcs.get(name)
        if f is None: raise Unsupported('native: unknown function ' + name)
        fn = getattr(self.lib, name[1:])
        fn.restype = self.ctype(f.ret)
        fn.argtypes = [self.ctype(pt) for (pt, pn, pa) in f.params]
        self.stats['funcs'].add(name[1:])
        sys.stdout.flush(); sys.stderr.flush()
        r = fn(*[cval(a) for a in args])
        if r is None: return None
        if isinstance(f.ret, IntTy): r &= mask(f.ret.n)
        return r


def run_native(mod, so_path, fn, inputs, mode='BV', default_missing=None):
    """returns dict(status, kind, msg, observations)"""
    N = Native(mod, so_path, inputs, mode)
    N.default_missing = default_missing
    try:
        fn(N)
        return dict(status='ok', observations=N.observations, obligations=N.path_obl)
    except PathEnd:
        return dict(status='assumption-violated', observations=N.observations)
    except Finding as e:
        return dict(status='finding', kind=e.kind, msg=e.msg, observations=N.observations)
