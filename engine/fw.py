"""Check framework: builds wrappers from /repo's working tree, runs harnesses on the
symbolic interpreter (E2) over a worker pool, replays counterexamples natively,
writes evidence.  See DESIGN.md.
"""
import os, sys, json, time, subprocess, tempfile, shutil, hashlib, importlib, random, traceback, multiprocessing, signal

HERE = os.path.dirname(os.path.abspath(__file__))
ROOT = os.path.dirname(HERE)
sys.path.insert(0, HERE)
REPO = os.environ.get('VERIF_REPO', '/repo')
NCPU = int(os.environ.get('VERIF_JOBS', '16'))

CXXFLAGS = ['-std=c++17', '-O1', '-DNDEBUG', '-fno-access-control', '-I' + REPO + '/include', '-I' + ROOT + '/wrappers']       # the hook guard OSMCODE_LIBOSMIUM_VERIF is off unless a harness asks for it (Harness.defs)
CLANG_IR = ['clang++-14'] + CXXFLAGS + ['-fno-vectorize', '-fno-slp-vectorize', '-fno-unroll-loops', '-S', '-emit-llvm', '-Wno-everything']


class Harness:
    """One obligation family.

    fn(I, job)   runs ONE path on back end I (symbolic, concrete or native)
    jobs         list of job dicts (explored independently / in parallel)
    mode         'BV' | 'INT'
    wrapper      wrappers/<wrapper>.cpp
    setup(I)     optional: install overrides / extra models on a fresh interpreter
    reach        labels that must be reached on at least one path (vacuity guard)
    tests        list of input dicts for the differential validation (interpreter-concrete vs native)
    sanitize     replay natively under ASan/UBSan (memory / UB obligations)
    classify     optional: cex -> known-finding key (string) or None
    exclude      optional: {key: fn(I) -> z3 cond over inputs} assumed false when key is a listed known finding
    """
    def __init__(self, name, wrapper, fn, jobs=None, mode='BV', setup=None, reach=('end',), tests=None, sanitize=False,
                 wall=600, max_paths=10**7, desc='', bounds='', step_cap=2_000_000, defs=(), opaque_fp=False, native_ok=True,
                 testgen=None, qtimeout=90):
        self.name = name; self.wrapper = wrapper; self.fn = fn; self.jobs = jobs or [{}]; self.mode = mode; self.setup = setup
        self.reach = tuple(reach); self.tests = tests or []; self.sanitize = sanitize; self.wall = wall; self.max_paths = max_paths
        self.desc = desc; self.bounds = bounds; self.step_cap = step_cap; self.defs = tuple(defs); self.opaque_fp = opaque_fp
        self.native_ok = native_ok; self.testgen = testgen; self.qtimeout = qtimeout       # qtimeout: seconds given to the first (incremental z3) attempt at a query


# ----------------------------------------------------------------------------- building
class Build:
    def __init__(self, workdir):
        self.dir = workdir; self.ll = {}; self.so = {}; self.t = {}

    def key(self, wrapper, defs): return wrapper + ''.join('-' + d for d in defs)

    def ir(self, wrapper, defs=()):
        k = self.key(wrapper, defs)
        if k not in self.ll:
            out = os.path.join(self.dir, k + '.ll')
            t = time.time()
            cmd = CLANG_IR + ['-D' + d for d in defs] + [os.path.join(ROOT, 'wrappers', wrapper + '.cpp'), '-o', out]
            r = subprocess.run(cmd, capture_output=True, text=True)
            if r.returncode != 0:
                raise BuildError('clang failed for %s:\n%s' % (wrapper, r.stderr[-3000:]))
            self.ll[k] = out; self.t[k] = time.time() - t
        return self.ll[k]

    def native(self, wrapper, defs=(), san=False):
        k = self.key(wrapper, defs) + ('-san' if san else '')
        if k not in self.so:
            out = os.path.join(self.dir, k + '.so')
            cmd = ['g++'] + CXXFLAGS + ['-DVERIF_NATIVE', '-shared', '-fPIC', '-w', '-Wl,-Bsymbolic'] + ['-D' + d for d in defs]
            if san: cmd += ['-fsanitize=address,undefined', '-fno-sanitize-recover=undefined', '-fno-omit-frame-pointer', '-g1']
            cmd += [os.path.join(ROOT, 'wrappers', wrapper + '.cpp'), '-o', out, '-lz', '-lbz2', '-lexpat', '-lpthread']
            r = subprocess.run(cmd, capture_output=True, text=True)
            if r.returncode != 0:
                raise BuildError('g++ failed for %s:\n%s' % (wrapper, r.stderr[-3000:]))
            self.so[k] = out
        return self.so[k]


class BuildError(Exception):
    pass


# ----------------------------------------------------------------------------- workers
_MODS = {}


def load_mod(path):
    from irparse import parse_module
    if path not in _MODS:
        _MODS[path] = parse_module(open(path).read())
    return _MODS[path]


def make_interp(h, ll, known_keys=()):
    from llsym import Interp
    import models
    I = Interp(load_mod(ll), mode=h.mode, step_cap=h.step_cap)
    I.opaque_fp = h.opaque_fp; I.set_query_timeout(h.qtimeout)
    models.install(I)
    I.known_keys = set(known_keys)
    if h.setup: h.setup(I)
    return I


def _worker(task):
    """explore (harness, job) from the given decision prefixes under a budget; return stats, findings, leftover prefixes"""
    pid, hname, jobi, ll, work, max_paths, wall, known_keys = task
    try:
        hs = load_harnesses(pid, os.environ.get('VERIF_TIER', 'quick'))
        h = [x for x in hs if x.name == hname][0]
        I = make_interp(h, ll, known_keys)
        job = h.jobs[jobi]
        findings, left = I.explore(lambda I_: h.fn(I_, job), work=work, max_paths=max_paths, wall=wall)
        st = I.stats
        return dict(ok=True, hname=hname, jobi=jobi, findings=findings, left=left, paths=st['paths'], queries=st['queries'], solver_s=st['solver_s'],
                    funcs=sorted(st['funcs']), unsupported=st['unsupported'][:20], n_unsupported=len(st['unsupported']), steps=st['steps'],
                    obligations=st.get('obligations', 0), obl_paths=st.get('obl_paths', 0), reached=dict(I.reached), samples=st.get('samples', []),
                    cvc5_decided=st.get('cvc5_decided', 0),
                    wall_s=st.get('wall_s', 0))
    except Exception as e:
        return dict(ok=False, hname=hname, jobi=jobi, error='%s: %s\n%s' % (type(e).__name__, e, traceback.format_exc()[-2000:]))



class Pool:
    """process pool that survives worker crashes and enforces a hard per-task time limit (a lost task is reported, never dropped silently)"""
    def __init__(self, n):
        self.n = n; self.workers = []; self.queue = []; self.done = []
        self.ctx = multiprocessing.get_context('fork')
        for _ in range(n): self.workers.append(self.spawn())

    def spawn(self):
        a, b = self.ctx.Pipe()
        p = self.ctx.Process(target=_worker_loop, args=(b,), daemon=True); p.start(); b.close()
        return dict(proc=p, conn=a, task=None, tag=None, t0=0, limit=0)

    def submit(self, tag, task, limit):
        self.queue.append((tag, task, limit))

    def outstanding(self):
        return len(self.queue) + sum(1 for w in self.workers if w['task'] is not None)

    def poll(self):
        """returns list of (tag, result) finished since the last call"""
        out = []
        for i, w in enumerate(self.workers):
            if w['task'] is not None:
                res = None; dead = False
                try:
                    if w['conn'].poll(0): res = w['conn'].recv()
                    elif not w['proc'].is_alive(): dead = True
                except (EOFError, OSError): dead = True
                if res is not None:
                    out.append((w['tag'], res)); w['task'] = None
                elif dead or time.time() - w['t0'] > w['limit']:
                    why = 'worker process died (exit %s)' % w['proc'].exitcode if dead else 'hard time limit of %d s exceeded (solver query did not return)' % w['limit']
                    try: w['proc'].kill()
                    except Exception: pass
                    out.append((w['tag'], dict(ok=False, hname=w['task'][1], jobi=w['task'][2], error=why, lost_work=w['task'][4])))
                    self.workers[i] = w = self.spawn()
            if w['task'] is None and self.queue:
                tag, task, limit = self.queue.pop(0)
                w['task'] = task; w['tag'] = tag; w['t0'] = time.time(); w['limit'] = limit
                w['conn'].send(task)
        return out

    def close(self):
        for w in self.workers:
            try: w['conn'].send(None)
            except Exception: pass
        for w in self.workers:
            w['proc'].join(1)
            if w['proc'].is_alive(): w['proc'].kill()


def _worker_loop(conn):
    signal.signal(signal.SIGINT, signal.SIG_IGN)
    while True:
        try: task = conn.recv()
        except EOFError: return
        if task is None: return
        conn.send(_worker(task))


def load_harnesses(pid, tier):
    sys.path.insert(0, os.path.join(ROOT, 'harness'))
    m = importlib.import_module(pid)
    return m.harnesses(tier)


# ----------------------------------------------------------------------------- replay
MAX_NATIVE_GB = 6


class _R:
    pass


def run_guarded(cmd, stdin_text, env, timeout):
    """run a native sub-process with a wall limit and a resident-memory limit (a seeded change can make the library loop for ever and grow); None = killed"""
    import tempfile as _tf
    with _tf.TemporaryFile('w+') as fo, _tf.TemporaryFile('w+') as fe:
        p = subprocess.Popen(cmd, stdin=subprocess.PIPE, stdout=fo, stderr=fe, text=True, env=env)
        try: p.stdin.write(stdin_text); p.stdin.close()
        except Exception: pass
        t0 = time.time(); killed = False
        while p.poll() is None:
            time.sleep(0.1)
            try: rss = int(open('/proc/%d/statm' % p.pid).read().split()[1]) * 4096
            except Exception: rss = 0
            if time.time() - t0 > timeout or rss > MAX_NATIVE_GB * (1 << 30):
                p.kill(); p.wait(); killed = True; break
        if killed: return None
        fo.seek(0); fe.seek(0)
        r = _R(); r.returncode = p.returncode; r.stdout = fo.read(); r.stderr = fe.read()
        return r


def native_subprocess(pid, tier, hname, jobi, inputs, ll, so, timeout=120):
    """native run of a test input for the differential validation, outside this process; returns the result dict of run_native or raises"""
    spec = dict(pid=pid, tier=tier, hname=hname, jobi=jobi, inputs=inputs, ll=ll, so=so, keep_obs=True)
    r = run_guarded([sys.executable, os.path.join(HERE, 'replay_one.py')], json.dumps(spec), dict(os.environ), timeout)
    if r is None: raise Exception('native run did not terminate within %d s or outgrew %d GB' % (timeout, MAX_NATIVE_GB))
    out = r.stdout.strip().split('\n')[-1] if r.stdout.strip() else ''
    if r.returncode == 0 and out.startswith('{'): return json.loads(out)
    raise Exception('native run failed (exit %d): %s' % (r.returncode, (r.stderr or r.stdout)[-300:]))


def replay_subprocess(pid, tier, hname, jobi, inputs, ll, so, san, timeout=120):
    """run the harness natively on the counterexample in a sub-process; returns (reproduced?, text)"""
    spec = dict(pid=pid, tier=tier, hname=hname, jobi=jobi, inputs=inputs, ll=ll, so=so)
    env = dict(os.environ)
    if san:
        asan = subprocess.run(['g++', '-print-file-name=libasan.so'], capture_output=True, text=True).stdout.strip()
        ubsan = subprocess.run(['g++', '-print-file-name=libubsan.so'], capture_output=True, text=True).stdout.strip()
        env['LD_PRELOAD'] = asan + ':' + ubsan
        env['ASAN_OPTIONS'] = 'detect_leaks=0:abort_on_error=0:exitcode=77:allocator_may_return_null=1'
        env['UBSAN_OPTIONS'] = 'halt_on_error=1:exitcode=78:print_stacktrace=0'
    r = run_guarded([sys.executable, os.path.join(HERE, 'replay_one.py')], json.dumps(spec), env, timeout)
    if r is None: return True, 'native run did not terminate within %d s or outgrew %d GB (hang / unbounded memory growth)' % (timeout, MAX_NATIVE_GB)
    out = r.stdout.strip().split('\n')[-1] if r.stdout.strip() else ''
    if r.returncode == 0 and out.startswith('{'):
        res = json.loads(out)
        if res['status'] == 'finding': return True, '%s: %s' % (res['kind'], res['msg'])
        return False, res['status'] + ' ' + res.get('msg', '')
    if r.returncode in (77, 78) or 'AddressSanitizer' in r.stderr or 'runtime error:' in r.stderr:
        lines = [l for l in r.stderr.split('\n') if 'ERROR: AddressSanitizer' in l or 'runtime error:' in l]
        return True, 'sanitizer: ' + (lines[0].strip() if lines else 'exit %d' % r.returncode)
    if r.returncode < 0 or r.returncode in (134, 139):
        return True, 'native crash (signal/abort, exit %d): %s' % (r.returncode, r.stderr.strip()[-300:])
    return False, 'replay driver failed (exit %d): %s' % (r.returncode, (r.stderr or r.stdout)[-500:])


# ----------------------------------------------------------------------------- differential validation
def differential(pid, tier, h, build, seed):
    """same harness, same concrete inputs: interpreter (concrete mode) vs native build; returns (n_ok, mismatches, errors)"""
    from llsym import Interp, Finding, PathEnd, Unsupported, Abort
    from native import run_native
    tests = list(h.tests)
    if h.testgen:
        rnd = random.Random(seed)
        tests += h.testgen(rnd)
    if not tests or not h.native_ok: return 0, [], []
    ll = build.ir(h.wrapper, h.defs); so = build.native(h.wrapper, h.defs)
    mod = load_mod(ll)
    n_ok = 0; mism = []; errs = []
    # native side: all inputs in one guarded sub-process; if that dies (crash, hang, memory), one sub-process per input
    prepared = [(t.get('_job', 0), {k: v for k, v in t.items() if not k.startswith('_')}) for t in tests]
    batch = None
    r = run_guarded([sys.executable, os.path.join(HERE, 'replay_one.py')], json.dumps(dict(pid=pid, tier=tier, hname=h.name, ll=ll, so=so, batch=prepared)), dict(os.environ), 60 + 20 * len(prepared))
    if r is not None and r.returncode == 0 and r.stdout.strip():
        try: batch = json.loads(r.stdout.strip().split('\n')[-1])
        except Exception: batch = None
    if batch is not None and len(batch) != len(prepared): batch = None
    for ti, t in enumerate(tests):
        jobi = t.get('_job', 0); job = h.jobs[jobi]
        inputs = {k: v for k, v in t.items() if not k.startswith('_')}
        I = make_interp(h, ll)
        I.concrete_inputs = inputs
        res, left = I.explore(lambda I_: capture(I_, h, job), max_paths=4, wall=120)
        iobs = getattr(I, 'last_obs', None)
        istat = 'finding:' + res[0]['kind'] if res else ('unsupported:' + I.stats['unsupported'][0] if I.stats['unsupported'] else 'ok')
        try:
            nr = batch[ti] if batch is not None else native_subprocess(pid, tier, h.name, jobi, inputs, ll, so)
            if nr.get('status') == 'error': raise Exception(nr.get('msg'))
        except Exception as e:
            errs.append('native error on %s: %s' % (inputs, e)); continue
        if nr['status'] == 'assumption-violated': continue          # generated test input outside the harness's domain
        nstat = 'finding:' + nr['kind'] if nr['status'] == 'finding' else nr['status']
        nobs = nr.get('observations')
        if istat.startswith('unsupported'):
            errs.append('interpreter unsupported on test %s: %s' % (inputs, istat)); continue
        if res and nr['status'] == 'finding':
            n_ok += 1; continue
        canon = lambda o: json.loads(json.dumps(o or [], default=str))          # the native observations come back through JSON (tuples become lists)
        if istat != nstat or canon(iobs) != canon(nobs):
            mism.append(dict(inputs=inputs, interp=(istat, iobs), native=(nstat, nobs)))
        else: n_ok += 1
    return n_ok, mism, errs


def capture(I, h, job):
    try:
        h.fn(I, job)
    finally:
        I.last_obs = list(I.observations)


# ----------------------------------------------------------------------------- driver
def known_findings():
    p = os.path.join(ROOT, 'known_findings.json')
    if not os.path.exists(p): return []
    return json.load(open(p)).get('findings', [])


def run_property(pid, tier, seed, only=None, keep=False, nodiff=False):
    t0 = time.time()
    os.environ['VERIF_TIER'] = tier
    hs = load_harnesses(pid, tier)
    mod_ = importlib.import_module(pid)
    chs = mod_.cbmc_harnesses(tier) if hasattr(mod_, 'cbmc_harnesses') else []
    if only: hs = [h for h in hs if h.name in only]; chs = [h for h in chs if h.name in only]
    work = tempfile.mkdtemp(prefix='verif-%s-' % pid)
    build = Build(work)
    status = 0; lines = []
    ev = dict(property_id=pid, tier=tier, seed=seed, level='model_checking', violations=0)
    try:
        # 1. build all wrappers (IR + native) in parallel
        wr = sorted({(h.wrapper, h.defs) for h in hs} | {(h.wrapper, ()) for h in chs})
        from concurrent.futures import ThreadPoolExecutor
        with ThreadPoolExecutor(max_workers=NCPU) as ex:
            futs = [ex.submit(build.ir, w, d) for (w, d) in wr]
            nat = {(h.wrapper, h.defs) for h in hs if h.native_ok and (h.tests or h.testgen)}
            futs += [ex.submit(build.native, w, d) for (w, d) in sorted(nat)]
            failed_builds = {}
            for f in futs:
                try: f.result()
                except BuildError as e: failed_builds[str(e).split(':')[0]] = str(e)
            if failed_builds:
                # a wrapper that no longer compiles against the current headers takes only its own harnesses out (reported as a machinery problem)
                bad = set()
                for (w, d) in wr:
                    try: build.ir(w, d)
                    except BuildError: bad.add((w, d))
                for h in list(hs):
                    if (h.wrapper, h.defs) in bad: hs.remove(h)
                build_msgs = ['wrapper %s does not build against the current tree: %s' % (w, [v for k, v in failed_builds.items()][0][-400:]) for (w, d) in sorted(bad)]
            else: build_msgs = []
        # known findings for this property
        kf = [k for k in known_findings() if k['property'] == pid and k.get('status', 'open') == 'open']
        known_keys = [k['key'] for k in kf]
        # 2a. E1: cbmc harnesses (each twice: the proof obligation and its witness twin, which must fail) start now and run beside the pool
        cbmc_ex = None; cbmc_futs = []
        if chs:
            import e1
            from concurrent.futures import ThreadPoolExecutor as TPE
            for h in chs: e1.translate(build, h.wrapper)
            def one(h):
                r = e1.run_cbmc(build, h); w = e1.run_cbmc(build, h, witness=True)
                return h, r, w
            cbmc_ex = TPE(max_workers=max(1, NCPU // 2)); cbmc_futs = [cbmc_ex.submit(one, h) for h in chs]
        # 2. symbolic exploration on a pool with dynamic splitting
        per = {h.name: dict(paths=0, queries=0, solver_s=0.0, funcs=set(), findings=[], unsupported=[], n_unsupported=0, obligations=0, obl_paths=0,
                            reached={}, samples=[], errors=[], incomplete=0, steps=0, cvc5_decided=0) for h in hs}
        deadline = {h.name: time.time() + h.wall for h in hs}
        pool = Pool(NCPU)
        retried = {}
        def submit(h, jobi, workl, mp, wall):
            task = (pid, h.name, jobi, build.ir(h.wrapper, h.defs), workl, mp, wall, known_keys)
            pool.submit((h, jobi), task, wall * 3 + 600)
        for h in hs:
            for jobi in range(len(h.jobs)):
                submit(h, jobi, None, 30, 5)
        while pool.outstanding():
            done = pool.poll()
            if not done: time.sleep(0.02); continue
            for ((h, jobi), r) in done:
                p = per[h.name]
                if os.environ.get('VERIF_VERBOSE'): sys.stderr.write('[%.1f] %s job %d: ok=%s paths=%s left=%s wall=%.1f outstanding=%d\n' % (time.time() - t0, h.name, jobi, r['ok'], r.get('paths'), len(r.get('left') or []), r.get('wall_s', 0), pool.outstanding()))
                if not r['ok']:
                    if os.environ.get('VERIF_VERBOSE'): sys.stderr.write('   error: %s\n' % r['error'])
                    # a task lost to the hard limit / a dead worker is explored once more, one prefix per task in fresh processes (other solver
                    # state); whatever is lost a second time is reported as a machinery problem -- never dropped, never counted as explored
                    if 'lost_work' in r and time.time() < deadline[h.name]:
                        lw = r['lost_work']; pieces = [None] if lw is None else [[w_] for w_ in lw]
                        fresh = [c for c in pieces if retried.setdefault((h.name, jobi, repr(c)), 0) == 0]
                        if len(fresh) == len(pieces):
                            for c in pieces:
                                retried[(h.name, jobi, repr(c))] = 1
                                submit(h, jobi, c, 2000, max(5, min(45, deadline[h.name] - time.time())))
                            p['retried_tasks'] = p.get('retried_tasks', 0) + 1
                            continue
                    p['errors'].append(r['error'])
                    continue
                for k in ('paths', 'queries', 'solver_s', 'obligations', 'obl_paths', 'n_unsupported', 'steps', 'cvc5_decided'): p[k] += r[k]
                p['funcs'].update(r['funcs']); p['unsupported'] += r['unsupported']
                for f in r['findings']: f['job'] = jobi; p['findings'].append(f)
                for k, v in r['reached'].items(): p['reached'][k] = p['reached'].get(k, 0) + v
                if len(p['samples']) < 3: p['samples'] += r['samples'][:1]
                left = r['left']
                if left:
                    if time.time() > deadline[h.name]:
                        p['incomplete'] += len(left); continue
                    # split leftover sub-trees over the pool: one prefix per task while workers are idle, chunks otherwise
                    outstanding = pool.outstanding()
                    room = max(1, 3 * NCPU - outstanding)
                    nchunks = min(len(left), room)
                    chunks = [left[i::nchunks] for i in range(nchunks)]
                    remaining = max(5, deadline[h.name] - time.time())
                    busy = outstanding + nchunks >= NCPU
                    for c in chunks: submit(h, jobi, c, 2000 if busy else 60, min(45 if busy else 6, remaining))
        pool.close()
        # 3. differential validation of the interpreter (and of the harness) against the native build
        diff_ok = 0; machinery = []
        if not nodiff:
            for h in hs:
                n_ok, mism, errs = differential(pid, tier, h, build, seed)
                diff_ok += n_ok
                for m in mism: machinery.append('%s: interpreter and native build disagree on %s: %s vs %s' % (h.name, m['inputs'], m['interp'], m['native']))
                for e in errs: machinery.append('%s: %s' % (h.name, e))
        # 3b. collect the cbmc results
        cres = [f.result() for f in cbmc_futs]
        if cbmc_ex: cbmc_ex.shutdown()
        # 4. verdicts
        replayed = 0; violations = []; knowns = []; unconfirmed = []
        machinery += build_msgs
        os.makedirs(os.path.join(ROOT, 'replay', pid), exist_ok=True)
        hmap = {h.name: h for h in hs}
        for h in hs:
            p = per[h.name]
            for e in p['errors']: machinery.append('%s: worker error: %s' % (h.name, e))
            if p['n_unsupported']: machinery.append('%s: %d path(s) not covered: %s' % (h.name, p['n_unsupported'], sorted(set(p['unsupported']))[:4]))
            if p['incomplete']: machinery.append('%s: budget exhausted with %d sub-trees unexplored' % (h.name, p['incomplete']))
            for lbl in h.reach:
                if not p['reached'].get(lbl): machinery.append('%s: vacuous: label %r never reached' % (h.name, lbl))
            # distinct findings
            seen = {}
            for f in p['findings']:
                seen.setdefault((f['kind'], f['msg']), []).append(f)
            for (kind, msg), fl in list(seen.items())[:8]:          # at most 8 distinct finding classes are replayed per harness
                confirmed = None
                for f in fl[:3]:
                    if f['inputs'] is None: continue
                    if not h.native_ok:
                        confirmed = (f, 'not replayable natively (stub-contract finding): ' + msg); break
                    so = build.native(h.wrapper, h.defs, san=h.sanitize)
                    rep, text = replay_subprocess(pid, tier, h.name, f['job'], f['inputs'], build.ir(h.wrapper, h.defs), so, h.sanitize)
                    replayed += 1
                    if rep: confirmed = (f, text); break
                    else: f['replay_text'] = text
                if confirmed:
                    f, text = confirmed
                    hsh = hashlib.sha1(json.dumps([h.name, kind, msg], sort_keys=True).encode()).hexdigest()[:10]
                    path = os.path.join(ROOT, 'replay', pid, '%s-%s.json' % (h.name, hsh))
                    json.dump(dict(property=pid, tier=tier, harness=h.name, job=f['job'], inputs=f['inputs'], kind=kind, msg=msg, native=text), open(path, 'w'), indent=1)
                    violations.append((h.name, kind, msg, path, f['inputs'], text))
                else:
                    unconfirmed.append((h.name, kind, msg, fl[0]['inputs'], fl[0].get('replay_text', '')))
        for (h, r, w) in cres:
            if r['verdict'] in ('timeout', 'error'): machinery.append('%s: cbmc %s after %.0f s%s' % (h.name, r['verdict'], r['wall'], ': ' + r['out'][-300:] if r['verdict'] == 'error' else ''))
            elif r['verdict'] == 'failed':
                import e1
                vals = e1.trace_inputs(r['out'])
                so = build.native(h.wrapper)
                try: bad, text = h.replay(so, vals) if h.replay else (False, 'no replay function')
                except Exception as e: bad, text = False, 'replay error %s' % e
                replayed += 1
                if bad:
                    hsh = hashlib.sha1(json.dumps([h.name, r['failed']], sort_keys=True).encode()).hexdigest()[:10]
                    path = os.path.join(ROOT, 'replay', pid, '%s-%s.json' % (h.name, hsh))
                    json.dump(dict(property=pid, tier=tier, harness=h.name, engine='cbmc', inputs=vals, failed=r['failed'], native=text), open(path, 'w'), indent=1)
                    violations.append((h.name, 'cbmc-assertion', ', '.join(r['failed'][:3]), path, vals, text))
                else: unconfirmed.append((h.name, 'cbmc-assertion', ', '.join(r['failed'][:3]), vals, text))
            if w['verdict'] != 'failed' or not any('assertion' in x for x in w['failed']):
                if r['verdict'] == 'success': machinery.append('%s: vacuous: the witness twin (assert(0) at the end) did not fail (%s)' % (h.name, w['verdict']))
        # known findings: replay the recorded example natively; still failing -> KNOWN-FINDING line
        for k in kf:
            h = hmap.get(k['harness'])
            if h is None: continue
            so = build.native(h.wrapper, h.defs, san=h.sanitize)
            rep, text = replay_subprocess(pid, tier, h.name, k.get('job', 0), k['inputs'], build.ir(h.wrapper, h.defs), so, h.sanitize)
            replayed += 1
            if rep: knowns.append((k, text))
        for (k, text) in knowns:
            lines.append('KNOWN-FINDING: property=%s %s [%s]' % (pid, k['what'], text))
        for (hn, kind, msg, path, inputs, text) in violations:
            lines.append('VIOLATION property=%s replay=%s' % (pid, path))
            lines.append('  harness=%s kind=%s: %s; inputs=%s; native: %s' % (hn, kind, msg, json.dumps(inputs), text))
        for (hn, kind, msg, inputs, text) in unconfirmed:
            machinery.append('%s: counterexample did not reproduce natively (encoding or stub wrong?): %s: %s inputs=%s [%s]' % (hn, kind, msg, json.dumps(inputs), text))
        if violations: status = 1
        elif machinery: status = 2
        for m in machinery: lines.append('MACHINERY: ' + m)
        # 5. evidence
        tot = lambda k: sum(per[h.name][k] for h in hs)
        funcs = sorted(set().union(*[per[h.name]['funcs'] for h in hs])) if hs else []
        samples = []
        for h in hs:
            for s in per[h.name]['samples'][:2]: samples.append(dict(harness=h.name, **s))
        for (h, r, w) in cres[:3]: samples.append(dict(harness=h.name, engine='cbmc', function=h.fn, defines=list(h.defines), verdict=r['verdict'], checked_properties=r['props']))
        if not samples: samples = [dict(harness=h.name, note='no symbolic inputs on the explored paths') for h in hs[:1]]
        ev['violations'] = len(violations)
        ev['coverage'] = dict(
            states=max(1, tot('paths') + len(cres)), transitions=max(1, tot('queries') + sum(r['props'] for (_, r, _) in cres)), traces_validated_against_impl=replayed + diff_ok, samples=samples,
            evaluations=max(1, tot('paths') + len(cres)), distinct_nontrivial=tot('obl_paths') + sum(1 for (_, r, w) in cres if r['verdict'] == 'success' and w['verdict'] == 'failed'),
            rule='one evaluation = one feasible control-flow path of the harness through the real IR (distinct decision trace); non-trivial = the path ran to a checked end of the harness (discharged at least one solver-checked obligation or passed its concrete oracle comparisons)',
            obligations=tot('obligations') + sum(r['props'] for (_, r, _) in cres), discharged=tot('obligations') - sum(len(per[h.name]['findings']) for h in hs) + sum(r['props'] - len(r['failed']) for (_, r, _) in cres),
            solver_s=round(tot('solver_s'), 2), ir_instructions_executed=tot('steps'),
            functions_encoded=[demangle_short(f) for f in funcs][:400], functions_encoded_count=len(funcs),
            harnesses=[dict(name=h.name, mode=h.mode, wrapper=h.wrapper, desc=h.desc, bounds=h.bounds, jobs=len(h.jobs), paths=per[h.name]['paths'],
                            queries=per[h.name]['queries'], obligations=per[h.name]['obligations'], solver_s=round(per[h.name]['solver_s'], 2),
                            reached=per[h.name]['reached'], findings=len(per[h.name]['findings']), tasks_rerun_after_loss=per[h.name].get('retried_tasks', 0), queries_decided_by_cvc5=per[h.name]['cvc5_decided']) for h in hs],
            cbmc_harnesses=[dict(name=h.name, function=h.fn, defines=list(h.defines), backend=list(h.backend) or ['sat (cbmc default)'], verdict=r['verdict'], wall_s=round(r['wall'], 1),
                                 properties=r['props'], sat_variables=r.get('vars', 0), sat_clauses=r.get('clauses', 0), witness_twin=w['verdict'], desc=h.desc, bounds=h.bounds) for (h, r, w) in cres],
            differential_inputs_agreeing=diff_ok, counterexamples_replayed=replayed,
            known_findings=[k['key'] for (k, _) in knowns], machinery_problems=machinery, exhaustive=False,
            engine='llsym (path-wise symbolic execution of clang-14 IR, z3 %s; queries z3 leaves unknown go to the cvc5 binary)' % z3ver())
        ev['assumptions'] = assumptions_for(hs) + ['%s: bounds: %s' % (h.name, h.bounds) for (h, _, _) in cres[:40]]
    except BuildError as e:
        lines.append('MACHINERY: build failed: %s' % e); status = 2
        ev['coverage'] = dict(evaluations=1, distinct_nontrivial=0, states=1, transitions=1, traces_validated_against_impl=0, samples=['build failed'], machinery_problems=[str(e)[:500]])
    finally:
        if not keep: shutil.rmtree(work, ignore_errors=True)
    ev['wall_s'] = round(time.time() - t0, 2)
    evdir = os.path.join(ROOT, 'evidence') if REPO == '/repo' else os.path.join(tempfile.gettempdir(), 'verif-evidence-scratch')       # trials against a scratch worktree (VERIF_REPO) never touch the committed evidence
    os.makedirs(evdir, exist_ok=True)
    json.dump(ev, open(os.path.join(evdir, pid + '.json'), 'w'), indent=1, default=str)
    return status, lines, ev


def z3ver():
    import z3
    return z3.get_version_string()


def demangle_short(n):
    return n


COMMON_ASSUMPTIONS = [
    'code under test = LLVM IR emitted by clang++-14 -O1 -DNDEBUG from /repo/include at run time (compiler correctness trusted)',
    'operator new/malloc never fail; freed objects stay dead; every object has a concrete size',
    'libstdc++ out-of-line std::string members replaced by hand models over the real layout (validated per run against the g++ build)',
    'exception constructors/destructors/what() have empty bodies',
]


def assumptions_for(hs):
    out = list(COMMON_ASSUMPTIONS)
    for h in hs:
        if h.bounds: out.append('%s: bounds: %s' % (h.name, h.bounds))
    return out


def main(argv):
    import argparse
    ap = argparse.ArgumentParser()
    ap.add_argument('pid'); ap.add_argument('--tier', default=os.environ.get('VERIF_TIER', 'quick'))
    ap.add_argument('--replay'); ap.add_argument('--only', action='append'); ap.add_argument('--keep', action='store_true')
    ap.add_argument('--nodiff', action='store_true')
    a = ap.parse_args(argv)
    seed = int(os.environ.get('VERIF_SEED', '1'))
    if a.tier not in ('quick', 'thorough'): a.tier = 'quick'
    if a.replay: return replay_file(a.replay)
    status, lines, ev = run_property(a.pid, a.tier, seed, only=a.only, keep=a.keep, nodiff=a.nodiff)
    for l in lines: print(l)
    c = ev.get('coverage', {})
    print('%s tier=%s: %d paths, %d queries, %d obligations, solver %.1fs, wall %.1fs -> %s' % (
        a.pid, a.tier, c.get('states', 0), c.get('transitions', 0), c.get('obligations', 0), c.get('solver_s', 0), ev['wall_s'],
        {0: 'HOLDS within bounds', 1: 'VIOLATED', 2: 'UNDECIDED (machinery problem)'}[status]))
    return status


def replay_file(path):
    spec = json.load(open(path))
    pid = spec['property']; tier = spec.get('tier', 'quick')
    os.environ['VERIF_TIER'] = tier
    hs = load_harnesses(pid, tier)
    if spec.get('engine') == 'cbmc':
        mod_ = importlib.import_module(pid)
        h = [x for x in mod_.cbmc_harnesses(tier) if x.name == spec['harness']][0]
        work = tempfile.mkdtemp(prefix='verif-replay-')
        try:
            b = Build(work)
            bad, text = h.replay(b.native(h.wrapper), spec['inputs'])
            print(('REPRODUCED: ' if bad else 'not reproduced: ') + text)
            if bad: print('VIOLATION property=%s replay=%s' % (pid, path))
            return 1 if bad else 0
        finally:
            shutil.rmtree(work, ignore_errors=True)
    h = [x for x in hs if x.name == spec['harness']][0]
    work = tempfile.mkdtemp(prefix='verif-replay-')
    try:
        b = Build(work)
        so = b.native(h.wrapper, h.defs, san=h.sanitize)
        rep, text = replay_subprocess(pid, tier, h.name, spec.get('job', 0), spec['inputs'], b.ir(h.wrapper, h.defs), so, h.sanitize)
        print(('REPRODUCED: ' if rep else 'not reproduced: ') + text)
        if rep: print('VIOLATION property=%s replay=%s' % (pid, path))
        return 1 if rep else 0
    finally:
        shutil.rmtree(work, ignore_errors=True)


if __name__ == '__main__':
    sys.exit(main(sys.argv[1:]))
