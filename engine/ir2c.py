#!/usr/bin/env python3
"""E1: LLVM-14 IR module -> C for cbmc / gcc (exceptions lowered to a pending-flag protocol)."""
import re, sys, struct, collections
from irparse import *
from irparse import STD_BASES, cname

class Emitter:
    def __init__(self, mod):
        self.m = mod
        self.structs = collections.OrderedDict()  # key -> (cname, ty)
        self.decl_order = []
        self.emitted = set()
        self.anon = 0
        self.out = []
        self.ti_ids = {}

    # ---- types
    def uint(self, n):
        if n <= 8: return 'uint8_t'
        if n <= 16: return 'uint16_t'
        if n <= 32: return 'uint32_t'
        if n <= 64: return 'uint64_t'
        if n <= 128: return 'unsigned __int128'
        raise SyntaxError('int width %d' % n)

    def sint(self, n):
        if n <= 8: return 'int8_t'
        if n <= 16: return 'int16_t'
        if n <= 32: return 'int32_t'
        if n <= 64: return 'int64_t'
        return '__int128'

    def cw(self, n):
        for w in (8, 16, 32, 64, 128):
            if n <= w: return w

    def ct(self, ty):
        if isinstance(ty, IntTy): return self.uint(ty.n)
        if isinstance(ty, FloatTy): return {'float': 'float', 'double': 'double', 'x86_fp80': 'long double'}[ty.k]
        if isinstance(ty, VoidTy): return 'void'
        if isinstance(ty, PtrTy):
            if isinstance(ty.to, FnTy): return 'void*'
            if isinstance(ty.to, VoidTy): return 'void*'
            return self.ct(ty.to) + '*'
        if isinstance(ty, (StructTy, ArrTy)):
            return 'struct ' + self.sname(ty)
        if isinstance(ty, FnTy): return 'void'
        raise SyntaxError('ct ' + repr(ty))

    def sname(self, ty):
        k = ty.key()
        if k in self.structs: return self.structs[k][0]
        if isinstance(ty, StructTy) and ty.name:
            nm = 'S_' + cname(ty.name)
        elif isinstance(ty, ArrTy):
            self.anon += 1; nm = 'A%d' % self.anon
        else:
            self.anon += 1; nm = 'L%d' % self.anon
        self.structs[k] = (nm, ty)
        return nm

    def emit_struct_defs(self):
        # topological emission: by-value members first
        done = set(); lines = []
        fwd = []

        def need(ty):
            if isinstance(ty, (StructTy, ArrTy)):
                k = ty.key()
                self.sname(ty)
                if k in done: return
                done.add(k)
                if isinstance(ty, ArrTy):
                    need(ty.el); touch(ty.el)
                    lines.append('struct %s { %s a[%d]; };' % (self.sname(ty), self.ct(ty.el), max(ty.n, 1) if ty.n else 1))
                else:
                    els = ty.els or []
                    for e in els:
                        need(e); touch(e)
                    body = ' '.join('%s f%d;' % (self.ct(e), i) for i, e in enumerate(els))
                    if not els: body = 'uint8_t _empty;'
                    lines.append('struct %s { %s }%s;' % (self.sname(ty), body, ' __attribute__((packed))' if ty.packed else ''))

        def touch(ty):
            # make sure pointer targets have names registered
            while isinstance(ty, PtrTy): ty = ty.to
            if isinstance(ty, (StructTy, ArrTy)): self.sname(ty)
            if isinstance(ty, FnTy): pass

        # iterate until fixpoint since need() registers new structs
        while True:
            pending = [t for k, (n, t) in list(self.structs.items()) if k not in done]
            if not pending: break
            for t in pending: need(t)
        fw = ['struct %s;\n#define HAVE_TYPE_%s 1' % (n, n) for (n, t) in self.structs.values()]
        return fw + lines



# --------------------------------------------------------------------------
# function / global emission
# --------------------------------------------------------------------------
NOTHROW_EXTERNALS = {'strlen', 'memcpy', 'memmove', 'memset', 'memcmp', 'strcmp', 'strncmp', 'memchr', 'strchr',
                     'free', 'malloc', 'abort', '_ZdlPv', '_ZdaPv', '_ZdlPvm', '__cxa_allocate_exception',
                     '__cxa_free_exception', '__cxa_begin_catch', '__cxa_end_catch', 'snprintf', 'timegm', 'gmtime_r',
                     'strtoll', 'strtoul', 'round', 'isspace', 'isdigit'}


def zero_of(E, ty):
    if isinstance(ty, (IntTy,)): return '0'
    if isinstance(ty, FloatTy): return '0.0'
    if isinstance(ty, PtrTy): return '((%s)0)' % E.ct(ty)
    if isinstance(ty, (StructTy, ArrTy)): return '(%s){0}' % E.ct(ty)
    return '0'


class FnEmitter:
    def __init__(self, E, f):
        self.E = E; self.f = f; self.m = E.m
        self.regty = {}
        self.lines = []
        self.tmp = 0

    # ---------------- type inference for registers
    def vty(self, v):
        return v.ty

    def gep_result(self, bt, idx, const_ok=True):
        ty = bt
        for k, ix in enumerate(idx):
            if k == 0: continue
            if isinstance(ty, StructTy):
                ty = ty.els[ix.v]
            elif isinstance(ty, ArrTy):
                ty = ty.el
            else:
                raise SyntaxError('gep into scalar')
        return PtrTy(ty)

    def agg_path_ty(self, ty, path):
        for p in path:
            ty = ty.els[p] if isinstance(ty, StructTy) else ty.el
        return ty

    def infer(self):
        f = self.f
        for (pt, pn, pa) in f.params:
            if pn: self.regty[pn] = pt
        for b in f.blocks.values():
            for I in b:
                if I.op == 'getelementptr': I.ty = self.gep_result(I.bt, I.idx)
                elif I.op == 'extractvalue': I.ty = self.agg_path_ty(I.aggty, I.path)
                elif I.op == 'insertvalue': I.ty = I.aggty
                if I.dest: self.regty[I.dest] = I.ty

    # ---------------- values
    def mask(self, expr, n):
        if n in (8, 16, 32, 64, 128): return expr
        if n == 1: return '((%s)&1)' % expr
        return '((%s)&%s)' % (expr, hex((1 << n) - 1) + 'ULL')

    def cint(self, v, n):
        v &= (1 << n) - 1
        if n > 64:
            hi = v >> 64; lo = v & ((1 << 64) - 1)
            return '((((unsigned __int128)0x%xULL)<<64)|0x%xULL)' % (hi, lo)
        return '((%s)0x%xULL)' % (self.E.uint(n), v)

    def cfloat(self, txt, ty):
        if txt.startswith('0x'):
            h = txt[2:]
            if h[0] in 'KMLHR': raise SyntaxError('fp80 const')
            bits = int(h, 16)
            d = struct.unpack('<d', struct.pack('<Q', bits))[0]
        else:
            d = float(txt)
        if d != d: return '(0.0/0.0)'
        if d in (float('inf'), float('-inf')): return '(%s1.0/0.0)' % ('-' if d < 0 else '')
        s = d.hex()
        return '(%s%s)' % (s, 'f' if ty.k == 'float' else '')

    def val(self, v):
        E = self.E
        if isinstance(v, Reg): return 'r_' + cname(v.name)
        if isinstance(v, GRef):
            nm = v.name
            if nm in self.m.funcs: return '((%s)&%s)' % (E.ct(v.ty) if v.ty else 'void*', E.fname(nm))
            g = self.m.globals[nm]
            want = E.ct(v.ty) if v.ty else None
            base = '(&%s)' % E.gname(nm)
            return '((%s)%s)' % (want, base) if want else base
        if isinstance(v, CInt): return self.cint(v.v, v.ty.n)
        if isinstance(v, CFloat): return self.cfloat(v.txt, v.ty)
        if isinstance(v, CNull): return '((%s)0)' % E.ct(v.ty)
        if isinstance(v, (CUndef, CZero)): return zero_of(E, v.ty)
        if isinstance(v, CAgg): return '(%s)%s' % (E.ct(v.ty), self.agg_init(v))
        if isinstance(v, CStr): return '(%s)%s' % (E.ct(v.ty), self.agg_init(v))
        if isinstance(v, CExpr): return self.cexpr(v)
        raise SyntaxError('val ' + repr(v))

    def agg_init(self, v):
        if isinstance(v, CStr): return '{{%s}}' % ','.join(str(b) for b in v.b)
        if isinstance(v, CAgg):
            inner = ','.join(self.init_val(e) for e in v.els)
            if isinstance(v.ty, ArrTy): return '{{%s}}' % inner
            return '{%s}' % (inner if v.els else '0')
        raise SyntaxError('agg_init')

    def init_val(self, v):
        if isinstance(v, (CAgg, CStr)): return self.agg_init(v)
        if isinstance(v, (CZero, CUndef)) and isinstance(v.ty, (StructTy, ArrTy)): return '{0}'
        return self.val(v)

    def cexpr(self, v):
        E = self.E
        if v.op in CAST_OPS:
            return self.cast(v.op, v.args[0], v.ty)
        if v.op == 'getelementptr':
            return self.gep(v.extra, v.args[0], v.args[1:])
        if v.op in BIN_OPS:
            return self.binop(v.op, v.args[0].ty, self.val(v.args[0]), self.val(v.args[1]))
        if v.op == 'icmp':
            return self.icmp(v.extra, v.args[0].ty, self.val(v.args[0]), self.val(v.args[1]))
        if v.op == 'select':
            return '(%s ? %s : %s)' % (self.val(v.args[0]), self.val(v.args[1]), self.val(v.args[2]))
        raise SyntaxError('cexpr ' + v.op)

    def gep(self, bt, p, idx):
        E = self.E
        pe = self.val(p)
        # first index scales by sizeof(bt)
        i0 = idx[0]
        s64 = lambda x: '((int64_t)%s)' % self.sext_to64(x)
        if isinstance(i0, CInt) and i0.v == 0: expr = '(*%s)' % pe
        else: expr = '(%s[%s])' % (pe, s64(i0))
        ty = bt
        for ix in idx[1:]:
            if isinstance(ty, StructTy):
                expr += '.f%d' % ix.v; ty = ty.els[ix.v]
            else:
                expr += '.a[%s]' % s64(ix); ty = ty.el
        return '(&%s)' % expr

    def sext_to64(self, v):
        n = v.ty.n
        e = self.val(v)
        if n == 64: return e
        return '((int64_t)(%s)%s)' % (self.E.sint(n), e) if n in (8, 16, 32) else self.sext(e, n, 64)

    def sext(self, e, n, to):
        E = self.E
        w = E.cw(n)
        if n == w: return '((%s)(%s)(%s)%s)' % (E.uint(to), E.sint(to), E.sint(n), e)
        # odd width: shift left then arithmetic shift right in width w
        sh = w - n
        return '((%s)(%s)(((%s)((%s)%s << %d)) >> %d))' % (E.uint(to), E.sint(to), E.sint(w), E.uint(w), e, sh, sh)

    def signed(self, e, n):
        E = self.E
        w = E.cw(n)
        if n == w: return '((%s)%s)' % (E.sint(n), e)
        sh = w - n
        return '(((%s)((%s)%s << %d)) >> %d)' % (E.sint(w), E.uint(w), e, sh, sh)

    def cast(self, op, a, dt):
        E = self.E; st = a.ty; e = self.val(a)
        if op == 'bitcast':
            if isinstance(st, PtrTy) and isinstance(dt, PtrTy): return '((%s)%s)' % (E.ct(dt), e)
            if isinstance(st, IntTy) and isinstance(dt, FloatTy): return 'verif_bits_to_%s(%s)' % (dt.k, e)
            if isinstance(st, FloatTy) and isinstance(dt, IntTy): return 'verif_%s_to_bits(%s)' % (st.k, e)
            if st.key() == dt.key(): return e
            raise SyntaxError('bitcast %s -> %s' % (st.key(), dt.key()))
        if op == 'addrspacecast': return '((%s)%s)' % (E.ct(dt), e)
        if op == 'ptrtoint': return self.mask('((%s)(uintptr_t)%s)' % (E.uint(dt.n), e), dt.n)
        if op == 'inttoptr': return '((%s)(uintptr_t)%s)' % (E.ct(dt), e)
        if op == 'trunc': return self.mask('((%s)%s)' % (E.uint(dt.n), e), dt.n)
        if op == 'zext': return '((%s)%s)' % (E.uint(dt.n), e)
        if op == 'sext': return self.mask(self.sext(e, st.n, E.cw(dt.n)), dt.n)
        if op in ('fptrunc', 'fpext'): return '((%s)%s)' % (E.ct(dt), e)
        if op == 'fptoui': return self.mask('((%s)%s)' % (E.uint(dt.n), e), dt.n)
        if op == 'fptosi': return self.mask('((%s)(%s)%s)' % (E.uint(dt.n), E.sint(dt.n), e), dt.n)
        if op == 'uitofp': return '((%s)%s)' % (E.ct(dt), e)
        if op == 'sitofp': return '((%s)%s)' % (E.ct(dt), self.signed(e, st.n))
        raise SyntaxError(op)

    def binop(self, op, ty, a, b):
        E = self.E
        if isinstance(ty, FloatTy):
            if op == 'frem': return 'fmod(%s,%s)' % (a, b)
            return '(%s %s %s)' % (a, {'fadd': '+', 'fsub': '-', 'fmul': '*', 'fdiv': '/'}[op], b)
        n = ty.n; w = E.cw(n); U = E.uint(n)
        if op in ('add', 'sub', 'mul', 'and', 'or', 'xor'):
            c = {'add': '+', 'sub': '-', 'mul': '*', 'and': '&', 'or': '|', 'xor': '^'}[op]
            wt = 'uint32_t' if w < 32 else U
            return self.mask('((%s)((%s)%s %s (%s)%s))' % (U, wt, a, c, wt, b), n)
        if op == 'udiv': return 'verif_udiv%d(%s,%s)' % (w, a, b)
        if op == 'urem': return 'verif_urem%d(%s,%s)' % (w, a, b)
        if op == 'sdiv': return self.mask('verif_sdiv%d(%s,%s)' % (w, self.signed(a, n), self.signed(b, n)), n)
        if op == 'srem': return self.mask('verif_srem%d(%s,%s)' % (w, self.signed(a, n), self.signed(b, n)), n)
        if op == 'shl': return self.mask('((%s)verif_shl%d(%s,%s))' % (U, w, a, b), n)
        if op == 'lshr': return '((%s)verif_lshr%d(%s,%s))' % (U, w, a, b)
        if op == 'ashr': return self.mask('((%s)verif_ashr%d(%s,%s))' % (U, w, self.signed(a, n), b), n)
        raise SyntaxError(op)

    def icmp(self, pred, ty, a, b):
        if isinstance(ty, PtrTy):
            a = '((uintptr_t)%s)' % a; b = '((uintptr_t)%s)' % b
            n = 64
        else:
            n = ty.n
        c = {'eq': '==', 'ne': '!=', 'ugt': '>', 'uge': '>=', 'ult': '<', 'ule': '<=', 'sgt': '>', 'sge': '>=', 'slt': '<', 'sle': '<='}[pred]
        if pred[0] == 's':
            a = self.signed(a, n); b = self.signed(b, n)
        elif n < 32:
            a = '((uint32_t)%s)' % a; b = '((uint32_t)%s)' % b
        return '((uint8_t)(%s %s %s))' % (a, c, b)

    def fcmp(self, pred, a, b):
        ordd = '(!((%s)!=(%s)) && !((%s)!=(%s)))' % (a, a, b, b)
        uno = '(((%s)!=(%s)) || ((%s)!=(%s)))' % (a, a, b, b)
        base = {'eq': '==', 'gt': '>', 'ge': '>=', 'lt': '<', 'le': '<=', 'ne': '!='}
        if pred == 'true': return '((uint8_t)1)'
        if pred == 'false': return '((uint8_t)0)'
        if pred == 'ord': return '((uint8_t)%s)' % ordd
        if pred == 'uno': return '((uint8_t)%s)' % uno
        k = pred[1:]
        cmp_ = '((%s) %s (%s))' % (a, base[k], b)
        if pred[0] == 'o':
            if k == 'ne': return '((uint8_t)(%s && %s))' % (ordd, cmp_)
            return '((uint8_t)%s)' % cmp_
        return '((uint8_t)(%s || %s))' % (uno, cmp_)

    # ---------------- body
    def emit(self):
        E = self.E; f = self.f
        self.infer()
        L = self.lines
        # declarations
        for r, ty in self.regty.items():
            if any(r == pn for (_, pn, _) in f.params): continue
            if isinstance(ty, VoidTy): continue
            L.append('  %s r_%s;' % (E.ct(ty), cname(r)))
        # byval params: copy
        for (pt, pn, pa) in f.params:
            if pa.get('byval') and pn:
                L.append('  %s byval_%s = *r_%s; r_%s = &byval_%s;' % (E.ct(pt.to), cname(pn), cname(pn), cname(pn), cname(pn)))
        self.preds_phi = {}
        blocks = f.blocks
        names = list(blocks.keys())
        self.alias = {f.entry_alias: '__entry__'} if f.entry_alias else {}
        first = True
        for bn in names:
            L.append(' bb_%s: ;' % self.bname('%' + bn))
            for I in blocks[bn]:
                self.instr(bn, I)
        return L

    def bname(self, lbl):
        n = lbl[1:].strip('"')
        if n in self.alias: n = self.alias[n]
        return re.sub(r'[^A-Za-z0-9_]', '_', n)

    def goto(self, frm, to):
        """emit phi copies for edge frm->to then goto"""
        f = self.f
        tn = to[1:].strip('"')
        tn = self.alias.get(tn, tn)
        blk = f.blocks[tn]
        phis = [I for I in blk if I.op == 'phi']
        out = []
        if phis:
            frm_names = {frm}
            if frm == '__entry__' and f.entry_alias: frm_names.add(f.entry_alias)
            tmps = []
            for k, I in enumerate(phis):
                src = None
                for (v, l) in I.inc:
                    if l[1:].strip('"') in frm_names: src = v
                if src is None: raise SyntaxError('phi without edge from %s in %s' % (frm, tn))
                self.tmp += 1
                t = 'phi_t%d' % self.tmp
                out.append('%s %s = %s;' % (self.E.ct(I.ty), t, self.val(src)))
                tmps.append((I, t))
            for I, t in tmps:
                out.append('r_%s = %s;' % (cname(I.dest), t))
        out.append('goto bb_%s;' % self.bname(to))
        return '{ ' + ' '.join(out) + ' }'

    def ret_zero(self):
        if isinstance(self.f.ret, VoidTy): return 'return;'
        return 'return %s;' % zero_of(self.E, self.f.ret)

    def instr(self, bn, I):
        E = self.E; L = self.lines; op = I.op
        d = ('r_' + cname(I.dest)) if I.dest else None
        if op in BIN_OPS:
            L.append('  %s = %s;' % (d, self.binop(op, I.ty, self.val(I.a), self.val(I.b))))
        elif op == 'fneg':
            L.append('  %s = -(%s);' % (d, self.val(I.a)))
        elif op == 'icmp':
            L.append('  %s = %s;' % (d, self.icmp(I.pred, I.oty, self.val(I.a), self.val(I.b))))
        elif op == 'fcmp':
            L.append('  %s = %s;' % (d, self.fcmp(I.pred, self.val(I.a), self.val(I.b))))
        elif op in CAST_OPS:
            L.append('  %s = %s;' % (d, self.cast(op, I.a, I.ty)))
        elif op == 'select':
            L.append('  %s = (%s) ? %s : %s;' % (d, self.val(I.c), self.val(I.a), self.val(I.b)))
        elif op == 'freeze':
            L.append('  %s = %s;' % (d, self.val(I.a)))
        elif op == 'alloca':
            if I.count is not None and not (isinstance(I.count, CInt) and I.count.v == 1):
                L.append('  %s = (%s)verif_alloca(sizeof(%s) * (size_t)%s);' % (d, E.ct(I.ty), E.ct(I.aty), self.val(I.count)))
            else:
                L.insert(0, '  %s alloca_%s;' % (E.ct(I.aty), cname(I.dest)))
                L.append('  %s = &alloca_%s;' % (d, cname(I.dest)))
        elif op == 'load':
            if I.atomic: L.append('  VERIF_ATOMIC_BEGIN(); %s = *%s; VERIF_ATOMIC_END();' % (d, self.val(I.p)))
            else: L.append('  %s = *%s;' % (d, self.val(I.p)))
            if isinstance(I.ty, IntTy) and I.ty.n not in (8, 16, 32, 64, 128):
                L.append('  %s = %s;' % (d, self.mask(d, I.ty.n)))
        elif op == 'store':
            if I.atomic: L.append('  VERIF_ATOMIC_BEGIN(); *%s = %s; VERIF_ATOMIC_END();' % (self.val(I.p), self.val(I.v)))
            else: L.append('  *%s = %s;' % (self.val(I.p), self.val(I.v)))
        elif op == 'getelementptr':
            L.append('  %s = %s;' % (d, self.gep(I.bt, I.p, I.idx)))
        elif op == 'phi':
            pass
        elif op == 'extractvalue':
            e = self.val(I.agg); ty = I.aggty
            for p in I.path:
                if isinstance(ty, StructTy): e += '.f%d' % p; ty = ty.els[p]
                else: e += '.a[%d]' % p; ty = ty.el
            L.append('  %s = %s;' % (d, e))
        elif op == 'insertvalue':
            L.append('  %s = %s;' % (d, self.val(I.agg)))
            e = d; ty = I.aggty
            for p in I.path:
                if isinstance(ty, StructTy): e += '.f%d' % p; ty = ty.els[p]
                else: e += '.a[%d]' % p; ty = ty.el
            L.append('  %s = %s;' % (e, self.val(I.v)))
        elif op in ('call', 'invoke'):
            self.call(bn, I)
        elif op == 'ret':
            L.append('  return%s;' % ('' if I.v is None else ' ' + self.val(I.v)))
        elif op == 'br':
            if I.cond is None: L.append('  ' + self.goto(bn, I.t))
            else: L.append('  if (%s) %s else %s' % (self.val(I.cond), self.goto(bn, I.t), self.goto(bn, I.f)))
        elif op == 'switch':
            L.append('  switch (%s) {' % self.val(I.v))
            for cv, l in I.cases:
                L.append('    case %s: %s' % (self.val(cv), self.goto(bn, l)))
            L.append('    default: %s' % self.goto(bn, I.default))
            L.append('  }')
        elif op == 'unreachable':
            L.append('  VERIF_UNREACHABLE(); %s' % self.ret_zero())
        elif op == 'resume':
            L.append('  verif_exc_pending = 1; %s' % self.ret_zero())
        elif op == 'landingpad':
            cl = []
            for kind, v in I.clauses:
                if kind == 'catch':
                    cl.append('(void*)0' if isinstance(v, CNull) else '(void*)%s' % self.val(v))
            L.append('  { void* cl_[] = {%s}; %s.f1 = (uint32_t)verif_landingpad(%d, cl_, %d); %s.f0 = (uint8_t*)verif_exc_obj; }' % (
                ','.join(cl + ['(void*)0']), d, len(cl), 1 if I.cleanup else 0, d))
        elif op == 'fence':
            L.append('  /* fence */')
        elif op == 'atomicrmw':
            p = self.val(I.p); v = self.val(I.v)
            ex = {'add': '*%s + %s', 'sub': '*%s - %s', 'and': '*%s & %s', 'or': '*%s | %s', 'xor': '*%s ^ %s', 'xchg': '(void)*%s, %s'}[I.rmw]
            L.append('  VERIF_ATOMIC_BEGIN(); %s = *%s; *%s = (%s)(%s); VERIF_ATOMIC_END();' % (d, p, p, E.ct(I.ty), ex % (p, v) if I.rmw != 'xchg' else v))
        elif op == 'cmpxchg':
            p = self.val(I.p)
            L.append('  VERIF_ATOMIC_BEGIN(); %s.f0 = *%s; %s.f1 = (%s.f0 == %s); if (%s.f1) *%s = %s; VERIF_ATOMIC_END();' % (d, p, d, d, self.val(I.cmp), d, p, self.val(I.new)))
        else:
            raise SyntaxError('emit ' + op)

    def call(self, bn, I):
        E = self.E; L = self.lines
        d = ('r_' + cname(I.dest)) if I.dest and not isinstance(I.rty, VoidTy) else None
        callee = I.callee
        args = [self.val(a) for (a, pa) in I.args]
        name = callee.name if isinstance(callee, GRef) else None
        may_throw = 'nounwind' not in I.attrs
        stmt = None
        if name and name.startswith('@llvm.'):
            stmt, may_throw = self.intrinsic(name[1:], I, d, args), False
        elif name in ('@__cxa_throw',):
            stmt = 'verif_throw(%s, %s);' % (args[0], args[1]); may_throw = True
        elif name == '@__cxa_rethrow':
            stmt = 'verif_rethrow();'; may_throw = True
        else:
            if name and name in self.m.funcs:
                fn = self.m.funcs[name]
                if 'nounwind' in fn.attrs or name[1:] in NOTHROW_EXTERNALS: may_throw = False
                # cast args to declared param types (pointer type differences)
                cargs = []
                for k, (a, pa) in enumerate(I.args):
                    if k < len(fn.params): cargs.append('(%s)%s' % (E.ct(fn.params[k][0]), args[k]))
                    else: cargs.append(args[k])
                ce = '%s(%s)' % (E.fname(name), ', '.join(cargs))
                if d: ce = '(%s)%s' % (E.ct(I.rty), ce)
            else:
                # indirect call
                fnty = I.fnty
                pts = [E.ct(a.ty) for (a, pa) in I.args]
                sig = '%s (*)(%s)' % (E.ct(I.rty), ', '.join(pts) if pts else 'void')
                ce = '((%s)%s)(%s)' % (sig, self.val(callee), ', '.join(args))
            stmt = ('%s = %s;' % (d, ce)) if d else ('%s;' % ce)
        if I.op == 'invoke':
            L.append('  %s' % stmt)
            if may_throw:
                L.append('  if (verif_exc_pending) %s' % self.goto(bn, I.unwind))
            L.append('  ' + self.goto(bn, I.normal))
        else:
            L.append('  %s' % stmt)
            if may_throw:
                L.append('  if (verif_exc_pending) %s' % self.ret_zero())

    def intrinsic(self, nm, I, d, args):
        E = self.E
        base = nm.split('.')
        if nm.startswith('llvm.lifetime') or nm.startswith('llvm.dbg') or nm.startswith('llvm.assume') or \
           nm.startswith('llvm.invariant') or nm.startswith('llvm.experimental.noalias') or nm.startswith('llvm.prefetch'):
            return '/* %s */' % nm
        if nm.startswith('llvm.memcpy'): return 'memcpy(%s, %s, (size_t)%s);' % (args[0], args[1], args[2])
        if nm.startswith('llvm.memmove'): return 'memmove(%s, %s, (size_t)%s);' % (args[0], args[1], args[2])
        if nm.startswith('llvm.memset'): return 'memset(%s, (int)%s, (size_t)%s);' % (args[0], args[1], args[2])
        if nm.startswith('llvm.eh.typeid.for'): return '%s = (uint32_t)verif_typeid_for((void*)%s);' % (d, args[0])
        if nm.startswith('llvm.expect'): return '%s = %s;' % (d, args[0])
        if nm.startswith('llvm.trap'): return 'VERIF_TRAP();'
        if nm.startswith('llvm.stacksave'): return '%s = 0;' % d
        if nm.startswith('llvm.stackrestore'): return '/* stackrestore */'
        if nm.startswith('llvm.objectsize'): return '%s = (%s)-1;' % (d, E.ct(I.rty))
        if nm.startswith('llvm.is.constant'): return '%s = 0;' % d
        m = re.match(r'llvm\.(u|s)(add|sub|mul)\.with\.overflow\.i(\d+)', nm)
        if m:
            n = int(m.group(3))
            return 'verif_%s%s_ov%d(%s, %s, &%s.f0, &%s.f1);' % (m.group(1), m.group(2), n, args[0], args[1], d, d)
        m = re.match(r'llvm\.(umax|umin|smax|smin)\.i(\d+)', nm)
        if m:
            n = int(m.group(2)); k = m.group(1)
            a, b = args
            if k[0] == 's': ca, cb = self.signed(a, n), self.signed(b, n)
            else: ca, cb = a, b
            c = '>' if k.endswith('max') else '<'
            return '%s = (%s %s %s) ? %s : %s;' % (d, ca, c, cb, a, b)
        m = re.match(r'llvm\.abs\.i(\d+)', nm)
        if m:
            n = int(m.group(1)); a = args[0]
            return '%s = (%s < 0) ? (%s)(0 - %s) : %s;' % (d, self.signed(a, n), E.uint(n), a, a)
        m = re.match(r'llvm\.(ctlz|cttz|ctpop|bswap)\.i(\d+)', nm)
        if m: return '%s = verif_%s%s(%s);' % (d, m.group(1), m.group(2), args[0])
        m = re.match(r'llvm\.(fshl|fshr)\.i(\d+)', nm)
        if m: return '%s = verif_%s%s(%s, %s, %s);' % (d, m.group(1), m.group(2), args[0], args[1], args[2])
        m = re.match(r'llvm\.(fabs|floor|ceil|round|trunc|sqrt|rint|nearbyint|log|exp|sin|cos|pow|fma|fmuladd|copysign|minnum|maxnum)\.(f32|f64)', nm)
        if m:
            fn = {'minnum': 'fmin', 'maxnum': 'fmax'}.get(m.group(1), m.group(1)) + ('f' if m.group(2) == 'f32' else '')
            if m.group(1) == 'fmuladd': return '%s = (%s * %s) + %s;' % (d, args[0], args[1], args[2])
            return '%s = %s(%s);' % (d, fn, ', '.join(args))
        raise SyntaxError('intrinsic ' + nm)


LIBC = {'strlen', 'memchr', 'strchr', 'strcmp', 'strncmp', 'memcmp', 'strtoll', 'strtoul', 'snprintf', 'timegm',
        'gmtime_r', 'round', 'isspace', 'isdigit', 'abort', 'free', 'malloc', 'bcmp', 'strrchr', 'log', 'tan', 'atan', 'exp'}


def Emitter_fname(self, nm):
    n = cname(nm)
    if n in LIBC: return 'vl_' + n
    return n


def Emitter_gname(self, nm):
    return 'g_' + cname(nm)


Emitter.fname = Emitter_fname
Emitter.gname = Emitter_gname


def proto(E, f, with_names):
    ps = []
    for k, (pt, pn, pa) in enumerate(f.params):
        ps.append('%s%s' % (E.ct(pt), (' r_' + cname(pn)) if (with_names and pn) else ''))
    if f.va: ps.append('...')
    return '%s %s(%s)' % (E.ct(f.ret), E.fname(f.name), ', '.join(ps) if ps else 'void')




def emit_module(mod, keep=None):
    E = Emitter(mod)
    out = []
    bodies = []
    # function bodies first (registers struct types)
    for f in mod.funcs.values():
        if not f.defined: continue
        fe = FnEmitter(E, f)
        body = fe.emit()
        bodies.append('%s {\n%s\n  %s\n}\n' % (proto(E, f, True), '\n'.join(body), fe.ret_zero() if False else ''))
    # globals
    gl = []
    ge = FnEmitter(E, Func())
    ti_base = {}
    for g in mod.globals.values():
        cty = E.ct(g.ty)
        nm = E.gname(g.name)
        if g.init is None:
            gl.append('%s %s; /* external */' % (cty, nm))
        else:
            iv = ge.init_val(g.init)
            gl.append('%s %s = %s;' % (cty, nm, iv))
        n = g.name[1:]
        if n.startswith('_ZTI'):
            base = None
            if g.init is not None and isinstance(g.init, CAgg) and len(g.init.els) == 3:
                b = g.init.els[2]
                while isinstance(b, CExpr): b = b.args[0]
                if isinstance(b, GRef): base = b.name[1:]
            elif g.init is None:
                base = STD_BASES.get(n)
            ti_base[n] = base
    structs = E.emit_struct_defs()
    out.append('#include "verif_rt.h"')
    out += structs
    for f in mod.funcs.values():
        if f.name.startswith('@llvm.'): continue
        if cname(f.name) in LIBC or cname(f.name) == '__gxx_personality_v0': continue
        if not f.defined: out.append('#define HAVE_%s 1' % cname(f.name))
        out.append(proto(E, f, False) + ';')
    fwd = []
    for g in mod.globals.values():
        fwd.append('extern %s %s;' % (E.ct(g.ty), E.gname(g.name)))
    out += fwd
    out += gl
    # typeinfo base table
    out.append('void* verif_ti_base(void* ti) {')
    for n, b in ti_base.items():
        if b and ('@' + b) in mod.globals:
            out.append('  if (ti == (void*)&g_%s) return (void*)&g_%s;' % (n, b))
    out.append('  return (void*)0;\n}')
    out.append('#include "verif_models.h"')
    out += bodies
    return '\n'.join(out) + '\n'


def main():
    src = open(sys.argv[1]).read()
    mod = parse_module(src)
    sys.stderr.write('parsed: %d types, %d globals, %d funcs (%d defined)\n' % (len(mod.named), len(mod.globals), len(mod.funcs), sum(f.defined for f in mod.funcs.values())))
    c = emit_module(mod)
    open(sys.argv[2], 'w').write(c)


if __name__ == '__main__':
    main()
