"""sub-process body of a native replay: reads a spec on stdin, runs the harness on the native back end, prints a JSON verdict"""
import sys, os, json
HERE = os.path.dirname(os.path.abspath(__file__)); sys.path.insert(0, HERE)
import fw
from native import run_native
spec = json.load(sys.stdin)
os.environ['VERIF_TIER'] = spec['tier']
hs = fw.load_harnesses(spec['pid'], spec['tier'])
h = [x for x in hs if x.name == spec['hname']][0]
mod = fw.load_mod(spec['ll'])
if 'batch' in spec:
    # differential validation: several test inputs in one process (the caller falls back to one process per input if this one dies)
    out = []
    for (jobi, inputs) in spec['batch']:
        try: out.append(run_native(mod, spec['so'], (lambda j: lambda N: h.fn(N, h.jobs[j]))(jobi), inputs, h.mode))
        except Exception as e: out.append(dict(status='error', msg=str(e)))
    print(json.dumps(out, default=str))
else:
    r = run_native(mod, spec['so'], lambda N: h.fn(N, h.jobs[spec['jobi']]), spec['inputs'], h.mode, default_missing=None if spec.get('keep_obs') else 0)
    if not spec.get('keep_obs'): r.pop('observations', None)
    print(json.dumps(r, default=str))
