import z3
from llsym import Sym, CxxThrow, Finding, Unsupported, PathEnd, OBJ_SHIFT, mask

STR = '_ZNSt7__cxx1112basic_stringIcSt11char_traitsIcESaIcEE'
I64 = None

def install(I):
    from irparse import IntTy, PtrTy
    i8, i64 = IntTy(8), IntTy(64)
    P = PtrTy(i8)
    M = I.models
    def malloc_(I, n):
        n = I.concretize(n, 'malloc size'); return I.new_obj(max(n, 1), 'heap', 'heap')
    def free_(I, p, *a):
        if p == 0: return None
        o = I.objs[p >> OBJ_SHIFT]
        if (p & ((1 << OBJ_SHIFT) - 1)) or o.kind != 'heap': raise Finding('bad-free', o.name)
        if not o.alive: raise Finding('double-free', o.name)
        o.alive = False
    for n in ('_Znwm', '_Znam', 'malloc', '__cxa_allocate_exception'): M[n] = malloc_
    M['_ZnwmRKSt9nothrow_t'] = lambda I, n, nt: malloc_(I, n)      # operator new(size_t, nothrow): allocation failure is not in scope
    for n in ('_ZdlPv', '_ZdaPv', 'free', '_ZdlPvm', '_ZdaPvm'): M[n] = free_
    M['__cxa_free_exception'] = lambda I, p: None
    # std::system_error: category object and constructors are opaque (message text is never the subject)
    def sys_cat(I):
        if 'syscat' not in I.gaddrs: I.gaddrs['syscat'] = I.new_obj(8, 'system_category', 'zero')
        return I.gaddrs['syscat']
    M['_ZNSt3_V215system_categoryEv'] = sys_cat; M['_ZNSt3_V216generic_categoryEv'] = sys_cat
    for nme in ('_ZNSt12system_errorC2ESt10error_codePKc', '_ZNSt12system_errorC1ESt10error_codePKc', '_ZNSt12system_errorC2ESt10error_codeRKNSt7__cxx1112basic_stringIcSt11char_traitsIcESaIcEEE',
                '_ZNSt12system_errorC1ESt10error_codeRKNSt7__cxx1112basic_stringIcSt11char_traitsIcESaIcEEE'):
        I.overrides['@' + nme] = lambda I, *a: None
    M['_ZNSt12system_errorD1Ev'] = lambda I, *a: None; M['_ZNSt12system_errorD2Ev'] = lambda I, *a: None
    # contract checks inside C++ stub models (wrappers/*.cpp): an assumption on the current path
    def verif_assume(I, c):
        if isinstance(c, Sym): I.assume_feasible(I.term(c, c.n) != 0)
        elif not c: raise PathEnd()
    M['verif_assume'] = verif_assume
    def errno_location(I):
        if 'errno' not in I.gaddrs: I.gaddrs['errno'] = I.new_obj(4, 'errno', 'zero')
        return I.gaddrs['errno']
    M['__errno_location'] = errno_location
    # function-local statics (single-threaded): guard byte 0 = initialised flag
    def guard_acquire(I, g): return 0 if I.concretize(I.load(g, i8), 'guard') else 1
    def guard_release(I, g): I.store(g, i8, 1)
    M['__cxa_guard_acquire'] = guard_acquire; M['__cxa_guard_release'] = guard_release; M['__cxa_guard_abort'] = lambda I, g: None
    M['__cxa_atexit'] = lambda I, *a: 0
    def begin_catch(I, p):
        I.caught.append(I.inflight); return p
    M['__cxa_begin_catch'] = begin_catch
    M['__cxa_end_catch'] = lambda I: I.caught.pop() and None
    def strlen(I, p):
        n = 0
        while True:
            b = I.load(p + n, i8)
            if not I.decide(I.icmp('ne', 8, b, 0), 'strlen'): return n
            n += 1
    M['strlen'] = strlen
    def memchr(I, p, c, n):
        n = I.concretize(n, 'memchr n')
        for k in range(n):
            b = I.load(p + k, i8)
            if I.decide(I.icmp('eq', 8, b, I.trunc(c, 32, 8)), 'memchr'): return p + k
        return 0
    M['memchr'] = memchr
    def strchr(I, p, c):
        k = 0
        while True:
            b = I.load(p + k, i8)
            if I.decide(I.icmp('eq', 8, b, I.trunc(c, 32, 8)), 'strchr'): return p + k
            if not I.decide(I.icmp('ne', 8, b, 0), 'strchr'): return 0
            k += 1
    M['strchr'] = strchr
    def strcmp(I, a, b):
        k = 0
        while True:
            x = I.load(a + k, i8); y = I.load(b + k, i8)
            if not I.decide(I.icmp('eq', 8, x, y), 'strcmp'):
                return 1 if I.decide(I.icmp('ugt', 8, x, y), 'strcmp') else mask(32)
            if not I.decide(I.icmp('ne', 8, x, 0), 'strcmp'): return 0
            k += 1
    M['strcmp'] = strcmp
    # ---- std::string out-of-line members over the real layout {ptr, len, {cap | local[16]}}
    def s_ptr(I, s): return I.load(s, P)
    def s_len(I, s): return I.load(s + 8, i64)
    def s_cap(I, s): return 15 if s_ptr(I, s) == s + 16 else I.load(s + 16, i64)
    def s_reserve(I, s, need):
        cap = s_cap(I, s)
        if need <= cap: return
        nc = max(need, 2 * cap); p = I.new_obj(nc + 1, 'strbuf', 'heap'); old = s_ptr(I, s); ln = s_len(I, s)
        I.memcpy(p, old, ln + 1)
        if old != s + 16: free_(I, old)
        I.store(s, P, p); I.store(s + 16, i64, nc)
    def s_append(I, s, d, n):
        n = I.concretize(n, 'append n'); ln = I.concretize(s_len(I, s), 'string len')
        s_reserve(I, s, ln + n); p = s_ptr(I, s)
        I.memcpy(p + ln, d, n); I.store(s + 8, i64, ln + n); I.store(p + ln + n, i8, 0); return s
    M[STR + '9_M_appendEPKcm'] = s_append
    def s_create(I, s, capp, old):
        cap = I.concretize(I.load(capp, i64), 'cap'); old = I.concretize(old, 'old')
        if cap > old and cap < 2 * old: cap = 2 * old; I.store(capp, i64, cap)
        return I.new_obj(cap + 1, 'strbuf', 'heap')
    M[STR + '9_M_createERmm'] = s_create
    def s_init_empty(I, s):
        I.store(s, P, s + 16); I.store(s + 8, i64, 0); I.store(s + 16, i8, 0)
    # message building: empty bodies (formatting is never the subject)
    I.overrides['@' + STR + 'C2IS3_EEPKcRKS3_'] = lambda I, s, cstr, alloc: s_init_empty(I, s)
    I.overrides['@_ZStplIcSt11char_traitsIcESaIcEENSt7__cxx1112basic_stringIT_T0_T1_EEOS8_PKS5_'] = lambda I, ret, lhs, rhs: s_init_empty(I, ret)
    I.overrides['@_ZStplIcSt11char_traitsIcESaIcEENSt7__cxx1112basic_stringIT_T0_T1_EEPKS5_OS8_'] = lambda I, ret, lhs, rhs: s_init_empty(I, ret)
    # std::vector<osmium::Location>::_M_fill_assign(n, value) (libstdc++ template code, 8-byte elements): same effect without a 65536-iteration loop
    def vec_loc_fill_assign(I, vec, n, valp):
        from irparse import IntTy, PtrTy
        n = I.concretize(n, 'fill_assign count'); P8 = PtrTy(IntTy(8))
        pat = [I.load(valp + k, IntTy(8)) for k in range(8)]
        old = I.load(vec, P8)
        buf = I.new_obj(max(8 * n, 1), 'heap', 'heap') if n else 0
        if n: I.fill_pattern(buf, pat, n)
        if old: I.models['_ZdlPv'](I, old)
        I.store(vec, P8, buf); I.store(vec + 8, P8, buf + 8 * n); I.store(vec + 16, P8, buf + 8 * n)
    I.overrides['@_ZNSt6vectorIN6osmium8LocationESaIS1_EE14_M_fill_assignEmRKS1_'] = vec_loc_fill_assign
    # libstdc++ out-of-line container helpers
    from irparse import IntTy as _IT, PtrTy as _PT
    _P = _PT(_IT(8))
    def list_hook(I, node, pos):
        prev = I.load(pos + 8, _P)
        I.store(node, _P, pos); I.store(node + 8, _P, prev); I.store(prev, _P, node); I.store(pos + 8, _P, node)
    def list_unhook(I, node):
        nxt = I.load(node, _P); prev = I.load(node + 8, _P)
        I.store(prev, _P, nxt); I.store(nxt + 8, _P, prev)
    M['_ZNSt8__detail15_List_node_base7_M_hookEPS0_'] = list_hook; M['_ZNSt8__detail15_List_node_base9_M_unhookEv'] = list_unhook
    # unordered_map rehash policy: bucket counts are taken as requested, never rehash (a valid, if slow, hash table)
    M['_ZNKSt8__detail20_Prime_rehash_policy11_M_next_bktEm'] = lambda I, this, n: (n if not isinstance(n, Sym) else I.concretize(n, 'bucket count')) or 1
    def need_rehash(I, this, nb, ne, ni): return [0, 0]
    M['_ZNKSt8__detail20_Prime_rehash_policy14_M_need_rehashEmmm'] = need_rehash
    # std::map / std::set: red-black tree maintenance replaced by an unbalanced binary search tree (ordering-equivalent)
    def rb_insert(I, insert_left, x, p, header):
        il = I.concretize(insert_left, 'insert_left') if isinstance(insert_left, Sym) else insert_left
        I.store(x + 8, _P, p); I.store(x + 16, _P, 0); I.store(x + 24, _P, 0); I.store(x, _IT(32), 0)
        if il:
            I.store(p + 16, _P, x)
            if p == header: I.store(header + 8, _P, x); I.store(header + 24, _P, x)
            elif p == I.load(header + 16, _P): I.store(header + 16, _P, x)
        else:
            I.store(p + 24, _P, x)
            if p == I.load(header + 24, _P): I.store(header + 24, _P, x)
    M['_ZSt29_Rb_tree_insert_and_rebalancebPSt18_Rb_tree_node_baseS0_RS_'] = rb_insert
    def rb_increment(I, x):
        r = I.load(x + 24, _P)
        if r:
            x = r
            while True:
                l = I.load(x + 16, _P)
                if not l: return x
                x = l
        y = I.load(x + 8, _P)
        while x == I.load(y + 24, _P): x = y; y = I.load(y + 8, _P)
        return y if I.load(x + 24, _P) != y else x
    def rb_decrement(I, x):
        if I.load(x, _IT(32)) == 0 and I.load(I.load(x + 8, _P) + 8, _P) == x and False: return I.load(x + 24, _P)
        l = I.load(x + 16, _P)
        if l:
            y = l
            while True:
                r = I.load(y + 24, _P)
                if not r: return y
                y = r
        y = I.load(x + 8, _P)
        while x == I.load(y + 16, _P): x = y; y = I.load(y + 8, _P)
        return y
    for nm in ('_ZSt18_Rb_tree_incrementPSt18_Rb_tree_node_base', '_ZSt18_Rb_tree_incrementPKSt18_Rb_tree_node_base'): M[nm] = rb_increment
    for nm in ('_ZSt18_Rb_tree_decrementPSt18_Rb_tree_node_base', '_ZSt18_Rb_tree_decrementPKSt18_Rb_tree_node_base'): M[nm] = rb_decrement
    # libc calendar functions on concrete arguments (symbolic arguments need a harness-specific model, see harness/C13.py)
    def gmtime_r_(I, tp, tm):
        import time as _t, calendar
        t = I.load(tp, _IT(64))
        if isinstance(t, Sym):
            # contract model: an arbitrary broken-down time within the documented field ranges (years for 32-bit unsigned epochs)
            for k, (lo, hi) in enumerate(((0, 60), (0, 59), (0, 23), (1, 31), (0, 11), (70, 206), (0, 6), (0, 365), (0, 0))):
                v = I.fresh('tm_field%d' % k, 32); I.assume(z3.And(z3.UGE(I.term(v, 32), lo), z3.ULE(I.term(v, 32), hi)) if I.mode == 'BV' else z3.And(I.term(v, 32) >= lo, I.term(v, 32) <= hi))
                if I.mode != 'BV': v.lo, v.hi = lo, hi
                I.store(tm + 4 * k, _IT(32), v)
            return tm
        t = t - (1 << 64) if t >> 63 else t
        g = _t.gmtime(t)
        for k, v in enumerate((g.tm_sec, g.tm_min, g.tm_hour, g.tm_mday, g.tm_mon - 1, g.tm_year - 1900, (g.tm_wday + 1) % 7, g.tm_yday - 1, 0)): I.store(tm + 4 * k, _IT(32), v & 0xffffffff)
        return tm
    def timegm_(I, tm):
        import calendar
        f = [I.load(tm + 4 * k, _IT(32)) for k in range(6)]
        if any(isinstance(x, Sym) for x in f): return I.fresh('timegm', 64)          # over-approximation: any time_t (harnesses that check the value install an exact model)
        sg = lambda x: x - (1 << 32) if x >> 31 else x
        sec, mi, hr, d, mon, yr = [sg(x) for x in f]
        days = calendar.timegm((yr + 1900 + mon // 12, mon % 12 + 1, 1, 0, 0, 0)) // 86400 + (d - 1)
        return (days * 86400 + hr * 3600 + mi * 60 + sec) & ((1 << 64) - 1)
    M['gmtime_r'] = gmtime_r_; M['timegm'] = timegm_
    M['prctl'] = lambda I, *a: 0              # thread naming
    # anonymous memory mappings: fresh zero-filled memory (what the kernel delivers); mremap keeps the contents and zero-fills the growth;
    # the old address becomes invalid (MREMAP_MAYMOVE: modelled as always moving, the stricter reading); mapping failures are not in scope
    def mmap_(I, addr, length, prot, flags, fd, off):
        if isinstance(length, Sym): length = I.concretize(length, 'mmap length')
        if isinstance(fd, Sym): fd = I.concretize(fd, 'mmap fd')
        if (fd & 0xffffffff) != 0xffffffff: raise Unsupported('file-backed mmap')
        return I.new_obj(length, 'mmap', 'zero')
    def mremap_(I, old, old_size, new_size, flags, *rest):
        if isinstance(new_size, Sym): new_size = I.concretize(new_size, 'mremap size')
        if isinstance(old_size, Sym): old_size = I.concretize(old_size, 'mremap old size')
        o = I.objs[old >> OBJ_SHIFT]
        if not o.alive or o.kind != 'zero' or (old & ((1 << OBJ_SHIFT) - 1)): raise Finding('bad-mremap', o.name)
        n = I.new_obj(new_size, 'mmap', 'zero')
        I.memcpy(n, old, min(old_size, new_size, o.size))
        o.alive = False
        return n
    def munmap_(I, addr, length):
        o = I.objs[addr >> OBJ_SHIFT]
        if not o.alive: raise Finding('double-unmap', o.name)
        o.alive = False
        return 0
    M['mmap'] = mmap_; M['mmap64'] = mmap_; M['mremap'] = mremap_; M['munmap'] = munmap_
    M['sysconf'] = lambda I, name: 4096
    # single-threaded runs: an uncontended mutex, condition variables nobody waits on (a wait would block forever: refused)
    M['pthread_mutex_lock'] = lambda I, m: 0; M['pthread_mutex_unlock'] = lambda I, m: 0
    for nme in ('_ZNSt18condition_variableC1Ev', '_ZNSt18condition_variableC2Ev', '_ZNSt18condition_variableD1Ev', '_ZNSt18condition_variableD2Ev',
                '_ZNSt18condition_variable10notify_allEv', '_ZNSt18condition_variable10notify_oneEv'): M[nme] = lambda I, cv: None
    def cv_wait(I, cv, lk): raise Unsupported('condition_variable::wait in a single-threaded run (would block)')
    M['_ZNSt18condition_variable4waitERSt11unique_lockISt5mutexE'] = cv_wait
    def thread_join(I, t): raise Unsupported('std::thread::join (no threads are modelled)')
    M['_ZNSt6thread4joinEv'] = thread_join
    # C11 7.22.1.4 strtoll / strtoul for base 10 in the "C" locale: white space, optional sign, digits, clamp + ERANGE, *endptr
    def is_space(I, b):
        if not isinstance(b, Sym): return b in (32, 9, 10, 11, 12, 13)
        return I.decide(I.icmp('eq', 8, b, 32), 'space') or (I.decide(I.icmp('uge', 8, b, 9), 'space') and I.decide(I.icmp('ule', 8, b, 13), 'space'))
    def is_dig(I, b):
        if not isinstance(b, Sym): return 48 <= b <= 57
        return I.decide(I.icmp('uge', 8, b, 48), 'digit') and I.decide(I.icmp('ule', 8, b, 57), 'digit')
    def strto(signed):
        def f(I, nptr, endptr, base):
            p = nptr
            while is_space(I, I.load(p, _IT(8))): p += 1
            neg = False; b = I.load(p, _IT(8))
            if (b == 45) if not isinstance(b, Sym) else I.decide(I.icmp('eq', 8, b, 45), 'sign'): neg = True; p += 1
            elif (b == 43) if not isinstance(b, Sym) else I.decide(I.icmp('eq', 8, b, 43), 'sign'): p += 1
            start = p; val = z3.IntVal(0) if I.mode == 'INT' else None; cval = 0; anysym = False; ds = []
            while True:
                b = I.load(p, _IT(8))
                if not is_dig(I, b): break
                ds.append(b); p += 1
                if len(ds) > 40: raise Unsupported('strtoll: more than 40 digits')
            if not ds: p = nptr
            if endptr: I.store(endptr, _P, p)
            if not ds: return 0
            if all(not isinstance(d, Sym) for d in ds):
                v = int(bytes(ds)); v = -v if neg else v
                lo, hi = (-(1 << 63), (1 << 63) - 1) if signed else (-(1 << 64) + 1, (1 << 64) - 1)
                if v < lo or v > hi: I.store(I.models['__errno_location'](I), _IT(32), 34); v = (lo if v < lo else hi) if signed else hi
                return v & ((1 << 64) - 1)
            if I.mode != 'INT': raise Unsupported('strtoll on symbolic digits needs INT mode')
            for d in ds: val = val * 10 + (I.term(d, 8) - 48)
            val = -val if neg else val
            lo, hi = (-(1 << 63), (1 << 63) - 1) if signed else (-(1 << 64) + 1, (1 << 64) - 1)
            if I.decide(Sym(val > hi, 1), 'overflow'): r = z3.IntVal(hi); I.store(I.models['__errno_location'](I), _IT(32), 34)
            elif I.decide(Sym(val < lo, 1), 'underflow'): r = z3.IntVal(lo if signed else hi); I.store(I.models['__errno_location'](I), _IT(32), 34)
            else: r = val
            return I.from_signed(z3.simplify(r), -(1 << 63), (1 << 64) - 1, 64) if False else Sym(z3.simplify(z3.If(r < 0, r + (1 << 64), r)), 64)
        return f
    M['strtoll'] = strto(True); M['strtoul'] = strto(False); M['strtol'] = strto(True); M['strtoull'] = strto(False)
    M['isspace'] = lambda I, c: int(is_space(I, I.trunc(c, 32, 8) if isinstance(c, Sym) else c & 0xff))
    M['isdigit'] = lambda I, c: int(is_dig(I, I.trunc(c, 32, 8) if isinstance(c, Sym) else c & 0xff))
    # std::exception_ptr: an opaque token for the in-flight exception
    def current_exception(I, ret): I.store(ret, _P, 0x7e57)
    M['_ZSt17current_exceptionv'] = current_exception
    M['_ZNSt15__exception_ptr13exception_ptr10_M_releaseEv'] = lambda I, this: None
    M['_ZNSt15__exception_ptr13exception_ptr9_M_addrefEv'] = lambda I, this: None
    M['_ZNSt15__exception_ptr13exception_ptrC1EPv'] = lambda I, this, p: I.store(this, _P, p)
    # osmium::not_found(id): the constructor only formats the id into the message
    I.overrides['@_ZN6osmium9not_foundC2Em'] = lambda I, *a: None
    # std::to_string(integer): only used to build exception messages -> empty string (formatting is never the subject)
    for sfx in 'ilxjmy':
        I.overrides['@_ZNSt7__cxx119to_stringE' + sfx] = lambda I, ret, v: s_init_empty(I, ret)
    for n in ('_ZNSt11range_errorC2ERKNSt7__cxx1112basic_stringIcSt11char_traitsIcESaIcEEE', '_ZNSt11range_errorD2Ev',
              '_ZNSt11logic_errorC1EPKc', '_ZNSt11logic_errorD1Ev', '_ZNSt12length_errorC1EPKc', '_ZNSt12length_errorD1Ev',
              '_ZNSt13runtime_errorC2EPKc', '_ZNSt13runtime_errorD2Ev', '_ZNSt16invalid_argumentC1EPKc', '_ZNSt16invalid_argumentD1Ev',
              '_ZNSt13runtime_errorC2ERKNSt7__cxx1112basic_stringIcSt11char_traitsIcESaIcEEE'):
        M[n] = lambda I, *a: None
    def thrower(ti):
        def f(I, *a): raise CxxThrow(0, ti)
        return f
    M['_ZSt20__throw_length_errorPKc'] = thrower('@_ZTISt12length_error')
    M['_ZSt19__throw_logic_errorPKc'] = thrower('@_ZTISt11logic_error')
    M['_ZSt24__throw_out_of_range_fmtPKcz'] = thrower('@_ZTISt12out_of_range')
    M["_ZSt9terminatev"] = lambda I: (_ for _ in ()).throw(Finding("terminate", "std::terminate called"))
    install_more(I); install_libc2(I); install_mutate(I)


def install_more(I):
    from irparse import IntTy, PtrTy
    i8, i64 = IntTy(8), IntTy(64); P = PtrTy(i8)
    M = I.models
    def s_ptr(s): return I.load(s, P)
    def s_len(s): return I.concretize(I.load(s + 8, i64), 'string len')
    def s_cap(s): return 15 if s_ptr(s) == s + 16 else I.concretize(I.load(s + 16, i64), 'cap')
    def s_reserve(s, need):
        cap = s_cap(s)
        if need <= cap: return
        nc = max(need, 2 * cap); p = I.new_obj(nc + 1, 'strbuf', 'heap'); old = s_ptr(s); ln = s_len(s)
        I.memcpy(p, old, ln + 1)
        if old != s + 16: M['_ZdlPv'](I, old)
        I.store(s, P, p); I.store(s + 16, i64, nc)
    def s_setlen(s, n): I.store(s + 8, i64, n); I.store(s_ptr(s) + n, i8, 0)
    def s_init(s): I.store(s, P, s + 16); I.store(s + 8, i64, 0); I.store(s + 16, i8, 0)
    def replace(I_, s, pos, n1, d, n2):
        pos = I.concretize(pos, 'pos'); n1 = I.concretize(n1, 'n1'); n2 = I.concretize(n2, 'n2'); ln = s_len(s)
        if pos > ln: raise CxxThrow(0, '@_ZTISt12out_of_range')
        n1 = min(n1, ln - pos)
        tmp = I.new_obj(max(n2, 1), 'tmp', 'heap'); I.memcpy(tmp, d, n2)          # source may alias
        tail = ln - pos - n1
        tb = I.new_obj(max(tail, 1), 'tmp', 'heap'); I.memcpy(tb, s_ptr(s) + pos + n1, tail)
        s_reserve(s, ln - n1 + n2); p = s_ptr(s)
        I.memcpy(p + pos, tmp, n2); I.memcpy(p + pos + n2, tb, tail); s_setlen(s, ln - n1 + n2)
        I.objs[tmp >> OBJ_SHIFT].alive = False; I.objs[tb >> OBJ_SHIFT].alive = False
        return s
    S = '_ZNSt7__cxx1112basic_stringIcSt11char_traitsIcESaIcEE'
    M[S + '10_M_replaceEmmPKcm'] = replace
    def append(I_, s, d, n):
        return replace(I_, s, s_len(s), 0, d, n)
    M[S + '6appendEPKcm'] = append
    def replace_aux(I_, s, pos, n1, n2, c):
        n2 = I.concretize(n2, 'n2')
        t = I.new_obj(max(n2, 1), 'tmpfill', 'heap')
        if n2: I.memset(t, c if not isinstance(c, Sym) else I.trunc(c, c.n, 8), n2)
        r = replace(I_, s, pos, n1, t, n2); I.objs[t >> OBJ_SHIFT].alive = False; return r
    M[S + '14_M_replace_auxEmmmc'] = replace_aux
    M[S + '9_M_appendEPKcm'] = append
    def pluseq_cstr(I_, s, d): return append(I_, s, d, M['strlen'](I, d))
    M[S + 'pLEPKc'] = pluseq_cstr
    def pluseq_c(I_, s, c):
        t = I.new_obj(1, 'tmpc', 'heap'); I.store(t, i8, I.trunc(c, 32, 8) if False else c); r = append(I_, s, t, 1); I.objs[t >> OBJ_SHIFT].alive = False; return r
    M[S + 'pLEc'] = pluseq_c
    def erase(I_, s, pos, n):
        pos = I.concretize(pos, 'pos'); n = I.concretize(n, 'n'); ln = s_len(s); n = min(n, ln - pos)
        tail = ln - pos - n; tb = I.new_obj(max(tail, 1), 'tmp', 'heap'); I.memcpy(tb, s_ptr(s) + pos + n, tail)
        I.memcpy(s_ptr(s) + pos, tb, tail); s_setlen(s, ln - n); I.objs[tb >> OBJ_SHIFT].alive = False
    M[S + '8_M_eraseEmm'] = erase
    def resize(I_, s, n, c):
        n = I.decide_value(n, 'resize n', cap=512) if isinstance(n, Sym) else n; ln = s_len(s)
        if n > ln:
            s_reserve(s, n); p = s_ptr(s)
            I.memset(p + ln, c, n - ln)
        s_setlen(s, n)
    M[S + '6resizeEmc'] = resize
    M[S + '7reserveEm'] = lambda I_, s, n: s_reserve(s, I.concretize(n, 'reserve'))
    def construct_nc(I_, s, n, c):
        s_init(s); resize(I_, s, n, c)
    M[S + '12_M_constructEmc'] = construct_nc
    def ctor_pn(I_, s, d, n, alloc):
        s_init(s); append(I_, s, d, n)
    M[S + 'C2EPKcmRKS3_'] = ctor_pn
    def assign(I_, s, o):
        if s == o: return
        ln = s_len(o); s_reserve(s, ln); I.memcpy(s_ptr(s), s_ptr(o), ln); s_setlen(s, ln)
    M[S + '9_M_assignERKS4_'] = assign
    def swap(I_, a, b):
        if a == b: return
        la, lb = s_len(a), s_len(b)
        ta = I.new_obj(max(la, 1), 'tmp', 'heap'); I.memcpy(ta, s_ptr(a), la)
        tb = I.new_obj(max(lb, 1), 'tmp', 'heap'); I.memcpy(tb, s_ptr(b), lb)
        replace(I_, a, 0, la, tb, lb); replace(I_, b, 0, lb, ta, la)
        I.objs[ta >> OBJ_SHIFT].alive = False; I.objs[tb >> OBJ_SHIFT].alive = False
    M[S + '4swapERS4_'] = swap
    def find_first_of(I_, s, set_, pos, n):
        pos = I.concretize(pos, 'pos'); n = I.concretize(n, 'n'); ln = s_len(s); p = s_ptr(s)
        for k in range(pos, ln):
            b = I.load(p + k, i8)
            for j in range(n):
                if I.decide(I.icmp('eq', 8, b, I.load(set_ + j, i8)), 'find_first_of'): return k
        return mask(64)
    M['_ZNKSt7__cxx1112basic_stringIcSt11char_traitsIcESaIcEE13find_first_ofEPKcmm'] = find_first_of
    for n in ('_ZNSt11range_errorC1ERKNSt7__cxx1112basic_stringIcSt11char_traitsIcESaIcEEE', '_ZNSt13runtime_errorC2ERKS_', '_ZNSt13runtime_errorC1ERKS_', '_ZNSt11logic_errorC2ERKS_', '_ZNSt11range_errorC2EPKc', '_ZNSt11range_errorC1EPKc', '_ZNSt11range_errorD1Ev', '_ZNSt12out_of_rangeC1EPKc', '_ZNSt12out_of_rangeD1Ev', '_ZNSt13runtime_errorC1EPKc', '_ZNSt13runtime_errorD1Ev', '_ZNSt9exceptionD2Ev',
              '_ZNSt11logic_errorC2ERKNSt7__cxx1112basic_stringIcSt11char_traitsIcESaIcEEE'):
        M[n] = lambda I_, *a: None


def install_libc2(I):
    from irparse import IntTy
    i8 = IntTy(8)
    def strncmp(I_, a, b, n):
        n = I.concretize(n, 'strncmp n')
        for k in range(n):
            x = I.load(a + k, i8); y = I.load(b + k, i8)
            if not I.decide(I.icmp('eq', 8, x, y), 'strncmp'):
                return 1 if I.decide(I.icmp('ugt', 8, x, y), 'strncmp') else mask(32)
            if not I.decide(I.icmp('ne', 8, x, 0), 'strncmp'): return 0
        return 0
    I.models['strncmp'] = strncmp
    def memcmp(I_, a, b, n):
        n = I.concretize(n, 'memcmp n')
        for k in range(n):
            x = I.load(a + k, i8); y = I.load(b + k, i8)
            if not I.decide(I.icmp('eq', 8, x, y), 'memcmp'):
                return 1 if I.decide(I.icmp('ugt', 8, x, y), 'memcmp') else mask(32)
        return 0
    I.models['memcmp'] = memcmp; I.models['bcmp'] = memcmp
    def str_compare_cstr(I_, this, cs):
        # std::string::compare(const char*): traits compare over the common length, then the length difference
        from irparse import IntTy as _IT, PtrTy as _PT
        p = I.load(this, _PT(i8)); ln = I.concretize(I.load(this + 8, _IT(64)), 'len')
        k = 0
        while I.decide(I.icmp('ne', 8, I.load(cs + k, i8), 0), 'strlen'): k += 1
        r = memcmp(I_, p, cs, min(ln, k))
        if r != 0: return r
        return 0 if ln == k else (1 if ln > k else mask(32))
    I.models['_ZNKSt7__cxx1112basic_stringIcSt11char_traitsIcESaIcEE7compareEPKc'] = str_compare_cstr


def install_mutate(I):
    from irparse import IntTy, PtrTy
    i8, i64 = IntTy(8), IntTy(64); P = PtrTy(i8)
    def mutate(I_, s, pos, len1, src, len2):
        # libstdc++ _M_mutate: reallocate so that [pos,pos+len1) becomes room for len2 bytes (copied from src if non-null); length is NOT updated
        pos = I.concretize(pos, 'pos'); len1 = I.concretize(len1, 'len1'); len2 = I.concretize(len2, 'len2')
        old = I.load(s, P); ln = I.concretize(I.load(s + 8, i64), 'len'); cap = 15 if old == s + 16 else I.concretize(I.load(s + 16, i64), 'cap')
        how_much = ln - pos - len1; newcap = ln + len2 - len1
        if newcap > cap and newcap < 2 * cap: newcap = 2 * cap
        p = I.new_obj(newcap + 1, 'strbuf', 'heap')
        if pos: I.memcpy(p, old, pos)
        if src and len2: I.memcpy(p + pos, src, len2)
        if how_much: I.memcpy(p + pos + len2, old + pos + len1, how_much)
        if old != s + 16: I.models['_ZdlPv'](I, old)
        I.store(s, P, p); I.store(s + 16, i64, newcap)
    I.models['_ZNSt7__cxx1112basic_stringIcSt11char_traitsIcESaIcEE9_M_mutateEmmPKcm'] = mutate
    I.models['_ZNSt16invalid_argumentC1ERKNSt7__cxx1112basic_stringIcSt11char_traitsIcESaIcEEE'] = lambda I_, *a: None
