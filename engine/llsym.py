#!/usr/bin/env python3-vt
"""llsym: path-wise symbolic interpreter for LLVM-14 IR on z3 (prototype).

Pointers are concrete integers  (object_id << 40) + offset ; every access is
bounds/liveness checked.  Integers are Python ints when concrete, z3 terms when
symbolic (BV mode: BitVec; INT mode: Int in [0,2^n) with explicit wrap).
Branches on symbolic conditions fork (DFS by re-execution from a decision prefix).
"""
import sys, time, struct, re, os
sys.path.insert(0, __import__('os').path.dirname(__import__('os').path.abspath(__file__)))
sys.setrecursionlimit(100000)
import z3
from irparse import (parse_module, IntTy, FloatTy, VoidTy, PtrTy, ArrTy, StructTy, FnTy, Reg, GRef, CInt, CFloat,
                  CNull, CUndef, CZero, CAgg, CStr, CExpr, BIN_OPS, CAST_OPS, cname)

OBJ_SHIFT = 40


class Sym:
    __slots__ = ('t', 'n', 'lo', 'hi', 'origin', 'base', 's', 'slo', 'shi', 'tz', 'src', 'parts')
    def __init__(self, t, n, lo=0, hi=None):
        self.t = t; self.n = n; self.lo = lo; self.hi = ((1 << n) - 1) if hi is None else hi   # unsigned interval
        self.origin = None; self.base = None; self.s = None; self.slo = None; self.shi = None; self.tz = 0; self.src = None; self.parts = None      # tz/src/parts: provenance of packed words (x << k | y); s: s: the value as a signed integer term (INT mode), when known without an ite


def rng(v, n):
    if isinstance(v, Sym): return (v.lo, v.hi)
    return (v, v)


def _sexpr_pairs(txt):
    """'((a 1) (b (- 2)))' -> [('a', '1'), ('b', '(- 2)')] (top-level pairs of a get-value answer, texts kept verbatim)"""
    toks = re.findall(r'\|[^|]*\||\(|\)|[^\s()]+', txt)
    def rd(i):
        if toks[i] != '(': return toks[i], i + 1
        parts = []; i += 1
        while toks[i] != ')':
            x, i = rd(i); parts.append(x)
        return parts, i + 1
    def show(x): return x if isinstance(x, str) else '(' + ' '.join(show(y) for y in x) + ')'
    tree, _ = rd(0)
    return [(show(p[0]), show(p[1])) for p in tree]


class OpaqueF:
    """floating-point value the harness does not reason about (fresh, unconstrained)"""
    pass


class RealF:
    """floating-point value modelled as an exact rational (z3 Real term): used where the harness states that rounding cannot change the
    outcome of the comparisons made on it (small integer inputs); not IEEE arithmetic"""
    __slots__ = ('t',)
    def __init__(self, t): self.t = t


class FByte:
    """one byte of a floating-point value that was split by a byte-wise copy; only re-assembly of the complete value is supported"""
    __slots__ = ('v', 'i')
    def __init__(self, v, i): self.v = v; self.i = i


def realof(v):
    if isinstance(v, RealF): return v.t
    if isinstance(v, float):
        from fractions import Fraction
        f = Fraction(v); return z3.RealVal(f.numerator) / z3.RealVal(f.denominator) if f.denominator != 1 else z3.RealVal(f.numerator)
    raise Unsupported('real model: operand %r' % type(v).__name__)


class CxxThrow(Exception):
    def __init__(self, obj, ti): self.obj = obj; self.ti = ti


class Finding(Exception):
    def __init__(self, kind, msg): self.kind = kind; self.msg = msg


class Unsupported(Exception):
    pass


class PathEnd(Exception):
    pass


class Abort(Exception):
    pass


def mask(n): return (1 << n) - 1


def tosigned(v, n): return v - (1 << n) if v >> (n - 1) else v


class Obj:
    __slots__ = ('size', 'cells', 'alive', 'name', 'kind', 'fills', 'zero')
    def __init__(self, size, name, kind):
        self.size = size; self.cells = {}; self.alive = True; self.name = name; self.kind = kind
        self.fills = []            # (lo, hi, byte value) ranges written by large memsets, most recent last; cells take priority
        self.zero = (kind == 'zero')

    def default_byte(self, off):
        for lo, hi, v in reversed(self.fills):
            if lo <= off < hi: return v[(off - lo) % len(v)] if isinstance(v, list) else v
        return 0 if self.zero else None


class Layout:
    def __init__(self): self.cache = {}

    def size_align(self, ty):
        k = ty.key()
        if k in self.cache: return self.cache[k][:2]
        if isinstance(ty, IntTy):
            s = 1
            while s * 8 < ty.n: s *= 2
            r = (s, min(s, 16))
            if ty.n > 64: r = (16, 16)
        elif isinstance(ty, FloatTy): r = {'float': (4, 4), 'double': (8, 8), 'x86_fp80': (16, 16)}[ty.k]
        elif isinstance(ty, PtrTy): r = (8, 8)
        elif isinstance(ty, ArrTy):
            s, a = self.size_align(ty.el); r = (s * ty.n, a)
        elif isinstance(ty, StructTy):
            off = 0; al = 1; offs = []
            for e in ty.els or []:
                s, a = self.size_align(e)
                if ty.packed: a = 1
                off = (off + a - 1) // a * a; offs.append(off); off += s; al = max(al, a)
            off = (off + al - 1) // al * al
            self.cache[k] = (off, al, offs); return (off, al)
        else: raise Unsupported('size of ' + k)
        self.cache[k] = (r[0], r[1], None)
        return r

    def field_off(self, ty, i):
        self.size_align(ty); return self.cache[ty.key()][2][i]


class Interp:
    def __init__(self, mod, mode='BV', step_cap=2_000_000):
        self.m = mod; self.mode = mode; self.L = Layout()
        self.models = {}; self.overrides = {}
        self.step_cap = step_cap
        self.solver = z3.Solver(); self.set_query_timeout(90)
        self.stats = dict(paths=0, queries=0, solver_s=0.0, funcs=set(), findings=[], steps=0, unsupported=[])
        self.ti_base = {}
        self.symcount = 0
        self.opaque_fp = False; self.fp2int_range = None; self.fp_model = 'opaque'
        self.concrete_inputs = None; self.model = None; self.pending_obl = []; self.path_obl = 0
        self.reached = {}
        self.inputs = {}; self.observations = []

    # ------------------------------------------------------------ z3 helpers
    def set_query_timeout(self, seconds):
        """limit of the first (incremental z3) attempt at a query; what it leaves undecided goes to cvc5 and then to a fresh z3 (check())"""
        self.solver.set('timeout', int(os.environ.get('VERIF_QUERY_TIMEOUT_MS') or seconds * 1000))

    def fresh(self, name, n):
        self.symcount += 1
        nm = '%s!%d' % (name, self.symcount)
        if n == 1 and False: return Sym(z3.Bool(nm), 1)
        if self.mode == 'BV': return Sym(z3.BitVec(nm, n), n)
        t = z3.Int(nm); self.assume(z3.And(t >= 0, t < (1 << n))); return Sym(t, n)

    def named(self, name, n):
        """a harness input: symbolic in exploration, a constant in replay / differential runs"""
        if self.concrete_inputs is not None:
            if name not in self.concrete_inputs:
                # replay of a stored counterexample on a tree where the path asks for an input the counterexample did not need: 0 (stated in the replay output)
                if getattr(self, 'default_missing', None) is None: raise Unsupported('no concrete value for input ' + name)
                self.concrete_inputs[name] = self.default_missing
            v = self.concrete_inputs[name] & mask(n); self.inputs[name] = (v, n); return v
        if self.mode == 'BV': s = Sym(z3.BitVec(name, n), n)
        else:
            t = z3.Int(name); self.assume(z3.And(t >= 0, t < (1 << n))); s = Sym(t, n)
        self.inputs[name] = (s, n)
        return s

    def named_signed(self, name, n, lo, hi):
        """a signed harness input in [lo, hi] (INT mode keeps the signed term, so that no ite is needed to use it)"""
        if self.concrete_inputs is not None or self.mode == 'BV':
            v = self.named(name, n)
            if isinstance(v, Sym): self.assume(z3.And(v.t >= lo, v.t <= hi) if self.mode != 'BV' else z3.And(z3.SignExt(0, v.t) >= lo, z3.SignExt(0, v.t) <= hi))
            return v
        sv = z3.Int(name + '_s'); self.assume(z3.And(sv >= lo, sv <= hi))
        v = self.from_signed(sv, lo, hi, n)
        self.inputs[name] = (v, n)
        return v

    def observe(self, label, v):
        """record an output of the code under test (compared between interpreter and native runs)"""
        if isinstance(v, Sym):
            t = z3.simplify(v.t)
            v = (t.as_long() & mask(v.n)) if (z3.is_bv_value(t) or z3.is_int_value(t)) else (1 if z3.is_true(t) else (0 if z3.is_false(t) else None))
        self.observations.append((label, v))

    def reach(self, label):
        self.reached[label] = self.reached.get(label, 0) + 1; self.path_reached = True

    def cex(self, mdl):
        out = {}
        for name, (s, n) in self.inputs.items():
            if isinstance(s, Sym):
                v = mdl.eval(s.t, model_completion=True)
                out[name] = v.as_long() & mask(n)
            else: out[name] = s
        return out

    def assume(self, c):
        if isinstance(c, Sym): c = self.boolof(c)
        elif not z3.is_expr(c): c = z3.BoolVal(bool(c))
        if z3.is_false(z3.simplify(c)): raise PathEnd()           # e.g. a concrete test input outside the harness's domain
        self.pc.append(c); self.solver.add(c)
        if self.model is not None and not z3.is_true(self.model.eval(c, model_completion=True)): self.model = None

    def assume_feasible(self, c):
        """assume c; end the path silently if that makes it infeasible"""
        self.assume(c)
        if not self.check(): raise PathEnd()

    def check(self, extra=None):
        t = time.time(); self.stats['queries'] += 1
        r = self.solver.check(*([extra] if extra is not None else []))
        dt = time.time() - t; self.stats['solver_s'] += dt
        if dt > float(os.environ.get('VERIF_SLOWQ') or 1e9):
            if os.environ.get('VERIF_DUMPQ'):           # debugging aid: the slow query as a stand-alone SMT-LIB file
                d_ = z3.Solver(); d_.add(*self.solver.assertions())
                if extra is not None: d_.add(extra)
                open(os.path.join(os.environ['VERIF_DUMPQ'], 'q-%d-%d.smt2' % (os.getpid(), self.stats['queries'])), 'w').write('; %.1fs %s\n%s(check-sat)\n' % (dt, r, d_.to_smt2()))
            sys.stderr.write('SLOW QUERY %.1fs result=%s extra=%s\n  pc=%s\n' % (dt, r, extra, [str(c)[:200] for c in self.pc][-12:]))
        if r == z3.unknown:
            # second opinions before giving up on the path, all on the same query (whole path condition + extra) from scratch: cvc5 in a sub-process
            # and, beside it, a fresh z3; then the rest of cvc5's time limit; then a fresh z3 with a long limit.  z3's nonlinear integer arithmetic
            # answers at once or not at all depending on incidental term order and solver history, and cvc5 decides in well under a second some
            # queries no z3 run decides, and vice versa (measured, DESIGN section 7).  Only sat / unsat count as an answer.
            t = time.time(); job = None; last = ''
            try:
                job = self.cvc5_start(extra)
                for stage, limit in (('fresh-z3', 30000), ('cvc5', None), ('fresh-z3-long', 240000)):
                    if stage == 'cvc5':
                        r2 = self.cvc5_finish(job); job = None
                        if r2 is None: continue
                        r, self.msrc = r2
                    else:
                        s2 = z3.Solver(); s2.set('timeout', limit)
                        for c in self.solver.assertions(): s2.add(c)
                        if extra is not None: s2.add(extra)
                        r = s2.check(); self.msrc = s2
                        if r == z3.unknown: last = s2.reason_unknown(); continue
                    self.stats['retries'] = self.stats.get('retries', 0) + 1
                    if stage == 'cvc5': self.stats['cvc5_decided'] = self.stats.get('cvc5_decided', 0) + 1
                    return r == z3.sat
                raise Unsupported('solver unknown (%s)' % last)
            finally:
                self.stats['solver_s'] += time.time() - t
                if job is not None: self.cvc5_finish(job, kill=True)
        else: self.msrc = self.solver
        return r == z3.sat

    CVC5 = '/usr/bin/cvc5'

    def cvc5_start(self, extra, limit_s=120):
        """hand the current path condition (+ extra) to the cvc5 binary (runs beside this process); returns a job for cvc5_finish, or None"""
        import subprocess, tempfile
        if not os.path.exists(self.CVC5) or os.environ.get('VERIF_NO_CVC5'): return None
        asserts = list(self.solver.assertions()) + ([extra] if extra is not None else [])
        d = z3.Solver(); d.add(*asserts)
        consts = {}; todo = list(asserts); seen = set()
        while todo:
            e = todo.pop()
            if e.get_id() in seen: continue
            seen.add(e.get_id())
            if z3.is_const(e) and e.decl().kind() == z3.Z3_OP_UNINTERPRETED:
                if z3.is_int(e) or z3.is_real(e) or z3.is_bv(e) or z3.is_bool(e): consts[e.decl().name()] = e
            elif z3.is_app(e): todo.extend(e.children())
            elif z3.is_quantifier(e): return None
        names = sorted(consts)
        txt = '(set-logic ALL)\n(set-option :produce-models true)\n' + d.to_smt2()
        if names: txt += '(get-value (%s))\n' % ' '.join(consts[k].sexpr() for k in names)
        f = tempfile.NamedTemporaryFile('w', suffix='.smt2', prefix='llsym-cvc5-', delete=False)
        f.write(txt); f.close()
        try: proc = subprocess.Popen([self.CVC5, '--lang=smt2', '--tlimit=%d' % (limit_s * 1000), f.name], stdout=subprocess.PIPE, stderr=subprocess.DEVNULL, text=True)
        except OSError:
            os.unlink(f.name); return None
        return dict(proc=proc, file=f.name, asserts=asserts, consts=consts, names=names, deadline=time.time() + limit_s + 20)

    def cvc5_finish(self, job, kill=False):
        """verdict of a cvc5 job: (z3.unsat, None), (z3.sat, solver holding a z3 model built from cvc5's values and confirmed by z3), or None
        (no verdict: unknown, time limit, parse problem, model not confirmed)"""
        import subprocess
        if job is None: return None
        proc = job['proc']; out = ''
        try:
            if kill: proc.kill()
            try: out = proc.communicate(timeout=max(1, job['deadline'] - time.time()))[0]
            except subprocess.TimeoutExpired:
                proc.kill(); proc.communicate(); return None
        finally:
            try: os.unlink(job['file'])
            except OSError: pass
        if kill: return None
        asserts, consts, names = job['asserts'], job['consts'], job['names']
        lines = out.strip().split('\n', 1)
        verdict = lines[0].strip() if lines else ''
        if verdict == 'unsat': return (z3.unsat, None)
        if verdict != 'sat': return None
        s2 = z3.Solver(); s2.set('timeout', 60000); s2.add(*asserts)
        if names:
            body = lines[1] if len(lines) > 1 else ''
            if '(error' in body: return None
            try:
                vals = _sexpr_pairs(body)
                for nm_txt, val_txt in vals:
                    s2.add(*z3.parse_smt2_string('(assert (= %s %s))' % (nm_txt, val_txt), decls={k: consts[k] for k in names}))
            except Exception: return None
        if s2.check() != z3.sat: return None              # cvc5's assignment is accepted only if z3 evaluates the whole query to true under it
        return (z3.sat, s2)

    def get_model(self):
        """model of the last satisfiable check()"""
        return self.msrc.model()

    def term(self, v, n):
        if isinstance(v, Sym):
            if z3.is_bool(v.t): return z3.If(v.t, self.const(1, n), self.const(0, n))
            return v.t
        return self.const(v, n)

    def const(self, v, n):
        return z3.BitVecVal(v, n) if self.mode == 'BV' else z3.IntVal(v)

    def boolof(self, v):
        if isinstance(v, Sym):
            if z3.is_bool(v.t): return v.t
            return v.t != self.const(0, v.n)
        return z3.BoolVal(bool(v))

    def signed_t(self, t, n):
        # INT mode: unsigned canonical -> signed value
        return z3.If(t >= (1 << (n - 1)), t - (1 << n), t)

    def canon_t(self, s, n):
        # INT mode: signed (in range) -> unsigned canonical
        return z3.If(s < 0, s + (1 << n), s)

    def obligation(self, cond, kind, msg):
        """cond must hold on this path; otherwise finding with model"""
        self.path_obl += 1; self.stats['obligations'] = self.stats.get('obligations', 0) + 1
        if isinstance(cond, Sym): cond = self.boolof(cond)
        elif not z3.is_expr(cond): cond = z3.BoolVal(bool(cond))
        cond = z3.simplify(cond)
        if z3.is_true(cond): return
        if z3.is_false(cond) or self.check(z3.Not(cond)):
            e = Finding(kind, msg)
            if z3.is_false(cond) and not self.check(): raise PathEnd()
            e.model = self.get_model(); raise e

    def defer_obligation(self, cond, kind, msg):
        """UB-style side condition (no overflow, ...): collected and discharged with ONE query when the path ends.
        Sound per path: every input of the completed path satisfies the path condition at the point of the operation."""
        if getattr(self, 'native', False): return
        if self.opaque_fp and self.mentions_opaque(cond): return        # values derived from opaque floating-point results carry no range information
        self.path_obl += 1; self.stats['obligations'] = self.stats.get('obligations', 0) + 1
        self.pending_obl.append((cond, kind, msg))
        if len(self.pending_obl) >= 256: self.flush_obligations()

    def mentions_opaque(self, e, cap=400):
        todo = [e]; seen = 0
        while todo and seen < cap:
            x = todo.pop(); seen += 1
            if z3.is_const(x) and x.decl().kind() == z3.Z3_OP_UNINTERPRETED:
                if x.decl().name().startswith(('fp2int', 'fcmp')): return True
            else: todo.extend(x.children())
        return False

    def flush_obligations(self):
        po = self.pending_obl; self.pending_obl = []
        if not po: return
        if self.check(z3.Not(z3.And([c for c, _, _ in po]))):
            mdl = self.get_model()
            for c, kind, msg in po:
                if not z3.is_true(mdl.eval(c, model_completion=True)):
                    e = Finding(kind, msg); e.model = mdl; raise e
            raise Unsupported('deferred obligation failed but no conjunct is false in the model')

    # ------------------------------------------------------------ memory
    def new_obj(self, size, name, kind):
        self.objs.append(Obj(size, name, kind)); return (len(self.objs) - 1) << OBJ_SHIFT

    def resolve(self, addr, size, what):
        if isinstance(addr, Sym):
            addr = self.concretize(addr, 'symbolic address')
        oid = addr >> OBJ_SHIFT; off = addr & ((1 << OBJ_SHIFT) - 1)
        if addr == 0 or oid == 0: raise Finding('null-deref', '%s through NULL(+%d)' % (what, off))
        if oid >= len(self.objs): raise Finding('wild-pointer', '%s at %x' % (what, addr))
        o = self.objs[oid]
        if not o.alive: raise Finding('use-after-free', '%s of %d bytes at %s+%d (freed)' % (what, size, o.name, off))
        if off + size > o.size: raise Finding('out-of-bounds', '%s of %d bytes at %s+%d (size %d)' % (what, size, o.name, off, o.size))
        return o, off

    def concretize(self, v, why):
        """enumerate feasible values of a symbolic scalar by forking"""
        if not isinstance(v, Sym): return v
        d = self.decide_value(v, why, cap=256 if why == 'symbolic address' else 64)
        return d

    def store_bytes(self, o, off, size, v):
        # remove overlapping cells
        for k in [k for k in o.cells if k[0] < off + size and off < k[0] + k[1]]:
            if k == (off, size): continue
            if k[0] >= off and k[0] + k[1] <= off + size: del o.cells[k]; continue       # completely overwritten
            self.split_cell(o, k)
        for k in [k for k in o.cells if k[0] < off + size and off < k[0] + k[1] and k != (off, size)]:
            del o.cells[k]
        o.cells[(off, size)] = v

    def split_cell(self, o, k):
        v = o.cells.pop(k); off, size = k
        if size == 1: o.cells[k] = v; return
        for i in range(size):
            o.cells[(off + i, 1)] = self.extract_byte(v, i, size)

    def extract_byte(self, v, i, size):
        if isinstance(v, float): v = struct.unpack('<Q', struct.pack('<d', v))[0]
        if isinstance(v, (OpaqueF, RealF)): return FByte(v, i)
        if isinstance(v, FByte): return v
        if not isinstance(v, Sym): return (v >> (8 * i)) & 0xff
        if self.mode == 'BV': return Sym(z3.simplify(z3.Extract(8 * i + 7, 8 * i, self.term(v, v.n))), 8)
        return Sym((self.term(v, v.n) / (1 << (8 * i))) % 256, 8)

    def load(self, addr, ty):
        size = self.L.size_align(ty)[0]
        if isinstance(ty, (StructTy, ArrTy)):
            return self.load_agg(addr, ty)
        if isinstance(addr, Sym) and addr.base and self.mode == 'BV' and isinstance(ty, (IntTy, PtrTy)):
            r = self.load_symbolic(addr, ty, size)
            if r is not None: return r
        o, off = self.resolve(addr, size, 'load')
        c = o.cells.get((off, size))
        if c is None and self.mode == 'INT':
            # whole cells that tile the range exactly: compose at cell granularity (no byte splitting, no div/mod terms)
            tiles = sorted(k for k in o.cells if k[0] >= off and k[0] + k[1] <= off + size)
            if tiles and sum(k[1] for k in tiles) == size and not [k for k in o.cells if k[0] < off + size and off < k[0] + k[1] and k not in tiles] \
                    and not any(isinstance(o.cells[k], (float, OpaqueF, RealF, FByte)) for k in tiles):
                if all(not isinstance(o.cells[k], Sym) for k in tiles):
                    c = sum(o.cells[k] << (8 * (k[0] - off)) for k in tiles)
                else:
                    t = z3.Sum([self.term(o.cells[k], 8 * k[1]) * (1 << (8 * (k[0] - off))) for k in tiles])
                    lo = sum(rng(o.cells[k], 8 * k[1])[0] << (8 * (k[0] - off)) for k in tiles); hi = sum(rng(o.cells[k], 8 * k[1])[1] << (8 * (k[0] - off)) for k in tiles)
                    c = Sym(t, size * 8, lo, hi)
                    if len(tiles) == 2:
                        lo_c, hi_c = o.cells[tiles[0]], o.cells[tiles[1]]; kbits = 8 * tiles[0][1]
                        c.parts = (self.zext(hi_c, 8 * tiles[1][1], size * 8) if isinstance(hi_c, Sym) else hi_c, self.zext(lo_c, kbits, size * 8) if isinstance(lo_c, Sym) else lo_c, kbits)
        if c is None and self.mode == 'INT':
            # part of a wider cell whose value is known to fit into its low bytes (e.g. a zero-extended 32-bit value kept as one 64-bit cell)
            for k in o.cells:
                if k[0] <= off and off + size <= k[0] + k[1] and k[1] > size and isinstance(o.cells[k], Sym):
                    v = o.cells[k]; lo_bytes = off - k[0]
                    if lo_bytes == 0 and v.hi < (1 << (8 * size)): c = Sym(v.t, size * 8, v.lo, v.hi); c.s, c.slo, c.shi = None, None, None
                    elif lo_bytes > 0 and v.hi < (1 << (8 * lo_bytes)): c = 0
                    break
        if c is None:
            # assemble from bytes
            bs = []
            covered = [k for k in o.cells if k[0] < off + size and off < k[0] + k[1]]
            for k in covered:
                if k[1] != 1: self.split_cell(o, k)
            for i in range(size):
                b = o.cells.get((off + i, 1))
                if b is None:
                    b = o.default_byte(off + i)
                    if b is None: b = self.fresh('uninit_%s_%d' % (o.name, off + i), 8)
                    o.cells[(off + i, 1)] = b
                bs.append(b)
            if any(isinstance(b, FByte) for b in bs):
                if size == 8 and all(isinstance(b, FByte) and b.v is bs[0].v and b.i == i for i, b in enumerate(bs)): c = bs[0].v
                else: raise Unsupported('partial load of a floating-point value')
            elif all(not isinstance(b, Sym) for b in bs):
                c = sum(b << (8 * i) for i, b in enumerate(bs))
            elif self.mode == 'BV':
                c = Sym(z3.simplify(z3.Concat(*[self.term(b, 8) for b in reversed(bs)])) if size > 1 else self.term(bs[0], 8), size * 8)
            else:
                c = Sym(z3.Sum([self.term(b, 8) * (1 << (8 * i)) for i, b in enumerate(bs)]), size * 8)
        if isinstance(ty, IntTy):
            if isinstance(c, (OpaqueF, RealF)) and ty.n == 64: return c       # bits of a floating-point value that is only moved around
            if isinstance(c, float): raise Unsupported('int load of float cell')
            if ty.n < size * 8:
                c = self.trunc(c, size * 8, ty.n)
            return c
        if isinstance(ty, PtrTy):
            if isinstance(c, Sym): return c
            return c
        if isinstance(ty, FloatTy):
            if isinstance(c, (float, OpaqueF, RealF)): return c
            if isinstance(c, Sym): return c          # raw bits of a double that is only moved around (any arithmetic on it is refused / opaque)
            return struct.unpack('<d', struct.pack('<Q', c))[0] if ty.k == 'double' else struct.unpack('<f', struct.pack('<I', c))[0]
        raise Unsupported('load ' + ty.key())

    def load_symbolic(self, addr, ty, size, cap=512):
        """load through a symbolic address derived from a known object: bounds obligation + ite over the in-bounds offsets (no fork)"""
        base = addr.base; oid = base >> OBJ_SHIFT
        if oid <= 0 or oid >= len(self.objs): return None
        o = self.objs[oid]
        if not o.alive or o.size > cap * 8: return None
        obase = oid << OBJ_SHIFT
        off = z3.simplify(addr.t - z3.BitVecVal(obase, 64))
        inb = z3.ULE(off, o.size - size) if o.size >= size else z3.BoolVal(False)
        if self.check(z3.Not(inb)):
            e = Finding('out-of-bounds', 'load of %d bytes at symbolic offset into %s (size %d)' % (size, o.name, o.size)); e.model = self.get_model(); raise e
        self.assume(inb)
        # feasible offsets: all positions (stride 1) that the solver does not exclude cheaply by interval
        offs = list(range(0, o.size - size + 1))
        if len(offs) > cap: return None
        val = None; nbits = size * 8
        for k in reversed(offs):
            v = self.load(obase + k, IntTy(nbits))
            tv = self.term(v, nbits)
            val = tv if val is None else z3.If(off == k, tv, val)
        r = Sym(z3.simplify(val), nbits)
        if isinstance(ty, IntTy) and ty.n < nbits: r = self.trunc(r, nbits, ty.n)
        return r

    def load_agg(self, addr, ty):
        if isinstance(ty, StructTy):
            return [self.load(addr + self.L.field_off(ty, i), e) for i, e in enumerate(ty.els)]
        s = self.L.size_align(ty.el)[0]
        return [self.load(addr + i * s, ty.el) for i in range(ty.n)]

    def store(self, addr, ty, v):
        if isinstance(ty, StructTy):
            for i, e in enumerate(ty.els): self.store(addr + self.L.field_off(ty, i), e, v[i])
            return
        if isinstance(ty, ArrTy):
            s = self.L.size_align(ty.el)[0]
            for i in range(ty.n): self.store(addr + i * s, ty.el, v[i])
            return
        size = self.L.size_align(ty)[0]
        o, off = self.resolve(addr, size, 'store')
        if o.kind == 'const': raise Finding('write-to-const', 'store to constant %s' % o.name)
        if isinstance(ty, IntTy) and ty.n < size * 8 and isinstance(v, Sym):
            v = self.zext(v, ty.n, size * 8)
        if self.mode == 'INT' and isinstance(v, Sym) and v.parts and v.parts[0] is not None and v.parts[2] % 8 == 0 and 0 < v.parts[2] < size * 8:
            kb = v.parts[2] // 8; hi_p, lo_p = v.parts[0], v.parts[1]
            self.store_bytes(o, off, kb, self.trunc(lo_p, size * 8, 8 * kb) if isinstance(lo_p, Sym) else lo_p)
            self.store_bytes(o, off + kb, size - kb, self.trunc(hi_p, size * 8, 8 * (size - kb)) if isinstance(hi_p, Sym) else hi_p)
            return
        self.store_bytes(o, off, size, v)

    # ------------------------------------------------------------ integer ops
    def trunc(self, v, n, m):
        if not isinstance(v, Sym): return v & mask(m)
        if self.mode == 'BV': return Sym(z3.Extract(m - 1, 0, self.term(v, n)), m)
        if v.src and v.src[0] == 'zext' and v.src[2] == m: return v.src[1]
        if v.parts and v.parts[2] == m: return self.trunc(v.parts[1], n, m)
        if v.hi < (1 << m): return Sym(self.term(v, n), m, v.lo, v.hi)
        return Sym(self.term(v, n) % (1 << m), m)

    def zext(self, v, n, m):
        if not isinstance(v, Sym): return v
        if self.mode == 'BV': return Sym(z3.ZeroExt(m - n, self.term(v, n)), m)
        r = Sym(self.term(v, n), m, v.lo, v.hi); r.src = ('zext', v, n)
        return r

    def sext(self, v, n, m):
        if not isinstance(v, Sym): return tosigned(v, n) & mask(m)
        if self.mode == 'BV': return Sym(z3.SignExt(m - n, self.term(v, n)), m)
        t = self.term(v, n)
        if v.hi < (1 << (n - 1)): return Sym(t, m, v.lo, v.hi)
        if v.s is not None: return self.from_signed(v.s, v.slo, v.shi, m)
        return Sym(z3.If(t >= (1 << (n - 1)), t + ((1 << m) - (1 << n)), t), m)

    def binop(self, op, n, a, b, flags):
        if not isinstance(a, Sym) and not isinstance(b, Sym):
            return self.cbin(op, n, a, b)
        if self.mode == 'BV': return self.bvbin(op, n, a, b)
        return self.intbin(op, n, a, b, flags)

    def cbin(self, op, n, a, b):
        M = mask(n)
        if op == 'add': return (a + b) & M
        if op == 'sub': return (a - b) & M
        if op == 'mul': return (a * b) & M
        if op == 'and': return a & b
        if op == 'or': return a | b
        if op == 'xor': return a ^ b
        if op == 'shl': return (a << b) & M if b < n else 0
        if op == 'lshr': return a >> b if b < n else 0
        if op == 'ashr': return (tosigned(a, n) >> min(b, n - 1)) & M
        if op in ('udiv', 'urem'):
            if b == 0: raise Finding('div-by-zero', op)
            return a // b if op == 'udiv' else a % b
        if op in ('sdiv', 'srem'):
            sa, sb = tosigned(a, n), tosigned(b, n)
            if sb == 0: raise Finding('div-by-zero', op)
            q = abs(sa) // abs(sb); q = q if (sa < 0) == (sb < 0) else -q
            return (q if op == 'sdiv' else sa - q * sb) & M
        raise Unsupported(op)

    def bvbin(self, op, n, a, b):
        x = self.term(a, n); y = self.term(b, n)
        if op in ('udiv', 'urem', 'sdiv', 'srem'):
            self.obligation(y != 0, 'div-by-zero', op)
        f = {'add': lambda: x + y, 'sub': lambda: x - y, 'mul': lambda: x * y, 'and': lambda: x & y, 'or': lambda: x | y,
             'xor': lambda: x ^ y, 'shl': lambda: x << y, 'lshr': lambda: z3.LShR(x, y), 'ashr': lambda: x >> y,
             'udiv': lambda: z3.UDiv(x, y), 'urem': lambda: z3.URem(x, y), 'sdiv': lambda: x / y, 'srem': lambda: z3.SRem(x, y)}[op]
        return Sym(z3.simplify(f()), n)

    def signed_view(self, v, n):
        """(term of the signed value, lo, hi) if the unsigned interval does not straddle 2^(n-1)"""
        W = 1 << n; H = W >> 1
        lo, hi = rng(v, n)
        if hi < H: return (self.term(v, n), lo, hi)
        if lo >= H: return (self.term(v, n) - W, lo - W, hi - W)
        return None

    def from_signed(self, r, rlo, rhi, n):
        W = 1 << n
        if rlo >= 0: return Sym(r, n, rlo, rhi)
        if rhi < 0: return Sym(r + W, n, rlo + W, rhi + W)
        v = Sym(z3.If(r < 0, r + W, r), n); v.s = r; v.slo = rlo; v.shi = rhi
        return v

    def sterm(self, v, n):
        """INT mode: the value of v as a signed n-bit integer term"""
        if not isinstance(v, Sym): return z3.IntVal(tosigned(v, n))
        if v.s is not None: return v.s
        sv = self.signed_view(v, n)
        if sv: return sv[0]
        return self.signed_t(v.t, n)

    def srange(self, v, n):
        if not isinstance(v, Sym): return (tosigned(v, n),) * 2
        if v.s is not None: return (v.slo, v.shi)
        sv = self.signed_view(v, n)
        if sv: return (sv[1], sv[2])
        return (-(1 << (n - 1)), (1 << (n - 1)) - 1)

    def intbin(self, op, n, a, b, flags):
        if op in ('or', 'and', 'xor') and not isinstance(a, Sym) and isinstance(b, Sym): a, b = b, a          # commutative: constant second
        x = self.term(a, n); y = self.term(b, n); W = 1 << n
        if op in ('add', 'sub', 'mul') and not (op == 'mul' and isinstance(a, Sym) and isinstance(b, Sym)):
            va = (a.s, a.slo, a.shi) if isinstance(a, Sym) and a.s is not None else self.signed_view(a, n)
            vb = (b.s, b.slo, b.shi) if isinstance(b, Sym) and b.s is not None else self.signed_view(b, n)
            if va and vb:
                (ta, l1, h1), (tb, l2, h2) = va, vb
                if op == 'add': r, rlo, rhi = ta + tb, l1 + l2, h1 + h2
                elif op == 'sub': r, rlo, rhi = ta - tb, l1 - h2, h1 - l2
                else:
                    c = [l1 * l2, l1 * h2, h1 * l2, h1 * h2]; r, rlo, rhi = ta * tb, min(c), max(c)
                if -(W >> 1) <= rlo and rhi < (W >> 1):
                    return self.from_signed(r, rlo, rhi, n)
        if op in ('sdiv', 'srem') and not isinstance(b, Sym) and 0 < tosigned(b, n):
            va = self.signed_view(a, n); c = tosigned(b, n)
            if va and va[2] < 0:
                ta, l1, h1 = va; q = -((-ta) / c)
                if op == 'sdiv': return self.from_signed(q, -((-l1) // c), -((-h1) // c), n)
                return self.from_signed(ta - q * c, -(c - 1), 0, n)
        if n == 1 and op in ('and', 'or', 'xor'):
            p, q = self.boolof(a), self.boolof(b)
            return Sym({'and': z3.And, 'or': z3.Or, 'xor': z3.Xor}[op](p, q), 1)
        (alo, ahi), (blo, bhi) = rng(a, n), rng(b, n)
        H = W >> 1
        if op in ('add', 'sub', 'mul'):
            if op == 'mul' and isinstance(a, Sym) and isinstance(b, Sym):
                # symbolic x symbolic product: handed to z3's nonlinear integer arithmetic
                r = self.sterm(a, n) * self.sterm(b, n)
                (l1, h1), (l2, h2) = self.srange(a, n), self.srange(b, n)
                c = [l1 * l2, l1 * h2, h1 * l2, h1 * h2]; rlo, rhi = min(c), max(c)
                if -(W >> 1) <= rlo and rhi < (W >> 1): return self.from_signed(r, rlo, rhi, n)
                if 'nsw' in flags:
                    self.defer_obligation(z3.And(r >= -(W >> 1), r < (W >> 1)), 'signed-overflow', 'mul nsw i%d' % n)
                    v = Sym(self.canon_t(r, n), n); v.s = r; v.slo = max(rlo, -(W >> 1)); v.shi = min(rhi, (W >> 1) - 1); return v
                return Sym(r % W, n)
            f = {'add': lambda p, q: p + q, 'sub': lambda p, q: p - q, 'mul': lambda p, q: p * q}[op]
            # interval fast paths: operands non-negative as signed, exact result stays in range -> no wrap, no ite
            if ahi < H and bhi < H:
                if op == 'add': rlo, rhi = alo + blo, ahi + bhi
                elif op == 'mul': rlo, rhi = alo * blo, ahi * bhi
                else: rlo, rhi = alo - bhi, ahi - blo
                lim = H if 'nsw' in flags else W
                if rlo >= 0 and rhi < lim: return Sym(f(x, y), n, rlo, rhi)
            # small negative constants written as 2^n - c (e.g. add nsw x, -48)
            if op == 'add' and not isinstance(b, Sym) and b >= H and ahi < H and alo >= W - b:
                return Sym(x - (W - b), n, alo - (W - b), ahi - (W - b))
            if 'nsw' in flags:
                r = f(self.signed_t(x, n), self.signed_t(y, n))
                self.defer_obligation(z3.And(r >= -(W >> 1), r < (W >> 1)), 'signed-overflow', '%s nsw i%d' % (op, n))
                return Sym(self.canon_t(r, n), n)
            r = f(x, y)
            if 'nuw' in flags:
                self.defer_obligation(z3.And(r >= 0, r < W), 'unsigned-overflow', '%s nuw i%d' % (op, n))
                return Sym(r % W, n)
            return Sym(r % W, n)
        if not isinstance(b, Sym):
            if op == 'and':
                if b & (b + 1) == 0 and a.parts and (1 << a.parts[2]) == b + 1: return a.parts[1]
                if b & (b + 1) == 0:
                    if ahi <= b: return Sym(x, n, alo, ahi)
                    if alo // (b + 1) == ahi // (b + 1):          # interval inside one period: exact, no mod
                        q = alo // (b + 1); return Sym(x - q * (b + 1), n, alo - q * (b + 1), ahi - q * (b + 1))
                    return Sym(x % (b + 1), n, 0, b)              # low mask
                inv = (~b) & mask(n)
                if inv & (inv + 1) == 0: return Sym(x - (x % (inv + 1)), n)   # clear low bits
            if op == 'shl':
                if b >= n: return 0
                if ahi < (1 << (n - b)): r = Sym(x * (1 << b), n, alo << b, ahi << b)
                else: r = Sym((x * (1 << b)) % W, n)
                r.tz = b; r.src = ('shl', a, b)
                return r
            if op == 'lshr':
                if b >= n: return 0
                if a.parts and a.parts[2] == b and a.parts[0] is not None: return a.parts[0]
                return Sym(x / (1 << b), n, alo >> b, ahi >> b)
            if op == 'udiv': return Sym(x / b, n, alo // b, ahi // b)
            if op == 'urem':
                if alo // b == ahi // b: return Sym(x - (alo // b) * b, n, alo % b, ahi % b)
                return Sym(x % b, n, 0, min(ahi, b - 1))
            if op in ('sdiv', 'srem'):
                sb = tosigned(b, n)
                if sb <= 0: raise Unsupported('INT: sdiv by non-positive const')
                if ahi < H:
                    return Sym(x / sb, n, alo // sb, ahi // sb) if op == 'sdiv' else Sym(x % sb, n, 0, min(ahi, sb - 1))
                s = self.signed_t(x, n)
                q = z3.If(s >= 0, s / sb, -((-s) / sb))
                return Sym(self.canon_t(q if op == 'sdiv' else s - q * sb, n), n)
            if op == 'ashr':
                if 0 < b < n:
                    # sign extension idioms on packed words, kept free of div/mod terms: ashr(shl(v, b), b) == sext(trunc(v, n - b));
                    # ashr(hi << b | lo, b) == sext(hi) when hi is an (n - b)-bit value
                    m = n - b
                    if a.src and a.src[0] == 'shl' and a.src[2] == b: return self.sext(self.trunc(a.src[1], n, m), m, n)
                    if a.parts and a.parts[2] == b and a.parts[0] is not None and (not isinstance(a.parts[0], Sym) or a.parts[0].hi < (1 << m)):
                        return self.sext(self.trunc(a.parts[0], n, m), m, n)
                s = self.signed_t(x, n); return Sym(self.canon_t(z3.If(s >= 0, s / (1 << b), -((-s + (1 << b) - 1) / (1 << b))), n), n)
            if op == 'or' and b == 0: return a
            if op == 'or' and a.tz and b < (1 << a.tz):             # (hi << k) | constant low part: disjoint, exact as a sum
                r = Sym(x + b, n, alo + b, ahi + b)
                hi_part = a.src[1] if a.src and a.src[0] == 'shl' and a.src[2] == a.tz and a.hi < W else None
                r.parts = (hi_part, b, a.tz)
                return r
            if op == 'or' and b != 0 and ahi < (b & -b):             # constant with only higher bits set: disjoint, exact as a sum
                r = Sym(x + b, n, alo + b, ahi + b)
                k = (((b & -b).bit_length() - 1) // 8) * 8           # byte-aligned split point: stores keep the symbolic low part as one cell
                while k > 0 and ahi >= (1 << k): k += 8
                if 0 < k < n and ahi < (1 << k): r.parts = (b >> k, a, k)
                return r
            if op == 'and' and b != 0 and (b & (b + 1)) != 0:
                # mask that keeps a contiguous field [lo_bit, hi_bit]: (x / 2^lo) mod 2^w * 2^lo
                lo_bit = (b & -b).bit_length() - 1; fld = b >> lo_bit
                if fld & (fld + 1) == 0:
                    w = fld.bit_length()
                    if ahi < (1 << (lo_bit + w)): q = x / (1 << lo_bit)
                    else: q = (x / (1 << lo_bit)) % (1 << w)
                    r = Sym(q * (1 << lo_bit), n, 0, fld << lo_bit); r.tz = lo_bit
                    return r
            if op == 'xor' and b == 0: return a
            if op == 'xor' and b == 1 and ahi <= 1: return Sym(1 - x, n, 1 - ahi, 1 - alo)          # negation of a 0/1 value
        if op == 'or' and isinstance(a, Sym) and isinstance(b, Sym):
            # disjoint bit ranges (hi << k) | lo: exact as a sum
            for p, q in ((a, b), (b, a)):
                if p.tz and q.hi < (1 << p.tz):
                    r = Sym(p.t + q.t, n, p.lo + q.lo, p.hi + q.hi)
                    hi_part = p.src[1] if p.src and p.src[0] == 'shl' and p.src[2] == p.tz and p.hi < W else None
                    r.parts = (hi_part, q, p.tz)
                    return r
        raise Unsupported('INT mode: %s i%d with symbolic operand(s) [%s | %s]' % (op, n, (a.lo, a.hi, a.tz) if isinstance(a, Sym) else a, (b.lo, b.hi, b.tz) if isinstance(b, Sym) else b))

    def icmp(self, pred, n, a, b):
        if not isinstance(a, Sym) and not isinstance(b, Sym):
            if pred[0] == 's': a, b = tosigned(a, n), tosigned(b, n)
            return int({'eq': a == b, 'ne': a != b, 'ugt': a > b, 'uge': a >= b, 'ult': a < b, 'ule': a <= b,
                        'sgt': a > b, 'sge': a >= b, 'slt': a < b, 'sle': a <= b}[pred])
        if pred[0] == 'u' or (pred[0] == 's' and rng(a, n)[1] < (1 << (n - 1)) and rng(b, n)[1] < (1 << (n - 1))):
            (alo, ahi), (blo, bhi) = rng(a, n), rng(b, n); k = pred[1:]
            if k in ('gt', 'ge') and alo > bhi: return 1
            if k in ('lt', 'le') and ahi < blo: return 1
            if k == 'gt' and ahi <= blo: return 0
            if k == 'ge' and ahi < blo: return 0
            if k == 'lt' and alo >= bhi: return 0
            if k == 'le' and alo > bhi: return 0
        x = self.term(a, n); y = self.term(b, n)
        if self.mode == 'BV':
            r = {'eq': lambda: x == y, 'ne': lambda: x != y, 'ugt': lambda: z3.UGT(x, y), 'uge': lambda: z3.UGE(x, y),
                 'ult': lambda: z3.ULT(x, y), 'ule': lambda: z3.ULE(x, y), 'sgt': lambda: x > y, 'sge': lambda: x >= y,
                 'slt': lambda: x < y, 'sle': lambda: x <= y}[pred]()
        else:
            if pred[0] == 's' and not (rng(a, n)[1] < (1 << (n - 1)) and rng(b, n)[1] < (1 << (n - 1))): x, y = self.sterm(a, n), self.sterm(b, n)
            elif pred in ('eq', 'ne') and isinstance(a, Sym) and a.s is not None and (not isinstance(b, Sym) or b.s is not None): x, y = self.sterm(a, n), self.sterm(b, n)
            k = pred[-2:] if pred not in ('eq', 'ne') else pred
            r = {'eq': lambda: x == y, 'ne': lambda: x != y, 'gt': lambda: x > y, 'ge': lambda: x >= y, 'lt': lambda: x < y, 'le': lambda: x <= y}[k]()
        res = Sym(z3.simplify(r), 1); res.origin = (pred, a, b, n)
        return res

    def refine(self, cond, d):
        """after deciding cond==d on this path, tighten the interval of the compared Sym (in place)"""
        o = getattr(cond, 'origin', None)
        if not o: return
        pred, a, b, n = o
        if isinstance(b, Sym) and not isinstance(a, Sym):
            a, b = b, a; pred = {'ugt': 'ult', 'uge': 'ule', 'ult': 'ugt', 'ule': 'uge', 'sgt': 'slt', 'sge': 'sle', 'slt': 'sgt', 'sle': 'sge'}.get(pred, pred)
        if not isinstance(a, Sym) or isinstance(b, Sym): return
        if not d: pred = {'eq': 'ne', 'ne': 'eq', 'ugt': 'ule', 'uge': 'ult', 'ult': 'uge', 'ule': 'ugt', 'sgt': 'sle', 'sge': 'slt', 'slt': 'sge', 'sle': 'sgt'}[pred]
        W = 1 << n; H = W >> 1; c = b
        if pred == 'eq': a.lo = a.hi = c
        elif pred == 'ugt': a.lo = max(a.lo, c + 1)
        elif pred == 'uge': a.lo = max(a.lo, c)
        elif pred == 'ult': a.hi = min(a.hi, c - 1)
        elif pred == 'ule': a.hi = min(a.hi, c)
        elif pred[0] == 's':
            sc = tosigned(c, n)
            # express as a constraint on the unsigned value when the current interval is on one side of H
            if a.hi < H or a.lo >= H:
                base = 0 if a.hi < H else W
                lo_s, hi_s = a.lo - base, a.hi - base
                if pred == 'sgt': lo_s = max(lo_s, sc + 1)
                elif pred == 'sge': lo_s = max(lo_s, sc)
                elif pred == 'slt': hi_s = min(hi_s, sc - 1)
                elif pred == 'sle': hi_s = min(hi_s, sc)
                if lo_s <= hi_s: a.lo, a.hi = lo_s + base, hi_s + base
            else:
                if pred in ('slt', 'sle') and (sc - (pred == 'slt')) < 0: a.lo = max(a.lo, H); a.hi = min(a.hi, W + sc - (pred == 'slt'))
                elif pred in ('sgt', 'sge') and (sc + (pred == 'sgt')) >= 0: a.hi = min(a.hi, H - 1); a.lo = max(a.lo, sc + (pred == 'sgt'))

    # ------------------------------------------------------------ forking
    def decide(self, cond, why):
        """cond: Sym i1 -> concrete bool for this path"""
        if not isinstance(cond, Sym): return bool(cond)
        c = self.boolof(cond)
        c = z3.simplify(c)
        if z3.is_true(c): return True
        if z3.is_false(c): return False
        if self.dpos < len(self.prefix):
            d = self.prefix[self.dpos]; self.dpos += 1
            self.assume(c if d else z3.Not(c)); self.trace.append(d); self.refine(cond, d)
            return d
        # model cache: a model of the current path condition decides one side for free
        mv = None
        if self.model is not None:
            ev = self.model.eval(c, model_completion=True)
            mv = True if z3.is_true(ev) else (False if z3.is_false(ev) else None)
        if mv is None:
            t = self.check(c)
            if t: self.model = self.get_model(); f = self.check(z3.Not(c)); mt = self.model; mf = self.get_model() if f else None
            else: f = self.check(z3.Not(c)); mt = None; mf = self.get_model() if f else None
        elif mv:
            t = True; mt = self.model; f = self.check(z3.Not(c)); mf = self.get_model() if f else None
        else:
            f = True; mf = self.model; t = self.check(c); mt = self.get_model() if t else None
        if t and f:
            self.work.append(self.trace + [False]); d = True
        elif t: d = True
        elif f: d = False
        else: raise PathEnd()
        self.model = mt if d else mf
        self.dpos += 1; self.prefix = self.trace + [d]
        self.trace.append(d)
        self.assume(c if d else z3.Not(c)); self.refine(cond, d)
        return d

    def decide_value(self, v, why, cap=64):
        """fork over the feasible concrete values of v"""
        t = self.term(v, v.n)
        if self.dpos < len(self.prefix):
            d = self.prefix[self.dpos]; self.dpos += 1
            self.assume(t == self.const(d, v.n)); self.trace.append(d); return d
        vals = []
        self.solver.push()
        while len(vals) <= cap and self.check():
            mv = self.get_model().eval(t, model_completion=True).as_long(); vals.append(mv)
            self.solver.add(t != self.const(mv, v.n))
        self.solver.pop()
        if not vals: raise PathEnd()
        if len(vals) > cap: raise Unsupported('more than %d values for %s' % (cap, why))
        for other in vals[1:]: self.work.append(self.trace + [other])
        d = vals[0]
        self.dpos += 1; self.prefix = self.trace + [d]; self.trace.append(d)
        self.assume(t == self.const(d, v.n))
        return d

    # ------------------------------------------------------------ values
    def val(self, v, fr):
        if isinstance(v, Reg): return fr[v.name]
        if isinstance(v, CInt): return v.v & mask(v.ty.n)
        if isinstance(v, CNull): return 0
        if isinstance(v, GRef): return self.gaddr(v.name)
        if isinstance(v, CFloat): return self.cfloat(v)
        if isinstance(v, (CUndef, CZero)): return self.zero(v.ty)
        if isinstance(v, CExpr): return self.cexpr(v, fr)
        if isinstance(v, CAgg): return [self.val(e, fr) for e in v.els]
        if isinstance(v, CStr): return list(v.b)
        raise Unsupported('val %r' % v)

    def cfloat(self, v):
        if v.txt.startswith('0x'): return struct.unpack('<d', struct.pack('<Q', int(v.txt[2:], 16)))[0]
        return float(v.txt)

    def zero(self, ty):
        if isinstance(ty, StructTy): return [self.zero(e) for e in ty.els]
        if isinstance(ty, ArrTy): return [self.zero(ty.el) for _ in range(ty.n)]
        if isinstance(ty, FloatTy): return 0.0
        return 0

    def gaddr(self, name):
        if name in self.gaddrs: return self.gaddrs[name]
        if name in self.m.funcs:
            a = self.new_obj(1, 'fn:' + name, 'fn'); self.fnaddr[a] = name; self.gaddrs[name] = a; return a
        g = self.m.globals[name]
        size = self.L.size_align(g.ty)[0]
        a = self.new_obj(max(size, 1), name, 'zero')
        self.gaddrs[name] = a
        if g.init is not None:
            self.store(a, g.ty, self.val(g.init, {}))
            if g.const: self.objs[a >> OBJ_SHIFT].kind = 'const'
        return a

    def gep(self, bt, base, idx, fr):
        off = 0; ty = bt; symoff = None
        for k, ix in enumerate(idx):
            i = self.val(ix, fr)
            if isinstance(i, Sym):
                if self.mode == 'BV' and (k == 0 or isinstance(ty, ArrTy)):
                    # keep the address symbolic; it is resolved (forked) only if it is dereferenced
                    esz = self.L.size_align(ty if k == 0 else ty.el)[0]
                    t = self.sext(i, ix.ty.n, 64) if ix.ty.n < 64 else i
                    term = self.term(t, 64) * z3.BitVecVal(esz, 64)
                    symoff = term if symoff is None else symoff + term
                    if k > 0: ty = ty.el
                    continue
                i = self.concretize(i, 'gep index')
            i = tosigned(i, ix.ty.n)
            if k == 0: off += i * self.L.size_align(ty)[0]
            elif isinstance(ty, StructTy): off += self.L.field_off(ty, i); ty = ty.els[i]
            else: off += i * self.L.size_align(ty.el)[0]; ty = ty.el
        if symoff is not None or isinstance(base, Sym):
            b = self.term(base, 64) + z3.BitVecVal(off & mask(64), 64)
            r = Sym(z3.simplify(b + symoff if symoff is not None else b), 64)
            r.base = base.base if isinstance(base, Sym) else base       # the object the address was derived from
            return r
        return (base + off) & mask(64)

    def cexpr(self, v, fr):
        if v.op == 'getelementptr': return self.gep(v.extra, self.val(v.args[0], fr), v.args[1:], fr)
        if v.op in ('bitcast', 'addrspacecast', 'ptrtoint', 'inttoptr'): return self.val(v.args[0], fr)
        raise Unsupported('cexpr ' + v.op)

    # ------------------------------------------------------------ execution
    def call(self, name, args):
        f = self.m.funcs.get(name)
        if name in self.overrides:
            if f is not None and any(isinstance(a, Sym) for a in args):
                args = [self.concretize(a, 'pointer argument of ' + name) if isinstance(a, Sym) and k < len(f.params) and isinstance(f.params[k][0], PtrTy) else a
                        for k, a in enumerate(args)]
            return self.overrides[name](self, *args)
        if f is None or not f.defined:
            mdl = self.models.get(name[1:])
            if mdl is None: raise Unsupported('no model for external ' + name)
            if f is not None and any(isinstance(a, Sym) for a in args):
                # library models take concrete pointers: a symbolic address is resolved by forking over its feasible values
                args = [self.concretize(a, 'pointer argument of ' + name) if isinstance(a, Sym) and k < len(f.params) and isinstance(f.params[k][0], PtrTy) else a
                        for k, a in enumerate(args)]
            return mdl(self, *args)
        self.stats['funcs'].add(name[1:])
        fr = {}
        for (pt, pn, pa), a in zip(f.params, args):
            if pn: fr[pn] = a
        for (pt, pn, pa) in f.params:
            if pa.get('byval') and pn:
                sz = self.L.size_align(pt.to)[0]; c = self.new_obj(sz, 'byval', 'stack'); self.memcpy(c, fr[pn], sz); fr[pn] = c
        allocas = []
        try:
            return self.run_fn(f, fr, allocas)
        finally:
            for a in allocas: self.objs[a >> OBJ_SHIFT].alive = False

    def memcpy(self, d, s, n):
        if n == 0: return
        so, soff = self.resolve(s, n, 'memcpy-src'); do, doff = self.resolve(d, n, 'memcpy-dst')
        if do.kind == 'const': raise Finding('write-to-const', 'memcpy')
        # byte-wise with cell preservation when aligned cells are fully inside
        items = []
        cells = sorted(k for k in so.cells if k[0] < soff + n and soff < k[0] + k[1])
        for k in cells:
            if k[0] < soff or k[0] + k[1] > soff + n: self.split_cell(so, k)
        cells = sorted(k for k in so.cells if k[0] >= soff and k[0] + k[1] <= soff + n)
        covered = set()
        for k in cells:
            items.append((k[0] - soff, k[1], so.cells[k]))
            covered.update(range(k[0], k[0] + k[1]))
        runs = []                     # long runs of bytes that only exist as a range fill / zero default are copied as range fills
        i = 0
        while i < n:
            if soff + i in covered: i += 1; continue
            b = so.default_byte(soff + i)
            j = i + 1
            if b is not None and not isinstance(b, Sym):
                while j < n and soff + j not in covered and so.default_byte(soff + j) == b: j += 1
            if j - i > 64: runs.append((i, j, b)); i = j; continue
            for k in range(i, j):
                bb = so.default_byte(soff + k)
                if bb is None: bb = self.fresh('uninit', 8)
                so.cells[(soff + k, 1)] = bb; items.append((k, 1, bb))
            i = j
        for (a, b_, v) in runs:
            for kk in [kk for kk in do.cells if kk[0] < doff + b_ and doff + a < kk[0] + kk[1]]:
                if kk[0] < doff + a or kk[0] + kk[1] > doff + b_: self.split_cell(do, kk)
            for kk in [kk for kk in do.cells if kk[0] >= doff + a and kk[0] + kk[1] <= doff + b_]: del do.cells[kk]
            do.fills.append((doff + a, doff + b_, v))
        for (o, sz, v) in items: self.store_bytes(do, doff + o, sz, v)

    def memset(self, addr, v, n):
        if n == 0: return
        o, off = self.resolve(addr, n, 'memset')
        if o.kind == 'const': raise Finding('write-to-const', 'memset')
        if isinstance(v, Sym) and v.n > 8: v = self.trunc(v, v.n, 8)
        elif not isinstance(v, Sym): v &= 0xff
        if n <= 64:
            for i in range(n): self.store_bytes(o, off + i, 1, v)
            return
        for k in [k for k in o.cells if k[0] < off + n and off < k[0] + k[1]]:
            if k[0] < off or k[0] + k[1] > off + n: self.split_cell(o, k)
        for k in [k for k in o.cells if k[0] >= off and k[0] + k[1] <= off + n]: del o.cells[k]
        o.fills.append((off, off + n, v))

    def fill_pattern(self, addr, pattern, count):
        """store `count` copies of the byte pattern (list of ints / 8-bit Syms) from addr on, without touching every byte"""
        n = len(pattern) * count
        if n == 0: return
        o, off = self.resolve(addr, n, 'fill')
        for k in [k for k in o.cells if k[0] < off + n and off < k[0] + k[1]]:
            if k[0] < off or k[0] + k[1] > off + n: self.split_cell(o, k)
        for k in [k for k in o.cells if k[0] >= off and k[0] + k[1] <= off + n]: del o.cells[k]
        o.fills.append((off, off + n, list(pattern)))

    def run_fn(self, f, fr, allocas):
        blocks = f.blocks
        bn = next(iter(blocks)); prev = None
        alias = f.entry_alias
        while True:
            ins = blocks[bn]
            # phis (parallel)
            phivals = []
            for I in ins:
                if I.op != 'phi': break
                src = None
                for (v, l) in I.inc:
                    ln = l[1:].strip('"')
                    if ln == prev or (prev == '__entry__' and ln == alias): src = v
                phivals.append((I.dest, self.val(src, fr)))
            for d, v in phivals: fr[d] = v
            nxt = None
            for I in ins:
                op = I.op
                if op == 'phi': continue
                self.stats['steps'] += 1; self.path_steps += 1
                if self.path_steps > self.step_cap: raise Abort('step cap')
                if op in BIN_OPS:
                    if isinstance(I.ty, FloatTy):
                        a, b = self.val(I.a, fr), self.val(I.b, fr)
                        self.path_ops.add(op)
                        if isinstance(a, RealF) or isinstance(b, RealF):
                            ra, rb = realof(a), realof(b)
                            if op == 'fdiv': self.assume(rb != 0)            # division by zero gives inf/NaN, which the rational model has not: outside the model (callers guard it)
                            fr[I.dest] = RealF({'fadd': lambda: ra + rb, 'fsub': lambda: ra - rb, 'fmul': lambda: ra * rb, 'fdiv': lambda: ra / rb}[op]()); continue
                        if isinstance(a, (OpaqueF, Sym)) or isinstance(b, (OpaqueF, Sym)):
                            if not self.opaque_fp: raise Unsupported('symbolic float op')
                            fr[I.dest] = OpaqueF(); continue
                        fr[I.dest] = {'fadd': lambda: a + b, 'fsub': lambda: a - b, 'fmul': lambda: a * b, 'fdiv': lambda: a / b}[op]()
                    else:
                        fr[I.dest] = self.binop(op, I.ty.n, self.val(I.a, fr), self.val(I.b, fr), I.flags)
                elif op == 'icmp':
                    n = 64 if isinstance(I.oty, PtrTy) else I.oty.n
                    fr[I.dest] = self.icmp(I.pred, n, self.val(I.a, fr), self.val(I.b, fr))
                elif op == 'fcmp':
                    a, b = self.val(I.a, fr), self.val(I.b, fr)
                    if isinstance(a, RealF) or isinstance(b, RealF):
                        ra, rb = realof(a), realof(b); p = I.pred
                        base = {'eq': ra == rb, 'gt': ra > rb, 'ge': ra >= rb, 'lt': ra < rb, 'le': ra <= rb, 'ne': ra != rb}
                        if p in ('true', 'ord'): fr[I.dest] = 1
                        elif p in ('false', 'uno'): fr[I.dest] = 0
                        else:
                            c = z3.simplify(base[p[1:]])
                            fr[I.dest] = 1 if z3.is_true(c) else 0 if z3.is_false(c) else Sym(c, 1)
                    elif isinstance(a, (OpaqueF, Sym)) or isinstance(b, (OpaqueF, Sym)):
                        if not self.opaque_fp: raise Unsupported('symbolic float compare')
                        fr[I.dest] = self.fresh('fcmp', 1)           # outcome of a comparison of opaque values: both ways explored
                    else:
                        import math
                        un = math.isnan(a) or math.isnan(b); p = I.pred
                        base = {'eq': a == b, 'gt': a > b, 'ge': a >= b, 'lt': a < b, 'le': a <= b, 'ne': a != b}
                        if p == 'true': r = True
                        elif p == 'false': r = False
                        elif p == 'ord': r = not un
                        elif p == 'uno': r = un
                        elif p[0] == 'o': r = (not un) and base[p[1:]]
                        else: r = un or base[p[1:]]
                        fr[I.dest] = int(r)
                elif op == 'fneg':
                    a = self.val(I.a, fr)
                    if isinstance(a, RealF): fr[I.dest] = RealF(-a.t)
                    elif isinstance(a, (OpaqueF, Sym)):
                        if not self.opaque_fp: raise Unsupported('symbolic fneg')
                        fr[I.dest] = OpaqueF()
                    else: fr[I.dest] = -a
                elif op in CAST_OPS:
                    a = self.val(I.a, fr); st = I.a.ty
                    if op in ('bitcast', 'addrspacecast', 'ptrtoint', 'inttoptr'):
                        if op == 'ptrtoint' and I.ty.n < 64: a = self.trunc(a, 64, I.ty.n)
                        if op == 'bitcast' and isinstance(st, FloatTy) != isinstance(I.ty, FloatTy):
                            if isinstance(a, Sym): fr[I.dest] = a; continue            # bits stay bits
                            if isinstance(a, OpaqueF): raise Unsupported('bitcast of opaque float')
                            if isinstance(I.ty, FloatTy): a = struct.unpack('<d', struct.pack('<Q', a))[0] if I.ty.k == 'double' else struct.unpack('<f', struct.pack('<I', a))[0]
                            else: a = struct.unpack('<Q', struct.pack('<d', a))[0] if st.k == 'double' else struct.unpack('<I', struct.pack('<f', a))[0]
                            fr[I.dest] = a; continue
                        fr[I.dest] = a
                    elif op == 'trunc': fr[I.dest] = self.trunc(a, st.n, I.ty.n)
                    elif op == 'zext':
                        if isinstance(a, Sym) and z3.is_bool(a.t): a = Sym(self.term(a, 1), 1)
                        fr[I.dest] = self.zext(a, st.n, I.ty.n)
                    elif op == 'sext':
                        if isinstance(a, Sym) and z3.is_bool(a.t): a = Sym(self.term(a, 1), 1)
                        fr[I.dest] = self.sext(a, st.n, I.ty.n)
                    elif op in ('sitofp', 'uitofp'):
                        if isinstance(a, Sym) and self.fp_model == 'real' and self.mode == 'INT':
                            fr[I.dest] = RealF(z3.ToReal(self.sterm(a, st.n) if op == 'sitofp' else self.term(a, st.n)))
                        elif isinstance(a, Sym):
                            if not self.opaque_fp: raise Unsupported('symbolic int->fp')
                            fr[I.dest] = OpaqueF()
                        else: fr[I.dest] = float(tosigned(a, st.n) if op == 'sitofp' else a)
                    elif op in ('fptosi', 'fptoui'):
                        if isinstance(a, RealF):
                            # truncation toward zero of the exact value; the harness states the range of such values (fp2int_range)
                            if self.fp2int_range is None: raise Unsupported('real model: fptosi without a stated range')
                            lo, hi = self.fp2int_range
                            ti = z3.If(a.t >= 0, z3.ToInt(a.t), -z3.ToInt(-a.t))
                            self.assume(z3.And(ti >= lo, ti <= hi))
                            fr[I.dest] = self.from_signed(ti, lo, hi, I.ty.n)
                        elif isinstance(a, OpaqueF):
                            v = self.fresh('fp2int', I.ty.n)
                            if self.fp2int_range is not None:
                                # harness-stated range of every integer obtained from an opaque floating-point value (justified by a separately proved lemma)
                                lo, hi = self.fp2int_range
                                if self.mode == 'INT':
                                    sv = self.sterm(v, I.ty.n); self.assume(z3.And(sv >= lo, sv <= hi))
                                else:
                                    tv = self.term(v, I.ty.n); self.assume(z3.And(tv >= z3.BitVecVal(lo, I.ty.n), tv <= z3.BitVecVal(hi, I.ty.n)))
                            fr[I.dest] = v
                        else: fr[I.dest] = int(a) & mask(I.ty.n)
                    elif op in ('fpext', 'fptrunc'): fr[I.dest] = a
                    else: raise Unsupported(op)
                elif op == 'select':
                    c = self.val(I.c, fr)
                    a, b = self.val(I.a, fr), self.val(I.b, fr)
                    if self.mode == 'BV' and isinstance(c, Sym) and isinstance(I.ty, IntTy) and not (isinstance(a, list) or isinstance(b, list)):
                        cb = z3.simplify(self.boolof(c))
                        if z3.is_true(cb): fr[I.dest] = a
                        elif z3.is_false(cb): fr[I.dest] = b
                        elif I.ty.n == 1: fr[I.dest] = Sym(z3.If(cb, self.boolof(a), self.boolof(b)), 1)
                        else:
                            (l1, h1), (l2, h2) = rng(a, I.ty.n), rng(b, I.ty.n)
                            fr[I.dest] = Sym(z3.If(cb, self.term(a, I.ty.n), self.term(b, I.ty.n)), I.ty.n, min(l1, l2), max(h1, h2))
                    else:
                        fr[I.dest] = a if self.decide(c, 'select') else b
                elif op == 'freeze': fr[I.dest] = self.val(I.a, fr)
                elif op == 'alloca':
                    cnt = 1 if I.count is None else self.concretize(self.val(I.count, fr), 'alloca count')
                    a = self.new_obj(self.L.size_align(I.aty)[0] * cnt, 'alloca:' + I.dest, 'stack'); allocas.append(a); fr[I.dest] = a
                elif op == 'load': fr[I.dest] = self.load(self.val(I.p, fr), I.ty)
                elif op == 'store': self.store(self.val(I.p, fr), I.v.ty, self.val(I.v, fr))
                elif op == 'getelementptr': fr[I.dest] = self.gep(I.bt, self.val(I.p, fr), I.idx, fr)
                elif op == 'extractvalue':
                    v = self.val(I.agg, fr)
                    for p in I.path: v = v[p]
                    fr[I.dest] = v
                elif op == 'insertvalue':
                    v = self.val(I.agg, fr)
                    def ins_(a, path, x):
                        a = list(a)
                        if len(path) == 1: a[path[0]] = x
                        else: a[path[0]] = ins_(a[path[0]], path[1:], x)
                        return a
                    fr[I.dest] = ins_(v, I.path, self.val(I.v, fr))
                elif op in ('call', 'invoke'):
                    r, exc = self.do_call(I, fr)
                    if op == 'invoke':
                        if exc is not None:
                            self.inflight = exc; prev, bn = bn, I.unwind[1:].strip('"'); nxt = 'goto'; break
                        if I.dest: fr[I.dest] = r
                        prev, bn = bn, I.normal[1:].strip('"'); nxt = 'goto'; break
                    else:
                        if exc is not None: raise exc
                        if I.dest: fr[I.dest] = r
                elif op == 'landingpad':
                    e = self.inflight; sel = 0
                    for kind, cv in I.clauses:
                        if kind != 'catch': continue
                        if isinstance(cv, CNull): sel = self.typeid(None); break
                        want = cv
                        while isinstance(want, CExpr): want = want.args[0]
                        if self.ti_matches(e.ti, want.name): sel = self.typeid(want.name); break
                    fr[I.dest] = [e.obj, sel]
                elif op == 'resume':
                    raise self.inflight
                elif op == 'ret':
                    return None if I.v is None else self.val(I.v, fr)
                elif op == 'br':
                    if I.cond is None: t = I.t
                    else: t = I.t if self.decide(self.val(I.cond, fr), 'br') else I.f
                    prev, bn = bn, t[1:].strip('"'); nxt = 'goto'; break
                elif op == 'switch':
                    v = self.val(I.v, fr)
                    if isinstance(v, Sym):
                        t = None
                        for cv, l in I.cases:
                            if self.decide(self.icmp('eq', v.n, v, cv.v & mask(v.n)), 'switch'): t = l; break
                        if t is None: t = I.default
                    else:
                        t = I.default
                        for cv, l in I.cases:
                            if (cv.v & mask(cv.ty.n)) == v: t = l; break
                    prev, bn = bn, t[1:].strip('"'); nxt = 'goto'; break
                elif op == 'unreachable': raise Finding('unreachable', 'llvm unreachable executed in ' + f.name)
                elif op == 'fence': pass
                elif op == 'atomicrmw':
                    p = self.val(I.p, fr); old = self.load(p, I.ty); v = self.val(I.v, fr)
                    new = v if I.rmw == 'xchg' else self.binop(I.rmw, I.ty.n, old, v, set())
                    self.store(p, I.ty, new); fr[I.dest] = old
                elif op == 'cmpxchg':
                    p = self.val(I.p, fr); old = self.load(p, I.vty)
                    eq = self.decide(self.icmp('eq', I.vty.n if isinstance(I.vty, IntTy) else 64, old, self.val(I.cmp, fr)), 'cmpxchg')
                    if eq: self.store(p, I.vty, self.val(I.new, fr))
                    fr[I.dest] = [old, int(eq)]
                else:
                    raise Unsupported('instr ' + op)
            if nxt is None: raise Unsupported('fell off block ' + bn)
            if bn == alias: bn = '__entry__'

    def typeid(self, name):
        if name not in self.tids: self.tids[name] = len(self.tids) + 1
        return self.tids[name]

    def ti_matches(self, thrown, want):
        t = thrown
        for _ in range(10):
            if t is None: return False
            if t == want: return True
            t = self.ti_parent(t)
        return False

    def ti_parent(self, t):
        from irparse import STD_BASES
        g = self.m.globals.get(t)
        if g is not None and g.init is not None and isinstance(g.init, CAgg) and len(g.init.els) == 3:
            b = g.init.els[2]
            while isinstance(b, CExpr): b = b.args[0]
            return b.name
        p = STD_BASES.get(t[1:])
        return '@' + p if p else None

    def do_call(self, I, fr):
        callee = I.callee
        args = [self.val(a, fr) for (a, pa) in I.args]
        if isinstance(callee, GRef): name = callee.name
        else:
            a = self.val(callee, fr)
            if isinstance(a, Sym): raise Unsupported('symbolic function pointer')
            name = self.fnaddr.get(a)
            if name is None: raise Finding('bad-indirect-call', hex(a))
        try:
            if name.startswith('@llvm.'): return self.intrinsic(name[1:], I, args), None
            if name == '@__cxa_throw': raise CxxThrow(args[0], self.addr2global(args[1]))
            if name == '@__cxa_rethrow': raise self.caught[-1]
            return self.call(name, args), None
        except CxxThrow as e:
            return None, e

    def addr2global(self, a):
        for n, ga in self.gaddrs.items():
            if ga == a: return n
        raise Unsupported('typeinfo address')

    def intrinsic(self, nm, I, a):
        if nm.startswith(('llvm.lifetime', 'llvm.dbg', 'llvm.assume', 'llvm.invariant', 'llvm.experimental.noalias', 'llvm.prefetch', 'llvm.stackrestore')): return None
        if nm.startswith(('llvm.memcpy', 'llvm.memmove')):
            n = self.concretize(a[2], 'memcpy length'); self.memcpy(a[0], a[1], n); return None
        if nm.startswith('llvm.memset'):
            self.memset(a[0], a[1], self.concretize(a[2], 'memset length'))
            return None
        if nm.startswith('llvm.eh.typeid.for'): return self.typeid(self.addr2global(a[0]))
        if nm.startswith('llvm.expect'): return a[0]
        if nm.startswith('llvm.trap'): raise Finding('trap', 'llvm.trap')
        if nm.startswith('llvm.stacksave'): return 0
        if nm.startswith('llvm.is.constant'): return 0
        if nm.startswith('llvm.objectsize'): return mask(I.rty.n)
        m = re.match(r'llvm\.(umax|umin|smax|smin)\.i(\d+)', nm)
        if m:
            n = int(m.group(2)); k = m.group(1)
            pred = {'umax': 'ugt', 'umin': 'ult', 'smax': 'sgt', 'smin': 'slt'}[k]
            c = self.icmp(pred, n, a[0], a[1])
            if isinstance(c, Sym): return Sym(z3.If(self.boolof(c), self.term(a[0], n), self.term(a[1], n)), n)
            return a[0] if c else a[1]
        m = re.match(r'llvm\.abs\.i(\d+)', nm)
        if m:
            n = int(m.group(1)); c = self.icmp('slt', n, a[0], 0)
            neg = self.binop('sub', n, 0, a[0], set())
            if isinstance(c, Sym): return Sym(z3.If(self.boolof(c), self.term(neg, n), self.term(a[0], n)), n)
            return neg if c else a[0]
        m = re.match(r'llvm\.(fshl|fshr)\.i(\d+)', nm)
        if m:
            n = int(m.group(2)); c = self.concretize(a[2], 'funnel shift amount') % n
            if c == 0: return a[0] if m.group(1) == 'fshl' else a[1]
            if m.group(1) == 'fshl': hi = self.binop('shl', n, a[0], c, set()); lo = self.binop('lshr', n, a[1], n - c, set())
            else: hi = self.binop('shl', n, a[0], n - c, set()); lo = self.binop('lshr', n, a[1], c, set())
            return self.binop('or', n, hi, lo, set())
        m = re.match(r'llvm\.(ctlz|cttz|ctpop|bswap)\.i(\d+)', nm)
        if m:
            n = int(m.group(2)); x = self.concretize(a[0], nm) if isinstance(a[0], Sym) else a[0]
            if m.group(1) == 'ctlz': return n - x.bit_length()
            if m.group(1) == 'cttz': return n if x == 0 else (x & -x).bit_length() - 1
            if m.group(1) == 'ctpop': return bin(x).count('1')
            return int.from_bytes(x.to_bytes(n // 8, 'little'), 'big')
        m = re.match(r'llvm\.(round|floor|ceil|fabs|trunc)\.f64', nm)
        if m:
            import math
            x = a[0]
            return {'round': lambda: float(math.floor(abs(x) + 0.5)) * (1 if x >= 0 else -1), 'floor': lambda: float(math.floor(x)),
                    'ceil': lambda: float(math.ceil(x)), 'fabs': lambda: abs(x), 'trunc': lambda: float(int(x))}[m.group(1)]()
        raise Unsupported('intrinsic ' + nm)

    # ------------------------------------------------------------ driver
    def explore(self, harness, work=None, max_paths=100000, wall=600, max_findings=40):
        """harness(interp) runs one path.  Returns (findings, leftover work prefixes)."""
        self.work = [list(w) for w in work] if work is not None else [[]]
        t0 = time.time()
        results = []
        st = self.stats
        st.setdefault('obl_paths', 0); st.setdefault('obligations', 0); st.setdefault('samples', [])
        while self.work:
            if st['paths'] >= max_paths or time.time() - t0 > wall: break
            self.prefix = self.work.pop(); self.dpos = 0; self.trace = []
            self.pc = []; self.solver.push()
            self.objs = [Obj(0, 'null', 'null')]; self.gaddrs = {}; self.fnaddr = {}; self.tids = {}; self.caught = []
            self.inflight = None; self.symcount = 0; self.path_steps = 0; self.path_ops = set()
            self.inputs = {}; self.observations = []; self.path_obl = 0; self.pending_obl = []; self.model = None; self.path_reached = False
            try:
                try:
                    harness(self)
                finally:
                    if self.pending_obl and sys.exc_info()[0] is not PathEnd: self.flush_obligations()
                st['paths'] += 1
                if self.path_obl or self.path_reached: st['obl_paths'] += 1
                if len(st['samples']) < 3 and self.inputs:
                    try:
                        if self.check(): st['samples'].append({'inputs': self.cex(self.get_model()), 'decisions': len(self.trace), 'obligations': self.path_obl})
                    except Unsupported: pass
            except PathEnd:
                pass
            except Finding as e:
                st['paths'] += 1
                mdl = getattr(e, 'model', None)
                try:
                    if mdl is None and self.check(): mdl = self.get_model()
                except Unsupported: mdl = None
                if len(results) < max_findings:
                    results.append(dict(kind=e.kind, msg=e.msg, inputs=self.cex(mdl) if mdl is not None else None, decisions=len(self.trace)))
            except CxxThrow as e:
                st['paths'] += 1
                mdl = None
                try:
                    if self.check(): mdl = self.get_model()
                except Unsupported: pass
                if len(results) < max_findings:
                    results.append(dict(kind='uncaught-exception', msg='C++ exception %s leaves the entry point' % str(e.ti).lstrip('@'), inputs=self.cex(mdl) if mdl is not None else None, decisions=len(self.trace)))
            except (Unsupported, Abort) as e:
                st['unsupported'].append(str(e)); st['paths'] += 1
            finally:
                self.solver.pop()
        st['wall_s'] = time.time() - t0
        left = self.work; self.work = []
        return results, left
