"""E1: IR -> C (ir2c) -> cbmc.  Runs C harnesses (harness/*.c) against the C translation of a wrapper TU."""
import os, re, subprocess, time, struct
HERE = os.path.dirname(os.path.abspath(__file__)); ROOT = os.path.dirname(HERE)


class CbmcHarness:
    """one cbmc run: function `fn` of harness/<cfile> linked with the translation of wrappers/<wrapper>.cpp"""
    def __init__(self, name, wrapper, cfile, fn, defines=(), backend=(), unwind=4, timeout=300, replay=None, desc='', bounds='', flags=()):
        self.name = name; self.wrapper = wrapper; self.cfile = cfile; self.fn = fn; self.defines = tuple(defines); self.backend = tuple(backend)
        self.unwind = unwind; self.timeout = timeout; self.replay = replay; self.desc = desc; self.bounds = bounds; self.flags = tuple(flags)
        self.mode = 'cbmc'; self.jobs = [{}]


def translate(build, wrapper):
    """wrapper .ll -> C (cached per build)"""
    ll = build.ir(wrapper)
    out = ll[:-3] + '.c'
    if not os.path.exists(out):
        import ir2c
        from irparse import parse_module
        mod = parse_module(open(ll).read())
        open(out, 'w').write(ir2c.emit_module(mod))
    return out


def run_cbmc(build, h, witness=False):
    csrc = translate(build, h.wrapper)
    cmd = ['cbmc', csrc, os.path.join(ROOT, 'rt', 'verif_rt.c'), os.path.join(ROOT, 'harness', h.cfile), '-I', os.path.join(ROOT, 'rt'),
           '--function', h.fn, '--unwind', str(h.unwind), '--unwinding-assertions', '--bounds-check', '--pointer-check', '--drop-unused-functions', '--trace']
    cmd += list(h.flags) + list(h.backend)
    for d in h.defines: cmd += ['-D', d]
    if witness: cmd += ['-D', 'WITNESS']
    t = time.time()
    try:
        r = subprocess.run(cmd, capture_output=True, text=True, timeout=h.timeout)
        out = r.stdout + r.stderr
    except subprocess.TimeoutExpired:
        return dict(verdict='timeout', wall=time.time() - t, out='', props=0, failed=[])
    wall = time.time() - t
    if 'VERIFICATION SUCCESSFUL' in out: v = 'success'
    elif 'VERIFICATION FAILED' in out: v = 'failed'
    else: v = 'error'
    failed = re.findall(r'^\[([^\]]+)\] [^\n]*?: FAILURE$', out, re.M)
    nprops = len(re.findall(r': (?:SUCCESS|FAILURE)$', out, re.M))
    m = re.search(r'(\d+) variables, (\d+) clauses', out)
    return dict(verdict=v, wall=wall, out=out, props=nprops, failed=failed, vars=int(m.group(1)) if m else 0, clauses=int(m.group(2)) if m else 0)


def trace_inputs(out):
    """last assignment to every global in_* in the counterexample trace; doubles are taken from the bit pattern"""
    vals = {}
    for m in re.finditer(r'^\s*(in_\w+)=([^\s]+) \(([01 ]+)\)', out, re.M):
        name, txt, bits = m.group(1), m.group(2), m.group(3).replace(' ', '')
        if len(bits) == 64 and ('.' in txt or 'e' in txt.lower() or 'inf' in txt.lower() or 'nan' in txt.lower()):
            vals[name] = struct.unpack('<d', struct.pack('<Q', int(bits, 2)))[0]
        else:
            v = int(bits, 2)
            if txt.startswith('-') and len(bits) in (32, 64): v -= 1 << len(bits)
            vals[name] = v
    return vals
