#!/usr/bin/env python3
"""Parser for LLVM-14 textual IR (typed pointers), shared by both engines.

Scope: typed-pointer IR produced by clang++-14 -O1 for x86_64.  Every defined
function becomes a C function; exceptions are lowered to a pending-flag
protocol (see EXC below).  The output is meant for cbmc's C front end and for
gcc (differential validation of the translation).
"""
import re, sys, struct, collections

# --------------------------------------------------------------------------
# tokenizer
# --------------------------------------------------------------------------
TOK = re.compile(r'''
    \s+                                   |
    (?P<str>c?"(?:[^"\\]|\\.)*")          |
    (?P<lname>%(?:"(?:[^"\\]|\\.)*"|[-a-zA-Z$._0-9]+)) |
    (?P<gname>@(?:"(?:[^"\\]|\\.)*"|[-a-zA-Z$._0-9]+)) |
    (?P<meta>![-a-zA-Z$._0-9]*)           |
    (?P<attr>\#\d+)                       |
    (?P<hex>0x[KMLHR]?[0-9A-Fa-f]+)       |
    (?P<num>-?\d+\.\d+(?:e[+-]?\d+)?|-?\d+) |
    (?P<id>[a-zA-Z_][a-zA-Z0-9_.]*)       |
    (?P<p>\.\.\.|<\{|\}>|[()\[\]{}<>,=*])
''', re.X)


def tokenize(s):
    out = []
    pos = 0
    n = len(s)
    while pos < n:
        m = TOK.match(s, pos)
        if not m:
            raise SyntaxError('tokenize: %r' % s[pos:pos + 40])
        pos = m.end()
        k = m.lastgroup
        if k is None:
            continue
        out.append((k, m.group(k)))
    return out


class Toks:
    def __init__(self, toks):
        self.t = toks
        self.i = 0

    def peek(self, k=0):
        j = self.i + k
        return self.t[j] if j < len(self.t) else ('eof', '')

    def next(self):
        x = self.peek()
        self.i += 1
        return x

    def accept(self, v):
        if self.peek()[1] == v:
            self.i += 1
            return True
        return False

    def expect(self, v):
        x = self.next()
        if x[1] != v:
            raise SyntaxError('expected %r got %r near %r' % (v, x, self.t[max(0, self.i - 6):self.i + 4]))

    def eof(self):
        return self.i >= len(self.t)


# --------------------------------------------------------------------------
# types
# --------------------------------------------------------------------------
class Ty:
    pass


class IntTy(Ty):
    def __init__(s, n): s.n = n
    def key(s): return 'i%d' % s.n


class FloatTy(Ty):
    def __init__(s, k): s.k = k
    def key(s): return s.k


class VoidTy(Ty):
    def key(s): return 'void'


class PtrTy(Ty):
    def __init__(s, to): s.to = to
    def key(s): return s.to.key() + '*'


class ArrTy(Ty):
    def __init__(s, n, el): s.n = n; s.el = el
    def key(s): return '[%d x %s]' % (s.n, s.el.key())


class StructTy(Ty):
    def __init__(s, els, packed=False, name=None):
        s.els = els; s.packed = packed; s.name = name
    def key(s):
        if s.name: return s.name
        return ('<{%s}>' if s.packed else '{%s}') % ','.join(e.key() for e in s.els)


class FnTy(Ty):
    def __init__(s, ret, args, va): s.ret = ret; s.args = args; s.va = va
    def key(s): return '%s(%s%s)' % (s.ret.key(), ','.join(a.key() for a in s.args), ',...' if s.va else '')


class LabelTy(Ty):
    def key(s): return 'label'


class MetaTy(Ty):
    def key(s): return 'metadata'


PARAM_ATTRS = {'noundef', 'nonnull', 'nocapture', 'readonly', 'writeonly', 'readnone', 'noalias', 'signext',
               'zeroext', 'returned', 'immarg', 'inreg', 'nest', 'nofree', 'swiftself', 'swifterror', 'inalloca'}
FN_RET_ATTRS = PARAM_ATTRS
LINKAGE = {'private', 'internal', 'available_externally', 'linkonce', 'weak', 'common', 'appending', 'extern_weak',
           'linkonce_odr', 'weak_odr', 'external', 'dso_local', 'dso_preemptable', 'default', 'hidden', 'protected',
           'unnamed_addr', 'local_unnamed_addr', 'thread_local', 'externally_initialized', 'fastcc', 'ccc', 'coldcc'}


class Module:
    def __init__(self):
        self.named = collections.OrderedDict()   # %name -> StructTy (body filled later)
        self.globals = collections.OrderedDict()
        self.funcs = collections.OrderedDict()
        self.attrgroups = {}

    # ---- type parsing
    def parse_type(self, T):
        k, v = T.next()
        if k == 'id':
            m = re.fullmatch(r'i(\d+)', v)
            if m: base = IntTy(int(m.group(1)))
            elif v in ('float', 'double', 'x86_fp80', 'half', 'fp128'): base = FloatTy(v)
            elif v == 'void': base = VoidTy()
            elif v == 'label': base = LabelTy()
            elif v == 'metadata': base = MetaTy()
            elif v == 'opaque': base = StructTy([], name=None)
            elif v == 'ptr': base = PtrTy(IntTy(8))
            else: raise SyntaxError('type? %r' % v)
        elif k == 'lname':
            nm = v
            if nm not in self.named:
                self.named[nm] = StructTy(None, name=nm)
            base = self.named[nm]
        elif v == '[':
            n = int(T.next()[1]); T.expect('x'); el = self.parse_type(T); T.expect(']')
            base = ArrTy(n, el)
        elif v == '{' or v == '<{':
            els = []
            close = '}' if v == '{' else '}>'
            if not T.accept(close):
                while True:
                    els.append(self.parse_type(T))
                    if T.accept(close): break
                    T.expect(',')
            base = StructTy(els, packed=(v == '<{'))
        elif v == '<':
            raise SyntaxError('vector types unsupported')
        else:
            raise SyntaxError('type? %r' % (v,))
        while True:
            if T.accept('*'):
                base = PtrTy(base)
            elif T.peek()[1] == '(' :
                # function type
                T.next()
                args = []; va = False
                if not T.accept(')'):
                    while True:
                        if T.accept('...'):
                            va = True
                        else:
                            args.append(self.parse_type(T))
                        if T.accept(')'): break
                        T.expect(',')
                base = FnTy(base, args, va)
            else:
                break
        return base


# --------------------------------------------------------------------------
# values
# --------------------------------------------------------------------------
class Val:
    pass


class Reg(Val):
    def __init__(s, name, ty): s.name = name; s.ty = ty


class GRef(Val):
    def __init__(s, name, ty): s.name = name; s.ty = ty


class CInt(Val):
    def __init__(s, v, ty): s.v = v; s.ty = ty


class CFloat(Val):
    def __init__(s, txt, ty): s.txt = txt; s.ty = ty


class CNull(Val):
    def __init__(s, ty): s.ty = ty


class CUndef(Val):
    def __init__(s, ty): s.ty = ty


class CZero(Val):
    def __init__(s, ty): s.ty = ty


class CAgg(Val):
    def __init__(s, els, ty): s.els = els; s.ty = ty


class CStr(Val):
    def __init__(s, b, ty): s.b = b; s.ty = ty


class CExpr(Val):
    def __init__(s, op, args, ty, extra=None): s.op = op; s.args = args; s.ty = ty; s.extra = extra


def unescape_cstr(s):
    # s like c"abc\00"
    body = s[2:-1]
    out = bytearray(); i = 0
    while i < len(body):
        c = body[i]
        if c == '\\':
            if body[i + 1] == '\\':
                out.append(92); i += 2
            else:
                out.append(int(body[i + 1:i + 3], 16)); i += 3
        else:
            out.append(ord(c)); i += 1
    return bytes(out)


CAST_OPS = {'bitcast', 'ptrtoint', 'inttoptr', 'trunc', 'zext', 'sext', 'fptrunc', 'fpext', 'fptoui', 'fptosi',
            'uitofp', 'sitofp', 'addrspacecast'}
BIN_OPS = {'add', 'sub', 'mul', 'udiv', 'sdiv', 'urem', 'srem', 'shl', 'lshr', 'ashr', 'and', 'or', 'xor',
           'fadd', 'fsub', 'fmul', 'fdiv', 'frem'}
FLAGS = {'nsw', 'nuw', 'exact', 'inbounds', 'nnan', 'ninf', 'nsz', 'arcp', 'contract', 'afn', 'reassoc', 'fast'}


class Parser:
    def __init__(self, mod):
        self.m = mod

    def parse_value(self, T, ty):
        k, v = T.next()
        if k == 'lname': return Reg(v, ty)
        if k == 'gname': return GRef(v, ty)
        if k == 'num' or k == 'hex':
            if isinstance(ty, FloatTy): return CFloat(v, ty)
            return CInt(int(v), ty)
        if k == 'str': return CStr(unescape_cstr(v), ty)
        if k == 'id':
            if v == 'true': return CInt(1, ty)
            if v == 'false': return CInt(0, ty)
            if v == 'null': return CNull(ty)
            if v in ('undef', 'poison'): return CUndef(ty)
            if v == 'zeroinitializer': return CZero(ty)
            if v in CAST_OPS:
                T.expect('('); st = self.m.parse_type(T); sv = self.parse_value(T, st); T.expect('to')
                dt = self.m.parse_type(T); T.expect(')')
                return CExpr(v, [sv], dt)
            if v == 'getelementptr':
                while T.peek()[1] in FLAGS: T.next()
                T.expect('('); bt = self.m.parse_type(T); T.expect(',')
                args = []
                while True:
                    while T.peek()[1] == 'inrange': T.next()
                    at = self.m.parse_type(T)
                    while T.peek()[1] == 'inrange': T.next()
                    args.append(self.parse_value(T, at))
                    if T.accept(')'): break
                    T.expect(',')
                return CExpr('getelementptr', args, ty, extra=bt)
            if v in BIN_OPS:
                while T.peek()[1] in FLAGS: T.next()
                T.expect('('); t1 = self.m.parse_type(T); a = self.parse_value(T, t1); T.expect(',')
                t2 = self.m.parse_type(T); b = self.parse_value(T, t2); T.expect(')')
                return CExpr(v, [a, b], ty)
            if v in ('icmp', 'fcmp'):
                pred = T.next()[1]
                T.expect('('); t1 = self.m.parse_type(T); a = self.parse_value(T, t1); T.expect(',')
                t2 = self.m.parse_type(T); b = self.parse_value(T, t2); T.expect(')')
                return CExpr(v, [a, b], ty, extra=pred)
            if v == 'select':
                T.expect('('); xs = []
                while True:
                    t1 = self.m.parse_type(T); xs.append(self.parse_value(T, t1))
                    if T.accept(')'): break
                    T.expect(',')
                return CExpr('select', xs, ty)
            if v == 'blockaddress' or v == 'dso_local_equivalent' or v == 'no_cfi':
                raise SyntaxError('unsupported const ' + v)
            raise SyntaxError('value? %r' % v)
        if v == '{' or v == '<{' or v == '[':
            close = {'{': '}', '<{': '}>', '[': ']'}[v]
            els = []
            if not T.accept(close):
                while True:
                    et = self.m.parse_type(T); els.append(self.parse_value(T, et))
                    if T.accept(close): break
                    T.expect(',')
            return CAgg(els, ty)
        if k == 'meta':
            return CUndef(ty)
        raise SyntaxError('value? %r %r' % (k, v))

    def parse_typed_value(self, T):
        ty = self.m.parse_type(T)
        while T.peek()[1] in PARAM_ATTRS or T.peek()[1] in ('align', 'dereferenceable', 'dereferenceable_or_null', 'byval', 'sret', 'elementtype', 'preallocated', 'byref'):
            a = T.next()[1]
            if a in ('align',):
                T.next()
            elif T.peek()[1] == '(':
                depth = 0
                while True:
                    x = T.next()[1]
                    if x == '(': depth += 1
                    if x == ')':
                        depth -= 1
                        if depth == 0: break
        return self.parse_value(T, ty)


class Instr:
    def __init__(s, **kw): s.__dict__.update(kw)


class Func:
    def __init__(s):
        s.blocks = collections.OrderedDict(); s.params = []; s.name = None; s.ret = None; s.va = False
        s.attrs = set(); s.defined = False


def skip_parens(T):
    depth = 0
    while True:
        x = T.next()[1]
        if x == '(': depth += 1
        elif x == ')':
            depth -= 1
            if depth == 0: return


def parse_param_attrs(T):
    """consume attrs, return dict of interesting ones"""
    res = {}
    while True:
        v = T.peek()[1]
        if v in PARAM_ATTRS:
            T.next()
        elif v == 'align':
            T.next(); T.next()
        elif v in ('dereferenceable', 'dereferenceable_or_null'):
            T.next(); skip_parens(T)
        elif v in ('byval', 'sret', 'elementtype', 'byref', 'preallocated'):
            T.next()
            if T.peek()[1] == '(':
                # contains a type; remember byval
                depth = 0; start = T.i
                skip_parens(T)
            res[v] = True
        else:
            return res


def parse_module(text):
    mod = Module(); P = Parser(mod)
    lines = text.split('\n')
    i = 0
    # join continuation lines inside functions
    cur = None
    pending_fn_lines = []
    while i < len(lines):
        ln = lines[i]; i += 1
        s = ln.strip()
        if not s or s.startswith(';'): continue
        if s.startswith('source_filename') or s.startswith('target ') or s.startswith('!') or s.startswith('$'):
            continue
        if s.startswith('attributes #'):
            m = re.match(r'attributes (#\d+) = \{(.*)\}', s)
            mod.attrgroups[m.group(1)] = set(re.findall(r'[a-z_]+', re.sub(r'"[^"]*"(="[^"]*")?', '', m.group(2))))
            continue
        if s.startswith('%') and ' = type ' in s:
            T = Toks(tokenize(s))
            nm = T.next()[1]; T.expect('='); T.expect('type')
            if T.peek()[1] == 'opaque':
                st = mod.named.setdefault(nm, StructTy(None, name=nm)); st.els = []
            else:
                body = mod.parse_type(T)
                st = mod.named.setdefault(nm, StructTy(None, name=nm))
                st.els = body.els; st.packed = body.packed
            continue
        if s.startswith('@'):
            T = Toks(tokenize(strip_meta(s)))
            nm = T.next()[1]; T.expect('=')
            kw = set()
            while T.peek()[1] in LINKAGE or T.peek()[1] == 'thread_local':
                x = T.next()[1]; kw.add(x)
                if x == 'thread_local' and T.peek()[1] == '(':
                    skip_parens(T)
            if T.peek()[1] == 'alias' or T.peek()[1] == 'ifunc':
                raise SyntaxError('alias unsupported: ' + s[:80])
            gk = T.next()[1]
            assert gk in ('global', 'constant'), s[:100]
            ty = mod.parse_type(T)
            init = None
            if not T.eof() and T.peek()[1] != ',':
                init = P.parse_value(T, ty)
            mod.globals[nm] = Instr(name=nm, ty=ty, init=init, const=(gk == 'constant'), kw=kw)
            continue
        if s.startswith('declare ') or s.startswith('define '):
            T = Toks(tokenize(strip_meta(s)))
            isdef = T.next()[1] == 'define'
            f = Func(); f.defined = isdef
            while T.peek()[1] in LINKAGE or T.peek()[1] in FN_RET_ATTRS or T.peek()[1] in ('align', 'dereferenceable', 'dereferenceable_or_null'):
                x = T.next()[1]
                f.attrs.add(x)
                if x == 'align': T.next()
                elif x.startswith('dereferenceable'): skip_parens(T)
            f.ret = mod.parse_type_noptrfn(T) if False else parse_ret_type(mod, T)
            f.name = T.next()[1]
            T.expect('(')
            if not T.accept(')'):
                while True:
                    if T.accept('...'):
                        f.va = True
                    else:
                        pt = mod.parse_type(T)
                        pa = parse_param_attrs(T)
                        pn = None
                        if T.peek()[0] == 'lname': pn = T.next()[1]
                        f.params.append((pt, pn, pa))
                    if T.accept(')'): break
                    T.expect(',')
            # trailing attrs
            while not T.eof():
                k, v = T.next()
                if k == 'attr': f.attrs |= mod.attrgroups.get(v, set()) | {v}
                elif v == 'personality':
                    break
                elif v == '{': break
                else: f.attrs.add(v)
            mod.funcs[f.name] = f
            if isdef:
                # collect body
                body = []
                while True:
                    ln = lines[i]; i += 1
                    if ln.startswith('}'): break
                    st = ln.strip()
                    if not st or st.startswith(';'): continue
                    body.append(ln)
                f.body_lines = body
            continue
        raise SyntaxError('module line? %r' % s[:100])
    # resolve late attr groups (attributes appear at end of file)
    for f in mod.funcs.values():
        for a in list(f.attrs):
            if a.startswith('#'): f.attrs |= mod.attrgroups.get(a, set())
    for f in mod.funcs.values():
        if f.defined: parse_body(mod, P, f)
    return mod


def parse_ret_type(mod, T):
    # return type: must not swallow the '(' of the parameter list -> parse manually
    # types like "i8* (%x*)*" as return types are rare; handle common case
    save = T.i
    ty = parse_type_no_fn(mod, T)
    return ty


def parse_type_no_fn(mod, T):
    k, v = T.next()
    if k == 'id':
        m = re.fullmatch(r'i(\d+)', v)
        if m: base = IntTy(int(m.group(1)))
        elif v in ('float', 'double', 'x86_fp80'): base = FloatTy(v)
        elif v == 'void': base = VoidTy()
        else: raise SyntaxError('ret type? %r' % v)
    elif k == 'lname':
        base = mod.named.setdefault(v, StructTy(None, name=v))
    elif v in ('{', '<{', '['):
        T.i -= 1
        # aggregate types cannot be followed by '(' ambiguity except fn types; use full parser but stop before '('
        base = parse_agg_type(mod, T)
    else:
        raise SyntaxError('ret type? %r' % v)
    while T.accept('*'):
        base = PtrTy(base)
    return base


def parse_agg_type(mod, T):
    # parse one aggregate type without trailing fn-type suffix
    k, v = T.next()
    if v == '[':
        n = int(T.next()[1]); T.expect('x'); el = mod.parse_type(T); T.expect(']')
        return ArrTy(n, el)
    close = '}' if v == '{' else '}>'
    els = []
    if not T.accept(close):
        while True:
            els.append(mod.parse_type(T))
            if T.accept(close): break
            T.expect(',')
    return StructTy(els, packed=(v == '<{'))


def strip_meta(s):
    # drop trailing ", !tbaa !5" style metadata attachments and comments
    s = re.sub(r';[^"]*$', '', s)
    s = re.sub(r'(,\s*![a-zA-Z_.]+ ![0-9]+)+\s*$', '', s)
    s = re.sub(r'\s+![a-zA-Z_.]+ ![0-9]+', '', s)
    s = re.sub(r',\s*comdat(\(\$[^)]*\))?', '', s)
    s = re.sub(r'\bcomdat(\(\$[^)]*\))?', '', s)
    s = re.sub(r',\s*align \d+\s*$', '', s)
    s = re.sub(r',\s*section "[^"]*"', '', s)
    return s


def parse_body(mod, P, f):
    # join continuation lines
    joined = []
    for ln in f.body_lines:
        st = ln.strip()
        if re.match(r'^[-a-zA-Z$._0-9"]+:', st) or re.match(r'^\d+:', st):
            joined.append(('label', st.split(':')[0]))
            continue
        is_cont = (st.startswith('to label') or st.startswith('catch ') or st.startswith('cleanup') or
                   st.startswith('filter ') or st.startswith(']') or re.match(r'^i\d+ -?\d+, label', st))
        if is_cont and joined and joined[-1][0] == 'ins':
            joined[-1] = ('ins', joined[-1][1] + ' ' + st)
        else:
            joined.append(('ins', st))
    cur = None
    blocks = f.blocks
    first = True
    for kind, s in joined:
        if kind == 'label':
            cur = s.strip('"'); blocks[cur] = []
            continue
        if cur is None:
            # implicit entry label: number = count of unnamed params
            cur = '__entry__'; blocks[cur] = []
        blocks[cur].append(parse_instr(mod, P, strip_meta(s)))
    # the implicit entry block's real name: next unnamed value id
    if '__entry__' in blocks:
        n = 0
        for (pt, pn, pa) in f.params:
            if pn is not None and re.fullmatch(r'%\d+', pn): n = max(n, int(pn[1:]) + 1)
        f.entry_alias = str(n)
    else:
        f.entry_alias = None


def parse_call_like(mod, P, T, is_invoke):
    # after 'call'/'invoke' keyword (tail/musttail/notail consumed)
    while T.peek()[1] in FLAGS or T.peek()[1] in ('fastcc', 'ccc', 'coldcc'): T.next()
    # ret attrs
    while T.peek()[1] in FN_RET_ATTRS or T.peek()[1] in ('align', 'dereferenceable', 'dereferenceable_or_null'):
        x = T.next()[1]
        if x == 'align': T.next()
        elif x.startswith('dereferenceable'): skip_parens(T)
    rty = parse_type_no_fn(mod, T)
    fnty = None
    if T.peek()[1] == '(':
        # explicit function type follows: "ret (args...)" then callee
        save = T.i
        T.next(); args = []; va = False
        if not T.accept(')'):
            while True:
                if T.accept('...'): va = True
                else: args.append(mod.parse_type(T))
                if T.accept(')'): break
                T.expect(',')
        fnty = FnTy(rty, args, va)
        while T.accept('*'): pass
    callee = P.parse_value(T, None)
    T.expect('(')
    args = []
    if not T.accept(')'):
        while True:
            at = mod.parse_type(T)
            pa = parse_param_attrs(T)
            args.append((P.parse_value(T, at), pa))
            if T.accept(')'): break
            T.expect(',')
    attrs = set()
    normal = unwind = None
    while not T.eof():
        k, v = T.peek()
        if k == 'attr': attrs |= mod.attrgroups.get(v, set()) | {v}; T.next()
        elif v == 'to':
            T.next(); T.expect('label'); normal = T.next()[1]; T.expect('unwind'); T.expect('label'); unwind = T.next()[1]
        elif v == '[':
            # operand bundles
            depth = 0
            while True:
                x = T.next()[1]
                if x == '[': depth += 1
                if x == ']':
                    depth -= 1
                    if depth == 0: break
        else:
            attrs.add(v); T.next()
    return rty, fnty, callee, args, attrs, normal, unwind


def parse_instr(mod, P, s):
    T = Toks(tokenize(s))
    dest = None
    if T.peek()[0] == 'lname' and T.peek(1)[1] == '=':
        dest = T.next()[1]; T.next()
    op = T.next()[1]
    I = Instr(op=op, dest=dest, text=s)
    if op in ('tail', 'musttail', 'notail'):
        op = T.next()[1]; I.op = op
    if op in BIN_OPS:
        I.flags = set()
        while T.peek()[1] in FLAGS: I.flags.add(T.next()[1])
        I.ty = mod.parse_type(T); I.a = P.parse_value(T, I.ty); T.expect(','); I.b = P.parse_value(T, I.ty)
    elif op == 'fneg':
        while T.peek()[1] in FLAGS: T.next()
        I.ty = mod.parse_type(T); I.a = P.parse_value(T, I.ty)
    elif op in ('icmp', 'fcmp'):
        while T.peek()[1] in FLAGS: T.next()
        I.pred = T.next()[1]; I.oty = mod.parse_type(T); I.a = P.parse_value(T, I.oty); T.expect(','); I.b = P.parse_value(T, I.oty)
        I.ty = IntTy(1)
    elif op in CAST_OPS:
        st = mod.parse_type(T); I.a = P.parse_value(T, st); T.expect('to'); I.ty = mod.parse_type(T)
    elif op == 'select':
        while T.peek()[1] in FLAGS: T.next()
        ct = mod.parse_type(T); I.c = P.parse_value(T, ct); T.expect(',')
        I.ty = mod.parse_type(T); I.a = P.parse_value(T, I.ty); T.expect(',')
        t2 = mod.parse_type(T); I.b = P.parse_value(T, t2)
    elif op == 'freeze':
        I.ty = mod.parse_type(T); I.a = P.parse_value(T, I.ty)
    elif op == 'alloca':
        if T.peek()[1] == 'inalloca': T.next()
        I.aty = mod.parse_type(T); I.count = None
        while T.accept(','):
            if T.accept('align'): T.next()
            elif T.peek()[1] == 'addrspace': T.next(); skip_parens(T)
            else:
                ct = mod.parse_type(T); I.count = P.parse_value(T, ct)
        I.ty = PtrTy(I.aty)
    elif op == 'load':
        I.atomic = T.accept('atomic'); T.accept('volatile')
        I.ty = mod.parse_type(T); T.expect(','); pt = mod.parse_type(T); I.p = P.parse_value(T, pt)
    elif op == 'store':
        I.atomic = T.accept('atomic'); T.accept('volatile')
        vt = mod.parse_type(T); I.v = P.parse_value(T, vt); T.expect(','); pt = mod.parse_type(T); I.p = P.parse_value(T, pt)
        I.ty = VoidTy()
    elif op == 'getelementptr':
        I.inb = T.accept('inbounds')
        I.bt = mod.parse_type(T); T.expect(',')
        pt = mod.parse_type(T); I.p = P.parse_value(T, pt); I.idx = []
        while T.accept(','):
            it = mod.parse_type(T); I.idx.append(P.parse_value(T, it))
        I.ty = None  # computed later
    elif op == 'phi':
        while T.peek()[1] in FLAGS: T.next()
        I.ty = mod.parse_type(T); I.inc = []
        while True:
            T.expect('['); v = P.parse_value(T, I.ty); T.expect(','); l = T.next()[1]; T.expect(']')
            I.inc.append((v, l))
            if not T.accept(','): break
    elif op in ('call', 'invoke'):
        I.rty, I.fnty, I.callee, I.args, I.attrs, I.normal, I.unwind = parse_call_like(mod, P, T, op == 'invoke')
        I.ty = I.rty
    elif op == 'ret':
        I.ty = mod.parse_type(T)
        I.v = None if isinstance(I.ty, VoidTy) else P.parse_value(T, I.ty)
    elif op == 'br':
        if T.accept('label'):
            I.cond = None; I.t = T.next()[1]
        else:
            ct = mod.parse_type(T); I.cond = P.parse_value(T, ct); T.expect(','); T.expect('label'); I.t = T.next()[1]
            T.expect(','); T.expect('label'); I.f = T.next()[1]
    elif op == 'switch':
        vt = mod.parse_type(T); I.v = P.parse_value(T, vt); T.expect(','); T.expect('label'); I.default = T.next()[1]
        T.expect('['); I.cases = []
        while not T.accept(']'):
            ct = mod.parse_type(T); cv = P.parse_value(T, ct); T.expect(','); T.expect('label'); I.cases.append((cv, T.next()[1]))
    elif op == 'unreachable':
        pass
    elif op == 'resume':
        t = mod.parse_type(T); I.v = P.parse_value(T, t)
    elif op == 'landingpad':
        I.ty = mod.parse_type(T); I.cleanup = False; I.clauses = []
        while not T.eof():
            x = T.next()[1]
            if x == 'cleanup': I.cleanup = True
            elif x == 'catch':
                ct = mod.parse_type(T); I.clauses.append(('catch', P.parse_value(T, ct)))
            elif x == 'filter':
                ct = mod.parse_type(T); I.clauses.append(('filter', P.parse_value(T, ct)))
    elif op in ('extractvalue', 'insertvalue'):
        at = mod.parse_type(T); I.agg = P.parse_value(T, at); I.aggty = at
        if op == 'insertvalue':
            T.expect(','); et = mod.parse_type(T); I.v = P.parse_value(T, et)
        I.path = []
        while T.accept(','):
            I.path.append(int(T.next()[1]))
        I.ty = None
    elif op == 'fence':
        pass
    elif op == 'atomicrmw':
        T.accept('volatile'); I.rmw = T.next()[1]
        pt = mod.parse_type(T); I.p = P.parse_value(T, pt); T.expect(',')
        I.ty = mod.parse_type(T); I.v = P.parse_value(T, I.ty)
    elif op == 'cmpxchg':
        T.accept('weak'); T.accept('volatile')
        pt = mod.parse_type(T); I.p = P.parse_value(T, pt); T.expect(',')
        vt = mod.parse_type(T); I.cmp = P.parse_value(T, vt); T.expect(',')
        vt2 = mod.parse_type(T); I.new = P.parse_value(T, vt2)
        I.vty = vt; I.ty = StructTy([vt, IntTy(1)])
    else:
        raise SyntaxError('instr? %r in %r' % (op, s[:120]))
    return I


def cname(n):
    n = n[1:]
    if n.startswith('"'): n = n[1:-1]
    out = re.sub(r'[^A-Za-z0-9_]', lambda m: '_%02x' % ord(m.group(0)), n)
    if out[0].isdigit(): out = '_' + out
    return out


STD_BASES = {
    '_ZTISt9exception': None, '_ZTISt11logic_error': '_ZTISt9exception', '_ZTISt12length_error': '_ZTISt11logic_error',
    '_ZTISt12out_of_range': '_ZTISt11logic_error', '_ZTISt16invalid_argument': '_ZTISt11logic_error',
    '_ZTISt12domain_error': '_ZTISt11logic_error', '_ZTISt13runtime_error': '_ZTISt9exception',
    '_ZTISt11range_error': '_ZTISt13runtime_error', '_ZTISt14overflow_error': '_ZTISt13runtime_error',
    '_ZTISt15underflow_error': '_ZTISt13runtime_error', '_ZTISt12system_error': '_ZTISt13runtime_error',
    '_ZTINSt8ios_base7failureB5cxx11E': '_ZTISt12system_error', '_ZTISt9bad_alloc': '_ZTISt9exception',
    '_ZTISt20bad_array_new_length': '_ZTISt9bad_alloc', '_ZTISt8bad_cast': '_ZTISt9exception',
    '_ZTISt12future_error': '_ZTISt11logic_error', '_ZTISt17bad_function_call': '_ZTISt9exception',
    '_ZTIN9protozero9exceptionE': '_ZTISt9exception',
}
