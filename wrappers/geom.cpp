// C17: geometry export: factory logic (order, duplicate suppression, reversal, ring grouping, degenerate input), WKB encoding, double2string
#include <osmium/geom/factory.hpp>
#include <osmium/geom/wkb.hpp>
#include <osmium/geom/wkt.hpp>
#include <osmium/geom/geojson.hpp>
#include <osmium/util/double.hpp>
#include <osmium/builder/osm_object_builder.hpp>
#include <osmium/memory/buffer.hpp>
#include <osmium/osm.hpp>
#include <cstring>
#define ENTRY extern "C" __attribute__((noinline))
using namespace osmium;

// Projection that performs the validity check of IdentityProjection (Location::lon()/lat() throw on invalid locations) but
// transports the fixed-point integers bit-for-bit inside the doubles, so that the geometry code can be followed without floating point.
struct BitProjection {
    geom::Coordinates operator()(Location location) const {
        (void)location.lon(); (void)location.lat();
        geom::Coordinates c;
        const long x = location.x(), y = location.y();
        std::memcpy(&c.x, &x, 8); std::memcpy(&c.y, &y, 8);
        return c;
    }
    int epsg() const noexcept { return 4326; }
    std::string proj_string() const { return ""; }
};

static long* g_log; static unsigned g_n, g_cap;
static void L(long v) { if (g_n < g_cap) g_log[g_n] = v; ++g_n; }
static void LC(long op, const geom::Coordinates& c) { long x, y; std::memcpy(&x, &c.x, 8); std::memcpy(&y, &c.y, 8); L(op); L(x); L(y); }

enum { OP_POINT = 100, OP_LS_START, OP_LS_ADD, OP_LS_FINISH, OP_PG_START, OP_PG_ADD, OP_PG_FINISH, OP_MP_START, OP_MP_PSTART, OP_MP_PFINISH,
       OP_MP_OSTART, OP_MP_OFINISH, OP_MP_ISTART, OP_MP_IFINISH, OP_MP_ADD, OP_MP_FINISH };

struct LogImpl {
    using point_type = int; using linestring_type = int; using polygon_type = int; using multipolygon_type = int; using ring_type = int;
    explicit LogImpl(int /*srid*/) {}
    point_type make_point(const geom::Coordinates& xy) const { LC(OP_POINT, xy); return 0; }
    void linestring_start() { L(OP_LS_START); }
    void linestring_add_location(const geom::Coordinates& xy) { LC(OP_LS_ADD, xy); }
    linestring_type linestring_finish(std::size_t n) { L(OP_LS_FINISH); L(static_cast<long>(n)); return 0; }
    void polygon_start() { L(OP_PG_START); }
    void polygon_add_location(const geom::Coordinates& xy) { LC(OP_PG_ADD, xy); }
    polygon_type polygon_finish(std::size_t n) { L(OP_PG_FINISH); L(static_cast<long>(n)); return 0; }
    void multipolygon_start() { L(OP_MP_START); }
    void multipolygon_polygon_start() { L(OP_MP_PSTART); }
    void multipolygon_polygon_finish() { L(OP_MP_PFINISH); }
    void multipolygon_outer_ring_start() { L(OP_MP_OSTART); }
    void multipolygon_outer_ring_finish() { L(OP_MP_OFINISH); }
    void multipolygon_inner_ring_start() { L(OP_MP_ISTART); }
    void multipolygon_inner_ring_finish() { L(OP_MP_IFINISH); }
    void multipolygon_add_location(const geom::Coordinates& xy) { LC(OP_MP_ADD, xy); }
    multipolygon_type multipolygon_finish() { L(OP_MP_FINISH); return 0; }
};

static void build_way(memory::Buffer& b, const int* xy, unsigned n) {
    { builder::WayBuilder wb{b}; wb.set_id(17);
      { builder::WayNodeListBuilder wn{wb}; for (unsigned i = 0; i < n; ++i) wn.add_node_ref(NodeRef{static_cast<long>(i + 1), Location{xy[2 * i], xy[2 * i + 1]}}); } }
    b.commit();
}

// rings[]: number of points per ring, kinds[]: 0 outer, 1 inner, in item order
static void build_area(memory::Buffer& b, const int* xy, const unsigned* rings, const unsigned char* kinds, unsigned nrings) {
    { builder::AreaBuilder ab{b}; ab.set_id(34);
      unsigned k = 0;
      for (unsigned r = 0; r < nrings; ++r) {
          if (kinds[r] == 0) { builder::OuterRingBuilder rb{ab}; for (unsigned i = 0; i < rings[r]; ++i, ++k) rb.add_node_ref(NodeRef{static_cast<long>(k + 1), Location{xy[2 * k], xy[2 * k + 1]}}); }
          else { builder::InnerRingBuilder rb{ab}; for (unsigned i = 0; i < rings[r]; ++i, ++k) rb.add_node_ref(NodeRef{static_cast<long>(k + 1), Location{xy[2 * k], xy[2 * k + 1]}}); }
      } }
    b.commit();
}

// what: 0 point (first location), 1 linestring, 2 polygon; un: 0 all, 1 unique; dir: 0 forward, 1 backward
// rc: 0 ok, 1 geometry_error, 2 invalid_location, 3 other exception
ENTRY int verif_factory_log(int what, int un, int dir, const int* xy, unsigned n, long* log, unsigned cap, unsigned* nlog) {
    g_log = log; g_n = 0; g_cap = cap;
    memory::Buffer b{1024};
    build_way(b, xy, n);
    const auto& way = b.get<Way>(0);
    geom::GeometryFactory<LogImpl, BitProjection> f;
    int rc = 0;
    try {
        const auto u = un ? geom::use_nodes::unique : geom::use_nodes::all; const auto d = dir ? geom::direction::backward : geom::direction::forward;
        if (what == 0) f.create_point(way.nodes()[0]);
        else if (what == 1) f.create_linestring(way, u, d);
        else f.create_polygon(way, u, d);
    } catch (const osmium::geometry_error&) { rc = 1; } catch (const osmium::invalid_location&) { rc = 2; } catch (const std::exception&) { rc = 3; }
    *nlog = g_n;
    return rc;
}

ENTRY int verif_multipolygon_log(const int* xy, const unsigned* rings, const unsigned char* kinds, unsigned nrings, long* log, unsigned cap, unsigned* nlog) {
    g_log = log; g_n = 0; g_cap = cap;
    memory::Buffer b{2048};
    build_area(b, xy, rings, kinds, nrings);
    geom::GeometryFactory<LogImpl, BitProjection> f;
    int rc = 0;
    try { f.create_multipolygon(b.get<Area>(0)); }
    catch (const osmium::geometry_error&) { rc = 1; } catch (const osmium::invalid_location&) { rc = 2; } catch (const std::exception&) { rc = 3; }
    *nlog = g_n;
    return rc;
}

// real WKB implementation; wkbtype bit 0: 0 wkb, 1 ewkb; bit 1: the factory has a history of rejected objects; hex: 0 binary, 1 hex
ENTRY int verif_wkb(int what, int un, int dir, int wkbtype, int hex, const int* xy, unsigned n, const unsigned* rings, const unsigned char* kinds, unsigned nrings,
                    unsigned char* out, unsigned cap, unsigned* outlen) {
    memory::Buffer b{2048};
    geom::GeometryFactory<geom::detail::WKBFactoryImpl, BitProjection> f{(wkbtype & 1) ? geom::wkb_type::ewkb : geom::wkb_type::wkb, hex ? geom::out_type::hex : geom::out_type::binary};
    std::string s;
    if (wkbtype & 2) {
        // history: the same factory object has rejected degenerate objects before (one-point way, three-point polygon, invalid location in the middle of a way and of a ring)
        memory::Buffer pb{2048};
        const int one[] = {1, 1}; const int three[] = {1, 1, 2, 2, 3, 3}; const int bad[] = {1, 1, 1900000000, 5, 2, 2};
        const unsigned r3[] = {3}; const unsigned char k0[] = {0};
        build_way(pb, one, 1); build_way(pb, three, 3); build_way(pb, bad, 3); build_area(pb, bad, r3, k0, 1);
        std::size_t off = 0; const Way* ways[3];
        for (auto& wp : ways) { wp = &pb.get<Way>(off); off += wp->padded_size(); }
        try { f.create_linestring(*ways[0]); } catch (const std::exception&) {}
        try { f.create_polygon(*ways[1]); } catch (const std::exception&) {}
        try { f.create_linestring(*ways[2], geom::use_nodes::all); } catch (const std::exception&) {}
        try { f.create_multipolygon(pb.get<Area>(off)); } catch (const std::exception&) {}
    }
    try {
        const auto u = un ? geom::use_nodes::unique : geom::use_nodes::all; const auto d = dir ? geom::direction::backward : geom::direction::forward;
        if (what == 3) { build_area(b, xy, rings, kinds, nrings); s = f.create_multipolygon(b.get<Area>(0)); }
        else {
            build_way(b, xy, n);
            const auto& way = b.get<Way>(0);
            if (what == 0) s = f.create_point(way.nodes()[0]); else if (what == 1) s = f.create_linestring(way, u, d); else s = f.create_polygon(way, u, d);
        }
    } catch (const osmium::geometry_error&) { return 1; } catch (const osmium::invalid_location&) { return 2; } catch (const std::exception&) { return 3; }
    if (s.size() > cap) return 9;
    std::memcpy(out, s.data(), s.size()); *outlen = static_cast<unsigned>(s.size());
    return 0;
}

ENTRY int verif_double2string(char* out, double v, int precision) {
    char* e = osmium::double2string(out, v, precision);
    return static_cast<int>(e - out);
}

// the default projection of the WKB / WKT / GeoJSON factories: degrees from the fixed-point location, invalid locations rejected
ENTRY int verif_identity_projection(int x, int y, double* out) {
    try {
        const osmium::geom::Coordinates c = osmium::geom::IdentityProjection{}(osmium::Location{x, y});
        out[0] = c.x; out[1] = c.y;
        return 0;
    } catch (const osmium::invalid_location&) { return 1; }
}

// WKT / GeoJSON text factories.  Projection: the validity check of the default projection, coordinates = the fixed-point integers as doubles (small
// integers in the harness, so that the decimal text is exact and short).  format 0 WKT, 1 GeoJSON; what 0 point, 1 linestring, 2 polygon, 3 multipolygon
struct IntProjection {
    geom::Coordinates operator()(Location location) const { (void)location.lon(); (void)location.lat(); return geom::Coordinates{static_cast<double>(location.x()), static_cast<double>(location.y())}; }
    int epsg() const noexcept { return 4326; }
    std::string proj_string() const { return ""; }
};
template <typename F> static int text_geom(F& f, int what, int un, int dir, const int* xy, unsigned n, const unsigned* rings, const unsigned char* kinds, unsigned nrings, char* out, unsigned cap, unsigned* outlen) {
    memory::Buffer b{2048};
    std::string s;
    try {
        const auto u = un ? geom::use_nodes::unique : geom::use_nodes::all; const auto d = dir ? geom::direction::backward : geom::direction::forward;
        if (what == 3) { build_area(b, xy, rings, kinds, nrings); s = f.create_multipolygon(b.get<Area>(0)); }
        else {
            build_way(b, xy, n);
            const auto& way = b.get<Way>(0);
            if (what == 0) s = f.create_point(way.nodes()[0]); else if (what == 1) s = f.create_linestring(way, u, d); else s = f.create_polygon(way, u, d);
        }
    } catch (const osmium::geometry_error&) { return 1; } catch (const osmium::invalid_location&) { return 2; } catch (const std::exception&) { return 3; }
    if (s.size() + 1 > cap) return 9;
    std::memcpy(out, s.c_str(), s.size() + 1); *outlen = static_cast<unsigned>(s.size());
    return 0;
}
ENTRY int verif_text_geom(int format, int what, int un, int dir, const int* xy, unsigned n, const unsigned* rings, const unsigned char* kinds, unsigned nrings, char* out, unsigned cap, unsigned* outlen) {
    if (format == 0) { geom::GeometryFactory<geom::detail::WKTFactoryImpl, IntProjection> f; return text_geom(f, what, un, dir, xy, n, rings, kinds, nrings, out, cap, outlen); }
    geom::GeometryFactory<geom::detail::GeoJSONFactoryImpl, IntProjection> f; return text_geom(f, what, un, dir, xy, n, rings, kinds, nrings, out, cap, outlen);
}
