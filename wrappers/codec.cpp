// C01: write -> read round trips at the codec level.  The PBF pair is the real block writer (PrimitiveBlock + DenseNodes / plain nodes,
// SerializeBlob without compression) followed by the real reader kernels (length prefix, decode_blob_header, decode_blob,
// PBFPrimitiveBlockDecoder).  Threads, queues and zlib are not involved.
#include <osmium/io/detail/pbf_output_format.hpp>
#include <osmium/io/detail/pbf_input_format.hpp>
#include <osmium/io/detail/pbf_decoder.hpp>
#include <osmium/builder/osm_object_builder.hpp>
#include <osmium/osm/metadata_options.hpp>
#include "dump.hpp"
#define ENTRY extern "C" __attribute__((noinline))
using namespace osmium;
using namespace osmium::io::detail;

// n nodes: fields[i] = {id, version, timestamp, changeset, uid, visible, x, y}; md = metadata bit set (version 1, timestamp 2, changeset 4, uid 8);
// returns 0 and the dump of the decoded block; 1 pbf_error, 2 protozero, 3 other, 9 dump overflow
ENTRY int verif_pbf_nodes_roundtrip(const long* fields, unsigned n, int dense, unsigned md, int visible_flag, int read_meta,
                                    unsigned char* out, unsigned cap, unsigned* outlen, unsigned char* filebytes, unsigned filecap, unsigned* filelen) {
    try {
        memory::Buffer in{1024};
        for (unsigned i = 0; i < n; ++i) {
            const long* f = fields + 8 * i;
            { builder::NodeBuilder nb{in};
              nb.set_id(f[0]).set_version(static_cast<object_version_type>(f[1])).set_timestamp(Timestamp{static_cast<uint32_t>(f[2])})
                .set_changeset(static_cast<changeset_id_type>(f[3])).set_uid(static_cast<user_id_type>(f[4])).set_visible(f[5] != 0)
                .set_location(Location{static_cast<int32_t>(f[6]), static_cast<int32_t>(f[7])}); }
            in.commit();
        }
        pbf_output_options options;
        options.use_dense_nodes = dense != 0;
        options.use_compression = pbf_compression::none;
        options.add_visible_flag = visible_flag != 0;
        options.add_metadata = osmium::metadata_options{};
        options.add_metadata.set_version(md & 1U); options.add_metadata.set_timestamp(md & 2U); options.add_metadata.set_changeset(md & 4U);
        options.add_metadata.set_uid(md & 8U); options.add_metadata.set_user(false);
        auto block = std::make_shared<PrimitiveBlock>(options, OSMFormat::PrimitiveGroup::optional_DenseNodes_dense, StringTable::min_bucket_count);
        for (const auto& node : in.select<Node>()) block->add_dense_node(node);
        std::string file = SerializeBlob{std::move(block), pbf_blob_type::data, pbf_compression::none, 0}();
        if (file.size() > filecap) return 9;
        std::memcpy(filebytes, file.data(), file.size()); *filelen = static_cast<unsigned>(file.size());
        // ---- reader side
        const uint32_t hsize = PBFParser::check_size(PBFParser::get_size_in_network_byte_order(file.data()));
        const std::size_t bsize = PBFParser::decode_blob_header(protozero::data_view{file.data() + 4, hsize}, "OSMData");
        if (4 + hsize + bsize != file.size()) return 4;
        std::string blob{file.data() + 4 + hsize, bsize}, unpacked;
        PBFPrimitiveBlockDecoder decoder{decode_blob(blob, unpacked), osm_entity_bits::all, read_meta ? io::read_meta::yes : io::read_meta::no};
        memory::Buffer b = decoder();
        Dump d{out, cap}; d.buffer(b); *outlen = d.len;
        return d.overflow ? 9 : 0;
    } catch (const osmium::pbf_error&) { return 1; } catch (const protozero::exception&) { return 2; } catch (const std::exception&) { return 3; }
}

// ---------------------------------------------------------------- PBF: plain node / way / relation through PBFOutputFormat::node / way / relation
// kind 0 plain node {id, version, changeset, uid, x, y}; 1 way {id, version, ref0, ref1, ref2, x (of ref0 if locations are written)};
// 2 relation {id, version, mref0 (node), mref1 (way), mref2 (relation), mref3 (node)}.  User "usr", one tag, roles "a" / "" / "a" / "b".
// out1 = dump of the object as built, out2 = dump of what the reader made of the written block.  low: 0 = no locations on ways, else the option is on
// and bits 0..2 say which of the three references have a location (an undefined location is a legal value)
ENTRY int verif_pbf_object_roundtrip(int kind, const long* f, int low, unsigned char* out1, unsigned* len1, unsigned char* out2, unsigned* len2, unsigned cap) {
    try {
        memory::Buffer in{1024};
        if (kind == 0) {
            { builder::NodeBuilder b{in}; b.set_id(f[0]).set_version(static_cast<object_version_type>(f[1])).set_timestamp(Timestamp{uint32_t(1000000000)}).set_changeset(static_cast<changeset_id_type>(f[2]))
                .set_uid(static_cast<user_id_type>(f[3])).set_location(Location{static_cast<int32_t>(f[4]), static_cast<int32_t>(f[5])}); b.set_user("usr");
              { builder::TagListBuilder t{b}; t.add_tag("k", "v"); } }
        } else if (kind == 1) {
            { builder::WayBuilder b{in}; b.set_id(f[0]).set_version(static_cast<object_version_type>(f[1])).set_timestamp(Timestamp{uint32_t(1000000000)}).set_changeset(7).set_uid(8); b.set_user("usr");
              { builder::WayNodeListBuilder wn{b};
                wn.add_node_ref(NodeRef{f[2], (low & 1) ? Location{static_cast<int32_t>(f[5]), 11} : Location{}}); wn.add_node_ref(NodeRef{f[3], (low & 2) ? Location{-5, 12} : Location{}}); wn.add_node_ref(NodeRef{f[4], (low & 4) ? Location{7, -13} : Location{}}); }
              { builder::TagListBuilder t{b}; t.add_tag("k", "v"); } }
        } else {
            { builder::RelationBuilder b{in}; b.set_id(f[0]).set_version(static_cast<object_version_type>(f[1])).set_timestamp(Timestamp{uint32_t(1000000000)}).set_changeset(7).set_uid(8); b.set_user("usr");
              { builder::RelationMemberListBuilder ml{b}; ml.add_member(item_type::node, f[2], "a"); ml.add_member(item_type::way, f[3], ""); ml.add_member(item_type::relation, f[4], "a"); ml.add_member(item_type::node, f[5], "b"); }
              { builder::TagListBuilder t{b}; t.add_tag("k", "v"); } }
        }
        in.commit();
        { Dump d{out1, cap}; d.buffer(in); *len1 = d.len; if (d.overflow) return 9; }
        // partially constructed output format: only the options and the primitive block are used by node() / way() / relation()
        struct Raw { alignas(PBFOutputFormat) unsigned char mem[sizeof(PBFOutputFormat)]; } raw; std::memset(raw.mem, 0, sizeof(raw.mem));
        auto* of = reinterpret_cast<PBFOutputFormat*>(raw.mem);
        new (&of->m_options) pbf_output_options{};
        of->m_options.use_dense_nodes = false; of->m_options.use_compression = pbf_compression::none; of->m_options.locations_on_ways = low != 0;
        of->m_options.add_metadata = osmium::metadata_options{};
        of->m_options.add_metadata.set_version(true); of->m_options.add_metadata.set_timestamp(true); of->m_options.add_metadata.set_changeset(true); of->m_options.add_metadata.set_uid(true); of->m_options.add_metadata.set_user(true);
        new (&of->m_primitive_block) std::shared_ptr<PrimitiveBlock>{};
        of->m_bucket_count = StringTable::min_bucket_count;
        if (kind == 0) of->node(in.get<Node>(0)); else if (kind == 1) of->way(in.get<Way>(0)); else of->relation(in.get<Relation>(0));
        std::string file = SerializeBlob{std::move(of->m_primitive_block), pbf_blob_type::data, pbf_compression::none, 0}();
        const uint32_t hsize = PBFParser::check_size(PBFParser::get_size_in_network_byte_order(file.data()));
        const std::size_t bsize = PBFParser::decode_blob_header(protozero::data_view{file.data() + 4, hsize}, "OSMData");
        if (4 + hsize + bsize != file.size()) return 4;
        std::string blob{file.data() + 4 + hsize, bsize}, unpacked;
        PBFPrimitiveBlockDecoder decoder{decode_blob(blob, unpacked), osm_entity_bits::all, io::read_meta::yes};
        memory::Buffer b = decoder();
        Dump d{out2, cap}; d.buffer(b); *len2 = d.len;
        return d.overflow ? 9 : 0;
    } catch (const osmium::pbf_error&) { return 1; } catch (const protozero::exception&) { return 2; } catch (const std::exception&) { return 3; }
}

// ---------------------------------------------------------------- OPL: one object through OPLOutputBlock and back through opl_parse_line
#include <osmium/io/detail/opl_output_format.hpp>
#include <osmium/io/detail/opl_parser_functions.hpp>

// kind 0 node {id, version, timestamp, changeset, uid, visible, x, y}; 1 way {id, version, ref0, ref1}; 2 relation {id, version, mref0, mref1};
// 3 changeset {id, created, closed, uid, num_changes, x0, y0, x1}; 4 way with locations on ways {id, version, ref0, ref1, ref2, mask of references that have a location}.  md: metadata bits (version 1, timestamp 2, changeset 4, uid 8, user 16).
// out1 = dump of the object as built, out2 = dump of what the parser made of the written line.  rc 0 ok, 1 opl_error, 2 other, 9 overflow
ENTRY int verif_opl_roundtrip(int kind, const long* f, unsigned md, unsigned char* out1, unsigned* len1, unsigned char* out2, unsigned* len2, unsigned cap, char* text, unsigned textcap) {
    try {
        memory::Buffer in{1024};
        switch (kind) {
            case 0: {
                { builder::NodeBuilder b{in};
                  b.set_id(f[0]).set_version(static_cast<object_version_type>(f[1])).set_timestamp(Timestamp{static_cast<uint32_t>(f[2])}).set_changeset(static_cast<changeset_id_type>(f[3]))
                   .set_uid(static_cast<user_id_type>(f[4])).set_visible(f[5] != 0).set_location(Location{static_cast<int32_t>(f[6]), static_cast<int32_t>(f[7])});
                  b.set_user("usr");
                  { builder::TagListBuilder tl{b}; tl.add_tag("k", "v w"); tl.add_tag("name", "x=y"); } }
                break; }
            case 1: {
                { builder::WayBuilder b{in}; b.set_id(f[0]).set_version(static_cast<object_version_type>(f[1])).set_timestamp(Timestamp{uint32_t(1000000000)}).set_changeset(7).set_uid(8); b.set_user("u");
                  { builder::WayNodeListBuilder wn{b}; wn.add_node_ref(f[2]); wn.add_node_ref(f[3]); } }
                break; }
            case 4: {        // way written with locations on ways: which of the three references have a location is given by the bits of f[5]
                { builder::WayBuilder b{in}; b.set_id(f[0]).set_version(static_cast<object_version_type>(f[1])).set_timestamp(Timestamp{uint32_t(1000000000)}).set_changeset(7).set_uid(8); b.set_user("u");
                  { builder::WayNodeListBuilder wn{b};
                    wn.add_node_ref(NodeRef{f[2], (f[5] & 1) ? Location{15000000, -25000000} : Location{}}); wn.add_node_ref(NodeRef{f[3], (f[5] & 2) ? Location{1, 2} : Location{}});
                    wn.add_node_ref(NodeRef{f[4], (f[5] & 4) ? Location{-1800000000, 900000000} : Location{}}); } }
                break; }
            case 2: {
                { builder::RelationBuilder b{in}; b.set_id(f[0]).set_version(static_cast<object_version_type>(f[1])).set_timestamp(Timestamp{uint32_t(1000000000)}).set_changeset(7).set_uid(8); b.set_user("u");
                  { builder::RelationMemberListBuilder ml{b}; ml.add_member(item_type::node, f[2], "role a"); ml.add_member(item_type::relation, f[3], ""); } }
                break; }
            default: {
                { builder::ChangesetBuilder b{in}; b.set_id(static_cast<changeset_id_type>(f[0])).set_created_at(Timestamp{static_cast<uint32_t>(f[1])}).set_closed_at(Timestamp{static_cast<uint32_t>(f[2])})
                   .set_uid(static_cast<user_id_type>(f[3])).set_num_changes(static_cast<num_changes_type>(f[4]));
                  b.set_bounds(Box{Location{static_cast<int32_t>(f[5]), static_cast<int32_t>(f[6])}, Location{static_cast<int32_t>(f[7]), static_cast<int32_t>(f[6])}});
                  b.set_user("usr"); }
                break; }
        }
        in.commit();
        { Dump d{out1, cap}; d.buffer(in); *len1 = d.len; if (d.overflow) return 9; }
        opl_output_options options;
        options.add_metadata = osmium::metadata_options{};
        options.add_metadata.set_version(md & 1U); options.add_metadata.set_timestamp(md & 2U); options.add_metadata.set_changeset(md & 4U);
        options.add_metadata.set_uid(md & 8U); options.add_metadata.set_user(md & 16U);
        options.locations_on_ways = (kind == 4);
        std::string line = OPLOutputBlock{std::move(in), options}();
        if (line.empty() || line.back() != '\n') return 4;
        line.pop_back();
        if (line.size() + 1 > textcap) return 9;
        std::memcpy(text, line.c_str(), line.size() + 1);
        memory::Buffer back{1024};
        opl_parse_line(0, line.c_str(), back);
        Dump d{out2, cap}; d.buffer(back); *len2 = d.len;
        return d.overflow ? 9 : 0;
    } catch (const osmium::opl_error&) { return 1; } catch (const std::exception&) { return 2; }
}

// ---------------------------------------------------------------- XML writer half: one object through XMLOutputBlock (change files: <create> / <modify> / <delete> sections)
#include <osmium/io/detail/xml_output_format.hpp>
ENTRY int verif_xml_write_object(int kind, long id, unsigned version, int visible, int change_ops, char* text, unsigned textcap, unsigned* textlen) {
    try {
        memory::Buffer in{1024};
        if (kind == 0) { { builder::NodeBuilder b{in}; b.set_id(id).set_version(version).set_visible(visible != 0).set_location(Location{10000000, 20000000}); b.set_user("u"); } }
        else if (kind == 1) { { builder::WayBuilder b{in}; b.set_id(id).set_version(version).set_visible(visible != 0); b.set_user("u"); { builder::WayNodeListBuilder wn{b}; wn.add_node_ref(5); } } }
        else { { builder::RelationBuilder b{in}; b.set_id(id).set_version(version).set_visible(visible != 0); b.set_user("u"); { builder::RelationMemberListBuilder ml{b}; ml.add_member(item_type::way, 6, "r"); } } }
        in.commit();
        xml_output_options options;
        options.add_metadata = osmium::metadata_options{};
        options.add_metadata.set_version(true);
        options.use_change_ops = change_ops != 0;
        options.add_visible_flag = !change_ops;
        const std::string out = XMLOutputBlock{std::move(in), options}();
        if (out.size() + 1 > textcap) return 9;
        std::memcpy(text, out.c_str(), out.size() + 1); *textlen = static_cast<unsigned>(out.size());
        return 0;
    } catch (const std::exception&) { return 2; }
}
