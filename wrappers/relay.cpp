// C07: sequential relay laws of the reader pipeline stages (each driven in this thread on a partially constructed object; the queue
// and promise operations at the stage boundary are replaced by recorders installed as overrides by symbol)
#include <osmium/io/detail/read_thread.hpp>
#include <osmium/io/detail/input_format.hpp>
#include <osmium/io/detail/queue_util.hpp>
#include <osmium/io/detail/write_thread.hpp>
#include <osmium/io/writer.hpp>
#include <osmium/builder/osm_object_builder.hpp>
#include <osmium/io/compression.hpp>
#include <new>
#include <cstring>
#define ENTRY extern "C" __attribute__((noinline))
using namespace osmium::io::detail;

static unsigned char* g_rec; static unsigned g_n, g_cap;
static void rec(unsigned char c) { if (g_n < g_cap) g_rec[g_n] = c; ++g_n; }

extern "C" {
// recorders standing in for add_to_queue<std::string>(queue, std::string&&), add_to_queue<std::string>(queue, std::exception_ptr&&),
// add_to_queue<Buffer>(queue, Buffer&&), add_to_queue<Buffer>(queue, std::exception_ptr&&)
__attribute__((noinline)) void verif_rec_string(void*, std::string* s) { rec(s->empty() ? 'E' : 'D'); }
__attribute__((noinline)) void verif_rec_buffer(void*, osmium::memory::Buffer* b) { rec(*b ? 'D' : 'E'); }
__attribute__((noinline)) void verif_rec_exception(void*, void*) { rec('X'); }
// recorders for std::promise<Header>::set_value / set_exception
__attribute__((noinline)) void verif_rec_header_value(void*, const void*) { rec('H'); }
__attribute__((noinline)) void verif_rec_header_exception(void*, void*) { rec('h'); }
}

// ---- mock decompressor: the j-th read() (0-based) throws if j == throw_at, returns "" (end of data) if j == end_at, data otherwise
struct MockDecompressor final : osmium::io::Decompressor {
    unsigned calls = 0, throw_at, end_at; bool close_throws; unsigned closes = 0;
    std::atomic<bool>* done = nullptr; unsigned stop_at = ~0U;
    MockDecompressor(unsigned t, unsigned e, bool c) : throw_at(t), end_at(e), close_throws(c) {}
    std::string read() override {
        const unsigned j = calls++;
        rec('r');
        if (j == stop_at && done) *done = true;          // the consumer calls stop() while this read is in progress
        if (j == throw_at) throw std::runtime_error{"read failed"};
        if (j >= end_at) return std::string{};
        return std::string{"data"};
    }
    void close() override { ++closes; rec('c'); if (close_throws) throw std::runtime_error{"close failed"}; }
};

// rc: number of recorded events
ENTRY unsigned verif_read_thread(unsigned throw_at, unsigned end_at, int close_throws, unsigned stop_at, int done_at_start, unsigned char* out, unsigned cap) {
    g_rec = out; g_n = 0; g_cap = cap;
    MockDecompressor mock{throw_at, end_at, close_throws != 0};
    struct Raw { alignas(ReadThreadManager) unsigned char mem[sizeof(ReadThreadManager)]; } raw; std::memset(raw.mem, 0, sizeof(raw.mem));
    auto* m = reinterpret_cast<ReadThreadManager*>(raw.mem);
    static unsigned char dummy_queue[512];
    *reinterpret_cast<osmium::io::Decompressor**>(&raw.mem[0]) = &mock;               // m_decompressor (reference member, first in the object)
    *reinterpret_cast<void**>(&raw.mem[sizeof(void*)]) = dummy_queue;                     // m_queue (reference member): only handed to the recorders
    new (&m->m_done) std::atomic<bool>{done_at_start != 0};
    mock.done = &m->m_done; mock.stop_at = stop_at;
    m->run_in_thread();
    return g_n;
}

// ---- mock parser: run() sets the header (or not) and throws (or not)
struct MockParser final : Parser {
    int set_header_first, throw_in_run, buffers;
    using Parser::Parser;
    void run() override {
        if (set_header_first) set_header_value(osmium::io::Header{});
        for (int i = 0; i < buffers; ++i) { osmium::memory::Buffer b{64}; send_to_output_queue(std::move(b)); }
        if (throw_in_run) throw std::runtime_error{"parser failed"};
        set_header_value(osmium::io::Header{});
    }
};

template <typename T> struct Dummy { alignas(T) unsigned char mem[sizeof(T)]; T& ref() { return *reinterpret_cast<T*>(mem); } };

static int g_parser_inq_shut = -1;
ENTRY int verif_parser_input_queue_shut_down() { return g_parser_inq_shut; }
ENTRY unsigned verif_parser_parse(int set_header_first, int throw_in_run, int buffers, unsigned char* out, unsigned cap) {
    g_rec = out; g_n = 0; g_cap = cap;
    // the collaborators are never used for real: their operations at the stage boundary are overridden by the recorders above
    static Dummy<osmium::thread::Pool> pool; static Dummy<future_buffer_queue_type> outq;
    future_string_queue_type inq_real{4, "raw_input"};             // the real input queue: the parser's end must shut it down (its producer, the read thread, may be blocked on it)
    struct { future_string_queue_type& q; future_string_queue_type& ref() { return q; } } inq{inq_real};
    static Dummy<std::promise<osmium::io::Header>> promise; static unsigned char state[256];
    std::memset(promise.mem, 0, sizeof(promise.mem));
    *reinterpret_cast<void**>(promise.mem) = state;          // a promise that "has a shared state" (non-null _M_future)
    parser_arguments args{pool.ref(), -1, inq.ref(), outq.ref(), promise.ref(), nullptr, osmium::osm_entity_bits::all, osmium::io::read_meta::yes, osmium::io::buffers_type::any, false};
    static Dummy<MockParser> storage;
    MockParser* p = new (storage.mem) MockParser{args};
    p->set_header_first = set_header_first; p->throw_in_run = throw_in_run; p->buffers = buffers;
    p->parse();
    p->~MockParser();                                               // what the parser thread does when parse() has returned
    g_parser_inq_shut = inq_real.in_use() ? 0 : 1;
    return g_n;
}

// ---------------------------------------------------------------- C08: the write stage (WriteThread::operator()) in this thread
// the input queue's pop() is a script: call j returns data, or "" (end of data) if j >= end_at, or throws if j == pop_throw_at (an encoder failure
// relayed through the queue); the compressor is a mock whose write number write_throw_at / whose close() may throw.
// recorded events: p pop, w write, c close, V promise value set, x promise exception set; tail: notification flag, queue shut down
static unsigned g_wpops, g_pop_throw_at, g_wend_at;
extern "C" {
__attribute__((noinline)) void verif_model_pop_string(std::string* ret, void*) {
    const unsigned j = g_wpops++;
    rec('p');
    if (j == g_pop_throw_at) throw std::runtime_error{"encoder failed"};
    new (ret) std::string{j >= g_wend_at ? "" : "data"};
}
__attribute__((noinline)) void verif_rec_size_value(void*, const void*) { rec('V'); }
__attribute__((noinline)) void verif_rec_size_exception(void*, void*) { rec('x'); }
}
struct MockCompressor final : osmium::io::Compressor {
    unsigned writes = 0, throw_at; bool close_throws;
    MockCompressor(unsigned t, bool c) : osmium::io::Compressor(osmium::io::fsync::no), throw_at(t), close_throws(c) {}
    void write(const std::string& data) override { const unsigned j = writes++; rec(data.size() == 4 ? 'w' : '?'); if (j == throw_at) throw std::runtime_error{"write failed"}; }
    void close() override { rec('c'); if (close_throws) throw std::runtime_error{"close failed"}; }
    std::size_t file_size() const override { return 4UL * writes; }
};
ENTRY unsigned verif_write_thread(unsigned pop_throw_at, unsigned end_at, unsigned write_throw_at, int close_throws, unsigned char* out, unsigned cap, int* tail) {
    g_rec = out; g_n = 0; g_cap = cap; g_wpops = 0; g_pop_throw_at = pop_throw_at; g_wend_at = end_at;
    future_string_queue_type queue{4, "out"};
    std::atomic_bool notification{false};
    {
        // partially constructed stage: the promise is never touched (set_value / set_exception are recorders), everything else is real
        struct Raw { alignas(WriteThread) unsigned char mem[sizeof(WriteThread)]; } raw; std::memset(raw.mem, 0, sizeof(raw.mem));
        auto* wt = reinterpret_cast<WriteThread*>(raw.mem);
        new (&wt->m_queue) queue_wrapper<std::string>{queue};
        new (&wt->m_compressor) std::unique_ptr<osmium::io::Compressor>{new MockCompressor{write_throw_at, close_throws != 0}};
        wt->m_notification = &notification;
        (*wt)();
        wt->m_compressor.reset();
    }
    tail[0] = notification ? 1 : 0; tail[1] = queue.in_use() ? 0 : 1;
    return g_n;
}

// ---------------------------------------------------------------- C08: the producer side of the writer (Writer) as a state machine
// partially constructed Writer with a mock output format: 'H' write_header, 'b' + number of nodes for every write_buffer (the call number throw_at
// throws), 'w' write_end; the output queue operations are the recorders above ('X' exception, 'E' end-of-data marker, 'D' data).
// ops: 0 operator()(item), 1 flush(), 2 operator()(Buffer&&) with one node, 3 set_buffer_size(alt), 4 close().  Nodes get the ids 1, 2, 3, ...
// res[k]: 0 normal return, 1 io_error, 2 other exception.  ids seen by write_buffer are appended to seen[]
static unsigned g_wb_calls, g_wb_throw_at; static long* g_seen; static unsigned g_nseen, g_seencap;
struct MockOutput final : OutputFormat {
    using OutputFormat::OutputFormat;
    void write_header(const osmium::io::Header&) override { rec('H'); }
    void write_buffer(osmium::memory::Buffer&& buffer) override {
        unsigned n = 0;
        for (const auto& node : buffer.select<osmium::Node>()) { if (g_nseen < g_seencap) g_seen[g_nseen] = node.id(); ++g_nseen; ++n; }
        rec('b'); rec(static_cast<unsigned char>('0' + n));
        if (g_wb_calls++ == g_wb_throw_at) throw std::runtime_error{"encoder failed"};
    }
    void write_end() override { rec('w'); }
};
ENTRY unsigned verif_writer_states(const unsigned char* ops, unsigned nops, unsigned buffer_size, unsigned alt_size, unsigned throw_at, int* res, long* seen, unsigned seencap, unsigned* nseen,
                                   unsigned char* out, unsigned cap, int* status) {
    g_rec = out; g_n = 0; g_cap = cap; g_wb_calls = 0; g_wb_throw_at = throw_at; g_seen = seen; g_nseen = 0; g_seencap = seencap;
    struct Raw { alignas(osmium::io::Writer) unsigned char mem[sizeof(osmium::io::Writer)]; } raw; std::memset(raw.mem, 0, sizeof(raw.mem));
    auto* w = reinterpret_cast<osmium::io::Writer*>(raw.mem);
    static unsigned char dummy_pool[64];
    new (&w->m_output) std::unique_ptr<OutputFormat>{new MockOutput{*reinterpret_cast<osmium::thread::Pool*>(dummy_pool), w->m_output_queue}};
    new (&w->m_buffer) osmium::memory::Buffer{};
    new (&w->m_header) osmium::io::Header{};
    w->m_buffer_size = buffer_size;
    w->m_status = osmium::io::Writer::status::okay;
    long id = 0;
    for (unsigned k = 0; k < nops; ++k) {
        try {
            switch (ops[k]) {
                case 0: {
                    osmium::memory::Buffer tmp{128, osmium::memory::Buffer::auto_grow::no};
                    { osmium::builder::NodeBuilder nb{tmp}; nb.set_id(++id); nb.set_user(""); }
                    tmp.commit();
                    (*w)(tmp.get<osmium::Node>(0)); break; }
                case 1: w->flush(); break;
                case 2: {
                    osmium::memory::Buffer tmp{128, osmium::memory::Buffer::auto_grow::no};
                    { osmium::builder::NodeBuilder nb{tmp}; nb.set_id(++id); nb.set_user(""); }
                    tmp.commit();
                    (*w)(std::move(tmp)); break; }
                case 3: w->set_buffer_size(alt_size); break;
                default: (void)w->close(); break;
            }
            res[k] = 0;
        } catch (const osmium::io_error&) { res[k] = 1; } catch (...) { res[k] = 2; }
    }
    *status = static_cast<int>(w->m_status); *nseen = g_nseen;
    w->m_output.reset(); w->m_buffer = osmium::memory::Buffer{}; w->m_header.~Header();
    return g_n;
}
