// C20: handler dispatch (apply / apply_item / wrapper_handler / DynamicHandler / ChainHandler) and diff iteration
#include <osmium/visitor.hpp>
#include <osmium/handler.hpp>
#include <osmium/dynamic_handler.hpp>
#include <osmium/diff_iterator.hpp>
#include <osmium/io/input_iterator.hpp>
#include <osmium/diff_visitor.hpp>
#include <osmium/diff_handler.hpp>
#include <osmium/memory/buffer.hpp>
#include <osmium/osm.hpp>
#include <cstring>
#define ENTRY extern "C" __attribute__((noinline))
using namespace osmium;

static unsigned* g_log; static unsigned g_n, g_cap; static const unsigned char* g_base;
static void logcb(unsigned handler, unsigned cb, const void* item) {
    if (g_n < g_cap) g_log[g_n] = (handler << 16) | (cb << 8) | (item ? static_cast<unsigned>((static_cast<const unsigned char*>(item) - g_base) / 64) : 0xff);
    ++g_n;
}

enum { CB_OBJECT = 1, CB_NODE, CB_WAY, CB_RELATION, CB_AREA, CB_CHANGESET, CB_TAGLIST, CB_WNL, CB_RML, CB_OUTER, CB_INNER, CB_DISC, CB_FLUSH };

template <unsigned N>
struct LogHandler : handler::Handler {
    void osm_object(const OSMObject& o) const { logcb(N, CB_OBJECT, &o); }
    void node(const Node& o) const { logcb(N, CB_NODE, &o); }
    void way(const Way& o) const { logcb(N, CB_WAY, &o); }
    void relation(const Relation& o) const { logcb(N, CB_RELATION, &o); }
    void area(const Area& o) const { logcb(N, CB_AREA, &o); }
    void changeset(const Changeset& o) const { logcb(N, CB_CHANGESET, &o); }
    void tag_list(const TagList& o) const { logcb(N, CB_TAGLIST, &o); }
    void way_node_list(const WayNodeList& o) const { logcb(N, CB_WNL, &o); }
    void relation_member_list(const RelationMemberList& o) const { logcb(N, CB_RML, &o); }
    void outer_ring(const OuterRing& o) const { logcb(N, CB_OUTER, &o); }
    void inner_ring(const InnerRing& o) const { logcb(N, CB_INNER, &o); }
    void changeset_discussion(const ChangesetDiscussion& o) const { logcb(N, CB_DISC, &o); }
    void flush() const { logcb(N, CB_FLUSH, nullptr); }
};

// handler with const and non-const overloads: the non-const ones log the callback code + 0x20
template <unsigned N>
struct BothHandler : handler::Handler {
    void osm_object(const OSMObject& o) const { logcb(N, CB_OBJECT, &o); }
    void node(const Node& o) const { logcb(N, CB_NODE, &o); }              void node(Node& o) const { logcb(N, CB_NODE + 0x20, &o); }
    void way(const Way& o) const { logcb(N, CB_WAY, &o); }                void way(Way& o) const { logcb(N, CB_WAY + 0x20, &o); }
    void relation(const Relation& o) const { logcb(N, CB_RELATION, &o); } void relation(Relation& o) const { logcb(N, CB_RELATION + 0x20, &o); }
    void area(const Area& o) const { logcb(N, CB_AREA, &o); }             void area(Area& o) const { logcb(N, CB_AREA + 0x20, &o); }
    void changeset(const Changeset& o) const { logcb(N, CB_CHANGESET, &o); } void changeset(Changeset& o) const { logcb(N, CB_CHANGESET + 0x20, &o); }
    void flush() const { logcb(N, CB_FLUSH, nullptr); }
};

// n raw items of 64 bytes each with the given type codes / removed flags
static void fill(memory::Buffer& b, const unsigned short* types, const unsigned char* removed, unsigned n) {
    for (unsigned i = 0; i < n; ++i) {
        unsigned char* p = b.reserve_space(64);
        std::memset(p, 0, 64);
        auto* item = reinterpret_cast<memory::Item*>(p);
        item->m_size = 64; item->m_type = static_cast<item_type>(types[i]); item->m_removed = removed[i] & 1U;
        b.commit();
    }
    g_base = b.data();
}

ENTRY unsigned verif_apply(int variant, const unsigned short* types, const unsigned char* removed, unsigned n, unsigned* log, unsigned cap) {
    g_log = log; g_n = 0; g_cap = cap;
    memory::Buffer buffer{1024, memory::Buffer::auto_grow::no};
    fill(buffer, types, removed, n);
    const memory::Buffer& cbuffer = buffer;
    LogHandler<1> h1; LogHandler<2> h2; LogHandler<3> h3;
    try {
        switch (variant) {
            case 0: apply(cbuffer, h1); break;
            case 1: apply(buffer, h1, h2); break;
            case 2: apply(cbuffer.begin<memory::Item>(), cbuffer.end<memory::Item>(), h1); break;
            case 3: apply(buffer.begin<memory::Item>(), buffer.end<memory::Item>(), h1, h2, h3); break;
            case 4: apply(cbuffer,
                          [](const Node& o) { logcb(1, CB_NODE, &o); },
                          [](const Way& o) { logcb(2, CB_WAY, &o); },
                          [](const OSMObject& o) { logcb(3, CB_OBJECT, &o); });
                    break;
            case 5: { handler::DynamicHandler dh; dh.set<LogHandler<1>>(); apply(cbuffer, dh, h2); } break;
            case 6: apply(cbuffer.begin<OSMObject>(), cbuffer.end<OSMObject>(), h1); break;
            case 8: apply(buffer,
                          [](Relation& o) { logcb(1, CB_RELATION, &o); },
                          [](const Changeset& o) { logcb(2, CB_CHANGESET, &o); });
                    break;
            case 9: for (auto& item : buffer) apply_item(item, h1, h2); break;
            case 10: { BothHandler<1> b; apply(buffer, b); } break;
            case 11: { BothHandler<1> b; apply(cbuffer, b); } break;
            case 12: apply(buffer, [](Changeset& o) { logcb(1, CB_CHANGESET + 0x20, &o); }, [](Node& o) { logcb(2, CB_NODE + 0x20, &o); }); break;
            default: return 0xfffffffe;
        }
    } catch (const osmium::unknown_type&) { logcb(0, 0xee, nullptr); }
    return g_n;
}

// ---------------------------------------------------------------- diff iteration
// n object headers (type, id, version); log per visited position: index of prev, curr, next, first, last
ENTRY unsigned verif_diff(const unsigned short* types, const long* ids, const unsigned* versions, unsigned n, unsigned* log, unsigned cap) {
    memory::Buffer buffer{1024, memory::Buffer::auto_grow::no};
    for (unsigned i = 0; i < n; ++i) {
        unsigned char* p = buffer.reserve_space(64);
        std::memset(p, 0, 64);
        auto* o = reinterpret_cast<OSMObject*>(p);
        o->m_size = 64; o->m_type = static_cast<item_type>(types[i]);
        o->set_id(ids[i]); o->set_version(versions[i]);
        buffer.commit();
    }
    const unsigned char* base = buffer.data();
    auto idx = [&](const OSMObject& o) { return static_cast<unsigned>((reinterpret_cast<const unsigned char*>(&o) - base) / 64); };
    unsigned k = 0;
    auto it = make_diff_iterator(buffer.cbegin<OSMObject>(), buffer.cend<OSMObject>());
    auto end = make_diff_iterator(buffer.cend<OSMObject>(), buffer.cend<OSMObject>());
    for (; it != end; ++it) {
        const DiffObject& d = *it;
        if (k < cap) log[k] = (idx(d.prev()) << 24) | (idx(d.curr()) << 16) | (idx(d.next()) << 8) | (d.first() ? 2U : 0U) | (d.last() ? 1U : 0U);
        ++k;
    }
    return k;
}

// diff iteration over an input iterator whose source hands out the objects in several buffers (nbuf buffers with cnt[b] objects each);
// a buffer dies when the last iterator copy pointing into it moves on; objects are identified by their version (= position + 1)
namespace {
struct BufferSource {
    memory::Buffer* bufs; unsigned n; unsigned pos = 0;
    memory::Buffer read() { if (pos < n) return std::move(bufs[pos++]); return memory::Buffer{}; }
};
}
ENTRY unsigned verif_diff_input(const unsigned short* types, const long* ids, unsigned n, const unsigned* cnt, unsigned nbuf, unsigned* log, unsigned cap) {
    memory::Buffer bufs[4];
    unsigned i = 0;
    for (unsigned b = 0; b < nbuf && b < 4; ++b) {
        bufs[b] = memory::Buffer{64UL * (cnt[b] ? cnt[b] : 1), memory::Buffer::auto_grow::no};
        for (unsigned j = 0; j < cnt[b] && i < n; ++j, ++i) {
            unsigned char* p = bufs[b].reserve_space(64);
            std::memset(p, 0, 64);
            auto* o = reinterpret_cast<OSMObject*>(p);
            o->m_size = 64; o->m_type = static_cast<item_type>(types[i]);
            o->set_id(ids[i]); o->set_version(i + 1);
            bufs[b].commit();
        }
    }
    BufferSource src{bufs, nbuf < 4 ? nbuf : 4};
    using in_it = osmium::io::InputIterator<BufferSource, OSMObject>;
    unsigned k = 0;
    auto it = make_diff_iterator(in_it{src}, in_it{});
    auto end = make_diff_iterator(in_it{}, in_it{});
    for (; it != end; ++it) {
        const DiffObject& d = *it;
        if (k < cap) log[k] = ((d.prev().version() - 1) << 24) | ((d.curr().version() - 1) << 16) | ((d.next().version() - 1) << 8) | (d.first() ? 2U : 0U) | (d.last() ? 1U : 0U);
        ++k;
    }
    return k;
}
