// Flat dump of the entities in a buffer through the library's own accessors and iterators (used as the observation
// function by several properties; also exercises complete traversal of every delivered object).
#pragma once
#include <osmium/memory/buffer.hpp>
#include <osmium/osm.hpp>
#include <cstdint>
#include <cstring>

struct Dump {
    unsigned char* out; unsigned cap; unsigned len = 0; bool overflow = false;
    void bytes(const void* p, std::size_t n) {
        if (len + n > cap) { overflow = true; n = cap - len; }
        std::memcpy(out + len, p, n); len += static_cast<unsigned>(n);
    }
    void u64(std::uint64_t v) { bytes(&v, 8); }
    void str(const char* s) { const std::size_t n = std::strlen(s); u64(n); bytes(s, n); }
    void tags(const osmium::TagList& tl) {
        std::uint64_t n = 0; for (const auto& t : tl) { (void)t; ++n; }
        u64(n);
        for (const auto& t : tl) { str(t.key()); str(t.value()); }
    }
    void object(const osmium::OSMObject& o) {
        u64(static_cast<std::uint64_t>(o.type())); u64(static_cast<std::uint64_t>(o.id())); u64(o.version()); u64(o.visible() ? 1 : 0);
        u64(static_cast<std::uint32_t>(o.timestamp())); u64(o.changeset()); u64(o.uid()); str(o.user());
    }
    void entity(const osmium::memory::Item& item) {
        switch (item.type()) {
            case osmium::item_type::node: {
                const auto& n = static_cast<const osmium::Node&>(item);
                object(n); u64(static_cast<std::uint32_t>(n.location().x())); u64(static_cast<std::uint32_t>(n.location().y())); tags(n.tags());
                break; }
            case osmium::item_type::way: {
                const auto& w = static_cast<const osmium::Way&>(item);
                object(w); u64(w.nodes().size());
                for (const auto& nr : w.nodes()) { u64(static_cast<std::uint64_t>(nr.ref())); u64(static_cast<std::uint32_t>(nr.location().x())); u64(static_cast<std::uint32_t>(nr.location().y())); }
                tags(w.tags());
                break; }
            case osmium::item_type::relation: {
                const auto& r = static_cast<const osmium::Relation&>(item);
                object(r);
                std::uint64_t n = 0; for (const auto& m : r.members()) { (void)m; ++n; }
                u64(n);
                for (const auto& m : r.members()) { u64(static_cast<std::uint64_t>(m.type())); u64(static_cast<std::uint64_t>(m.ref())); str(m.role()); }
                tags(r.tags());
                break; }
            case osmium::item_type::changeset: {
                const auto& c = static_cast<const osmium::Changeset&>(item);
                u64(static_cast<std::uint64_t>(c.type())); u64(c.id()); u64(static_cast<std::uint32_t>(c.created_at())); u64(static_cast<std::uint32_t>(c.closed_at()));
                u64(c.uid()); str(c.user()); u64(c.num_changes()); u64(c.num_comments());
                u64(static_cast<std::uint32_t>(c.bounds().bottom_left().x())); u64(static_cast<std::uint32_t>(c.bounds().top_right().y()));
                tags(c.tags());
                std::uint64_t n = 0; for (const auto& cm : c.discussion()) { (void)cm; ++n; }
                u64(n);
                for (const auto& cm : c.discussion()) { u64(static_cast<std::uint32_t>(cm.date())); u64(cm.uid()); str(cm.user()); str(cm.text()); }
                break; }
            default:
                u64(0xdeadULL); u64(static_cast<std::uint64_t>(item.type()));
        }
    }
    void buffer(const osmium::memory::Buffer& b) {
        for (const auto& item : b) entity(item);
    }
    // traversal of a copy of the committed bytes that lives in a heap block of exactly that size: a traversal that leaves the
    // delivered data (instead of just reading slack space of a large internal buffer) becomes an out-of-bounds access
    void buffer_exact(const osmium::memory::Buffer& b) {
        const std::size_t n = b.committed();
        if (n == 0) return;
        unsigned char* copy = new unsigned char[n];
        std::memcpy(copy, b.data(), n);
        { osmium::memory::Buffer view{copy, n, n}; buffer(view); }
        delete[] copy;
    }
};
