// C05: Reader::read() (nested buffers, empty buffers, end-of-data marker, status) on a partially constructed Reader whose
// output queue is replaced by a script of buffers produced by the real builders in auto_grow::internal buffers
#include <osmium/io/reader.hpp>
#include <osmium/builder/osm_object_builder.hpp>
#include <new>
#include <cstring>
#define ENTRY extern "C" __attribute__((noinline))
using namespace osmium;
using memory::Buffer;

static Buffer* g_script; static unsigned g_ns, g_si;
extern "C" {
// model of queue_wrapper<Buffer>::pop(): the next scripted buffer, then the invalid buffer that marks the end of the data
__attribute__((noinline)) void verif_model_pop_buffer(Buffer* ret, void*) {
    new (ret) Buffer{};
    if (g_si < g_ns) *ret = std::move(g_script[g_si++]);
}
__attribute__((noinline)) void verif_model_noop(void*) {}
}

// nbuf scripted buffers; buffer k holds counts[k] nodes (ids continue from one buffer to the next) built into an internally growing
// buffer of `cap` bytes, so that it arrives with nested buffers.  out: ids in the order read() delivers them; -1 marks the end-of-data
// buffer; -2 an io_error from read(); the loop makes `extra` further read() calls after the end
ENTRY unsigned verif_reader_read(unsigned nbuf, const unsigned* counts, unsigned cap, unsigned ulen, unsigned extra, long* out, unsigned outcap) {
    static const char user[] = "abcdefghijklmnopqrstuvwxyzabcdefghijklmnopqrstuvwxyz";
    Buffer script[4]; long id = 0;
    for (unsigned k = 0; k < nbuf && k < 4; ++k) {
        script[k] = Buffer{cap, Buffer::auto_grow::internal};
        for (unsigned i = 0; i < counts[k]; ++i) {
            { builder::NodeBuilder nb{script[k]}; nb.set_id(++id); nb.set_user(user, static_cast<string_size_type>(ulen + (i % 3))); }
            script[k].commit();
        }
    }
    g_script = script; g_ns = nbuf; g_si = 0;
    struct Raw { alignas(io::Reader) unsigned char mem[sizeof(io::Reader)]; } raw; std::memset(raw.mem, 0, sizeof(raw.mem));
    auto* r = reinterpret_cast<io::Reader*>(raw.mem);
    new (&r->m_back_buffers) Buffer{};
    r->m_status = io::Reader::status::okay;
    r->m_read_which_entities = osm_entity_bits::all;
    unsigned n = 0; unsigned after = 0;
    for (unsigned guard = 0; guard < 64; ++guard) {
        try {
            Buffer b = r->read();
            if (!b) { if (n < outcap) out[n] = -1; ++n; if (after++ >= extra) break; continue; }
            for (const auto& node : b.select<Node>()) { if (n < outcap) out[n] = node.id(); ++n; }
        } catch (const osmium::io_error&) { if (n < outcap) out[n] = -2; ++n; if (after++ >= extra) break; }
    }
    return n;
}
