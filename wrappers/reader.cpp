// C05: Reader::read() (nested buffers, empty buffers, end-of-data marker, status) on a partially constructed Reader whose
// output queue is replaced by a script of buffers produced by the real builders in auto_grow::internal buffers
#include <osmium/io/reader.hpp>
#include <osmium/builder/osm_object_builder.hpp>
#include <new>
#include <cstring>
#define ENTRY extern "C" __attribute__((noinline))
using namespace osmium;
using memory::Buffer;

static Buffer* g_script; static unsigned g_ns, g_si;
extern "C" {
// model of queue_wrapper<Buffer>::pop(): the next scripted buffer, then the invalid buffer that marks the end of the data
__attribute__((noinline)) void verif_model_pop_buffer(Buffer* ret, void*) {
    new (ret) Buffer{};
    if (g_si < g_ns) *ret = std::move(g_script[g_si++]);
}
__attribute__((noinline)) void verif_model_noop(void*) {}
}

// nbuf scripted buffers; buffer k holds counts[k] nodes (ids continue from one buffer to the next) built into an internally growing
// buffer of `cap` bytes, so that it arrives with nested buffers.  out: ids in the order read() delivers them; -1 marks the end-of-data
// buffer; -2 an io_error from read(); the loop makes `extra` further read() calls after the end
ENTRY unsigned verif_reader_read(unsigned nbuf, const unsigned* counts, unsigned cap, unsigned ulen, unsigned extra, long* out, unsigned outcap) {
    static const char user[] = "abcdefghijklmnopqrstuvwxyzabcdefghijklmnopqrstuvwxyz";
    Buffer script[4]; long id = 0;
    for (unsigned k = 0; k < nbuf && k < 4; ++k) {
        script[k] = Buffer{cap, Buffer::auto_grow::internal};
        for (unsigned i = 0; i < counts[k]; ++i) {
            { builder::NodeBuilder nb{script[k]}; nb.set_id(++id); nb.set_user(user, static_cast<string_size_type>(ulen + (i % 3))); }
            script[k].commit();
        }
    }
    g_script = script; g_ns = nbuf; g_si = 0;
    struct Raw { alignas(io::Reader) unsigned char mem[sizeof(io::Reader)]; } raw; std::memset(raw.mem, 0, sizeof(raw.mem));
    auto* r = reinterpret_cast<io::Reader*>(raw.mem);
    new (&r->m_back_buffers) Buffer{};
    r->m_status = io::Reader::status::okay;
    r->m_read_which_entities = osm_entity_bits::all;
    unsigned n = 0; unsigned after = 0;
    for (unsigned guard = 0; guard < 64; ++guard) {
        try {
            Buffer b = r->read();
            if (!b) { if (n < outcap) out[n] = -1; ++n; if (after++ >= extra) break; continue; }
            for (const auto& node : b.select<Node>()) { if (n < outcap) out[n] = node.id(); ++n; }
        } catch (const osmium::io_error&) { if (n < outcap) out[n] = -2; ++n; if (after++ >= extra) break; }
    }
    return n;
}

// ---------------------------------------------------------------- C07: the consumer side of the pipeline as a state machine
// Script: nbuf one-node buffers, then the end-of-data marker; the pop() call number throw_at (0-based) throws instead.
// ops[k]: 0 read(), 1 close(), 2 header().  log[k]: read -> node id / -1 end-of-data buffer / -2 io_error / -3 other exception;
// close -> 10 / -3; header -> 20 / -2 / -3.  tail: [number of pop() calls, m_done of the read thread manager, output queue shut down, status, joins, joins made while the thread may still be blocked, thread still joinable]
static unsigned g_throw_at, g_pops, g_joins, g_bad_joins; static io::Reader* g_reader;
extern "C" {
__attribute__((noinline)) void verif_model_pop_buffer_throwing(Buffer* ret, void*) {
    const unsigned call = g_pops++;
    if (call == g_throw_at) throw std::runtime_error{"injected failure of an upstream stage"};
    new (ret) Buffer{};
    if (g_si < g_ns) *ret = std::move(g_script[g_si++]);
}
}
extern "C" __attribute__((noinline)) void verif_model_thread_join(std::thread* t) {
    // model of std::thread::join() for the read thread: the thread can only end if it is not blocked for ever: when the reader is being
    // closed (status closed) it must already have been told to stop and the output queue must already have been shut down (a producer blocked
    // on a full queue does not look at the stop flag); at end of data (status eof) the thread has ended by itself
    ++g_joins;
    if (g_reader->m_status == io::Reader::status::closed && (g_reader->m_osmdata_queue.in_use() || !g_reader->m_read_thread_manager.m_done)) ++g_bad_joins;
    t->_M_id = std::thread::id{};
}
ENTRY void verif_reader_states(unsigned nbuf, unsigned throw_at, const unsigned char* ops, unsigned nops, int* log, int* tail) {
    Buffer script[4]; long id = 0;
    for (unsigned k = 0; k < nbuf && k < 4; ++k) {
        script[k] = Buffer{64, Buffer::auto_grow::no};
        { builder::NodeBuilder nb{script[k]}; nb.set_id(++id); nb.set_user(""); }
        script[k].commit();
    }
    g_script = script; g_ns = nbuf; g_si = 0; g_throw_at = throw_at; g_pops = 0; g_joins = 0; g_bad_joins = 0;
    struct Raw { alignas(io::Reader) unsigned char mem[sizeof(io::Reader)]; } raw; std::memset(raw.mem, 0, sizeof(raw.mem));
    auto* r = reinterpret_cast<io::Reader*>(raw.mem);
    new (&r->m_back_buffers) Buffer{};
    new (&r->m_header) io::Header{};
    new (&r->m_osmdata_queue) io::detail::future_buffer_queue_type{4, "parser_results"};      // the real queue: close() shuts it down
    new (&r->m_osmdata_queue_wrapper) io::detail::queue_wrapper<Buffer>{r->m_osmdata_queue};
    r->m_status = io::Reader::status::okay;
    r->m_read_which_entities = osm_entity_bits::all;
    r->m_read_thread_manager.m_thread._M_id._M_thread = 1;          // a read thread is running (joinable)
    g_reader = r;
    for (unsigned k = 0; k < nops; ++k) {
        try {
            switch (ops[k]) {
                case 0: {
                    Buffer b = r->read();
                    if (!b) { log[k] = -1; break; }
                    long got = 0; for (const auto& node : b.select<Node>()) got = node.id();
                    log[k] = static_cast<int>(got); break; }
                case 1: r->close(); log[k] = 10; break;
                default: { io::Header h = r->header(); (void)h; log[k] = 20; break; }
            }
        } catch (const osmium::io_error&) { log[k] = -2; } catch (...) { log[k] = -3; }
    }
    tail[0] = static_cast<int>(g_pops); tail[1] = r->m_read_thread_manager.m_done ? 1 : 0; tail[2] = r->m_osmdata_queue.in_use() ? 0 : 1; tail[3] = static_cast<int>(r->m_status); tail[4] = static_cast<int>(g_joins); tail[5] = static_cast<int>(g_bad_joins); tail[6] = r->m_read_thread_manager.m_thread.joinable() ? 1 : 0;
    r->m_header.~Header();
    r->m_osmdata_queue.~Queue();
}
