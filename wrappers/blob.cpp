// C02: PBF Blob message (raw / raw_size / unknown fields) and HeaderBlock (required / optional features, writing program) decoding
#include <osmium/io/detail/pbf_decoder.hpp>
#include <cstring>
#define ENTRY extern "C" __attribute__((noinline))
using namespace osmium::io::detail;

// abstract codec in place of libz (symbolic and native build alike): "compressed" byte = payload byte ^ 0x5a, same length;
// uncompress() follows the zlib contract: Z_BUF_ERROR if the destination is too small, otherwise *destLen = bytes produced
extern "C" int uncompress(Bytef* dest, uLongf* destLen, const Bytef* source, uLong sourceLen) {
    if (*destLen < sourceLen) return Z_BUF_ERROR;
    for (uLong i = 0; i < sourceLen; ++i) dest[i] = source[i] ^ 0x5a;
    *destLen = sourceLen; return Z_OK;
}
extern "C" const char* zError(int) { return "zlib error"; }

// rc 0: payload copied to out, *outlen = its length; 1 pbf_error; 2 protozero exception; 3 other
ENTRY int verif_decode_blob(const char* data, unsigned len, char* out, unsigned cap, unsigned* outlen) {
    try {
        const std::string blob(data, len); std::string output;
        const protozero::data_view v = decode_blob(blob, output);
        *outlen = static_cast<unsigned>(v.size());
        std::memcpy(out, v.data(), v.size() < cap ? v.size() : cap);
        return 0;
    } catch (const osmium::pbf_error&) { return 1; } catch (const protozero::exception&) { return 2; } catch (const std::exception&) { return 3; }
}

// rc 0: out = "key=value\n" for every header option in key order, then "H=0|1\n"; 1 pbf_error; 2 protozero exception; 3 other
ENTRY int verif_header_block(const char* data, unsigned len, char* out, unsigned cap, unsigned* outlen) {
    try {
        const osmium::io::Header h = decode_header_block(protozero::data_view{data, len});
        unsigned n = 0;
        auto put = [&](const char* p, std::size_t k) { for (std::size_t i = 0; i < k; ++i) { if (n < cap) out[n] = p[i]; ++n; } };
        for (const auto& kv : h) { put(kv.first.data(), kv.first.size()); put("=", 1); put(kv.second.data(), kv.second.size()); put("\n", 1); }
        put(h.has_multiple_object_versions() ? "H=1\n" : "H=0\n", 4);
        *outlen = n;
        return n > cap ? 9 : 0;
    } catch (const osmium::pbf_error&) { return 1; } catch (const protozero::exception&) { return 2; } catch (const std::exception&) { return 3; }
}
