// C03: leaf decoders on arbitrary bytes; everything that is delivered is traversed completely (dump.hpp)
#include <osmium/io/detail/opl_parser_functions.hpp>
#include <osmium/memory/buffer.hpp>
#include "dump.hpp"
#define ENTRY extern "C" __attribute__((noinline))
using namespace osmium;

// rc 0: line parsed (object or ignored), 1 opl_error, 2 other std::exception, 3 exception not derived from std::exception
ENTRY int verif_opl_line(const char* line, unsigned char* out, unsigned cap, unsigned* outlen) {
    memory::Buffer buffer{1024, memory::Buffer::auto_grow::yes};
    int rc = 0;
    try { io::detail::opl_parse_line(0, line, buffer); }
    catch (const osmium::opl_error&) { rc = 1; } catch (const std::exception&) { rc = 2; } catch (...) { rc = 3; }
    if (rc != 0) buffer.rollback();                  // what a reader does with a failed line: nothing of it is delivered
    Dump d{out, cap}; d.buffer_exact(buffer); *outlen = d.len;
    return rc;
}
