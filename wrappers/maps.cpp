// C12: id -> value index maps (in-memory implementations) and the node location handler
#include <osmium/index/map/dense_mem_array.hpp>
#include <osmium/index/map/sparse_mem_array.hpp>
#include <osmium/index/map/flex_mem.hpp>
#include <osmium/index/map/sparse_mem_map.hpp>
#include <osmium/index/map/dense_mmap_array.hpp>
#include <osmium/index/map/sparse_mmap_array.hpp>
#include <osmium/handler/node_locations_for_ways.hpp>
#include <osmium/builder/osm_object_builder.hpp>
#include <osmium/memory/buffer.hpp>
#include <cstring>
#include <memory>
#define ENTRY extern "C" __attribute__((noinline))
using namespace osmium;
using Id = unsigned_object_id_type;
using MapT = index::map::Map<Id, Location>;

// byte recorder standing in for write(2) (always succeeds completely): used by dump_as_list / dump_as_array
static unsigned char* g_out; static unsigned long g_outcap, g_outlen;
extern "C" ssize_t write(int, const void* buf, size_t count) {
    size_t n = count; if (g_outlen + n > g_outcap) n = g_outcap - g_outlen;
    std::memcpy(g_out + g_outlen, buf, n); g_outlen += n;
    return static_cast<ssize_t>(count);
}

static std::unique_ptr<MapT> make(int kind) {
    switch (kind) {
        case 0: return std::unique_ptr<MapT>{new index::map::DenseMemArray<Id, Location>};
        case 1: return std::unique_ptr<MapT>{new index::map::SparseMemArray<Id, Location>};
        case 2: case 3: return std::unique_ptr<MapT>{new index::map::FlexMem<Id, Location>};
        case 4: return std::unique_ptr<MapT>{new index::map::FlexMem<Id, Location>{true}};
        case 5: return std::unique_ptr<MapT>{new index::map::SparseMemMap<Id, Location>};
        case 6: return std::unique_ptr<MapT>{new index::map::DenseMmapArray<Id, Location>};
        case 7: return std::unique_ptr<MapT>{new index::map::SparseMmapArray<Id, Location>};
        default: return nullptr;
    }
}

// history: n insertions (distinct ids are the harness's business), sort, [kind 3: switch_to_dense], then look up `probe` both ways.
// rc of get(): 0 found (*gx,*gy), 1 not_found.  get_noexcept() result in *nx,*ny.  *size = size()
// with a split (verif_map_split) the history is: the first `split` insertions, sort, a lookup, the remaining insertions, sort again
static unsigned g_split = ~0U;
static int g_clear = 0;      // with a split: clear() after the first series (the map then holds the second series only)
ENTRY void verif_map_split(unsigned split) { g_split = split; }
ENTRY void verif_map_clear(int on) { g_clear = on; }
ENTRY int verif_map(int kind, const unsigned long* ids, const int* xy, unsigned n, unsigned long probe, int* gx, int* gy, int* nx, int* ny, unsigned long* size) {
    auto map = make(kind);
    const unsigned first = g_split < n ? g_split : n;
    for (unsigned i = 0; i < first; ++i) map->set(ids[i], Location{xy[2 * i], xy[2 * i + 1]});
    map->sort();
    if (first < n) {
        (void)map->get_noexcept(probe);
        if (g_clear) map->clear();
        for (unsigned i = first; i < n; ++i) map->set(ids[i], Location{xy[2 * i], xy[2 * i + 1]});
        map->sort();
    }
    if (kind == 3) static_cast<index::map::FlexMem<Id, Location>*>(map.get())->switch_to_dense();
    *size = map->size();
    const Location ne = map->get_noexcept(probe); *nx = ne.x(); *ny = ne.y();
    try { const Location l = map->get(probe); *gx = l.x(); *gy = l.y(); return 0; } catch (const osmium::not_found&) { return 1; }
}

// dump: what 0 = dump_as_list, 1 = dump_as_array
ENTRY int verif_dump(int kind, int what, const unsigned long* ids, const int* xy, unsigned n, unsigned char* out, unsigned long cap, unsigned long* outlen) {
    g_out = out; g_outcap = cap; g_outlen = 0;
    auto map = make(kind);
    for (unsigned i = 0; i < n; ++i) map->set(ids[i], Location{xy[2 * i], xy[2 * i + 1]});
    map->sort();
    int rc = 0;
    try { if (what == 0) map->dump_as_list(7); else map->dump_as_array(7); } catch (const std::exception&) { rc = 1; }
    *outlen = g_outlen;
    return rc;
}

// node location handler: nodes (id, location) in the given order, then one way with the given refs; locations found for the refs go to out
ENTRY int verif_node_locations(int kind, const long* nids, const int* nxy, unsigned nn, const long* refs, unsigned nr, int ignore_errors, int* out) {
    auto pos = make(kind), neg = make(kind);
    handler::NodeLocationsForWays<MapT, MapT> h{*pos, *neg};
    if (ignore_errors) h.ignore_errors();
    memory::Buffer b{4096};
    for (unsigned i = 0; i < nn; ++i) {
        { builder::NodeBuilder nb{b}; nb.set_id(nids[i]).set_location(Location{nxy[2 * i], nxy[2 * i + 1]}); }
        b.commit();
    }
    const std::size_t way_offset = b.committed();
    { builder::WayBuilder wb{b}; wb.set_id(1); { builder::WayNodeListBuilder wn{wb}; for (unsigned i = 0; i < nr; ++i) wn.add_node_ref(refs[i]); } }
    b.commit();
    std::size_t off = 0;
    for (unsigned i = 0; i < nn; ++i) { const auto& node = b.get<Node>(off); h.node(node); off += node.padded_size(); }
    auto& way = b.get<Way>(way_offset);
    int rc = 0;
    try { h.way(way); } catch (const osmium::not_found&) { rc = 1; }
    unsigned k = 0;
    for (const auto& nr_ : way.nodes()) { out[2 * k] = nr_.location().x(); out[2 * k + 1] = nr_.location().y(); ++k; }
    return rc;
}
