// C15: id sets, relation maps, item stash
#include <osmium/index/id_set.hpp>
#include <osmium/index/relations_map.hpp>
#include <osmium/storage/item_stash.hpp>
#include <osmium/builder/osm_object_builder.hpp>
#include <cstdint>
#include <cstring>
#define ENTRY extern "C" __attribute__((noinline))
using namespace osmium;

// ---------------------------------------------------------------- IdSetDense, tiny chunks (chunk_bits = 2: 4 bytes = 32 ids per chunk)
template <typename T>
static int idset_step(unsigned skeleton, unsigned nchunks, const unsigned char* contents, T size, int op, T id,
                      unsigned char* after, unsigned* present, T* size_after, T* iter, unsigned itercap, unsigned* niter) {
    using Set = index::IdSetDense<T, 2>;
    Set s;
    // pre-state: chunk c exists iff bit c of skeleton; contents and size are given (the harness ties size to the number of set bits)
    if (nchunks) s.m_data.resize(nchunks);
    for (unsigned c = 0; c < nchunks; ++c) {
        if (skeleton & (1U << c)) {
            s.m_data[c].reset(new unsigned char[4]);
            std::memcpy(s.m_data[c].get(), contents + 4 * c, 4);
        }
    }
    s.m_size = size;
    int ret = -1;
    Set copy;
    Set* result = &s;
    switch (op) {
        case 0: s.set(id); break;
        case 1: s.unset(id); break;
        case 2: ret = s.check_and_set(id) ? 1 : 0; break;
        case 3: ret = s.get(id) ? 1 : 0; break;
        case 4: s.clear(); break;
        case 5: copy = s; result = &copy; break;
        case 6: { Set tmp{s}; Set moved{std::move(tmp)}; swap(copy, moved); result = &copy; } break;
        case 7: break;   // iterate only
        default: return -9;
    }
    *size_after = result->size();
    *present = 0;
    for (unsigned c = 0; c < result->m_data.size() && c < 8; ++c) {
        if (result->m_data[c]) { *present |= (1U << c); std::memcpy(after + 4 * c, result->m_data[c].get(), 4); }
    }
    *present |= static_cast<unsigned>(result->m_data.size()) << 8;
    if (itercap) {
        unsigned k = 0;
        for (auto v : *result) { if (k < itercap) iter[k] = v; ++k; }
        *niter = k;
    }
    return ret;
}

ENTRY int verif_idset32(unsigned skeleton, unsigned nchunks, const unsigned char* contents, unsigned size, int op, unsigned id,
                        unsigned char* after, unsigned* present, unsigned* size_after, unsigned* iter, unsigned itercap, unsigned* niter) {
    return idset_step<std::uint32_t>(skeleton, nchunks, contents, size, op, id, after, present, size_after, iter, itercap, niter);
}

ENTRY int verif_idset64(unsigned skeleton, unsigned nchunks, const unsigned char* contents, unsigned long size, int op, unsigned long id,
                        unsigned char* after, unsigned* present, unsigned long* size_after, unsigned long* iter, unsigned itercap, unsigned* niter) {
    return idset_step<std::uint64_t>(skeleton, nchunks, contents, size, op, id, after, present, size_after, iter, itercap, niter);
}

// ---------------------------------------------------------------- IdSetSmall
ENTRY unsigned verif_idset_small(const unsigned long* ids, unsigned n, int sort_first, unsigned long probe, unsigned long* out, unsigned outcap, int* found, int* found_binary) {
    index::IdSetSmall<std::uint64_t> s;
    for (unsigned i = 0; i < n; ++i) s.set(ids[i]);
    if (sort_first) s.sort_unique();
    *found = s.get(probe) ? 1 : 0;
    *found_binary = sort_first ? (s.get_binary_search(probe) ? 1 : 0) : -1;
    unsigned k = 0;
    for (auto v : s) { if (k < outcap) out[k] = v; ++k; }
    return k;
}

// ---------------------------------------------------------------- relation maps
// which: 0 member->parent index, 1 parent->member index, 2 both (lookup member->parent), 3 both (lookup parent->member)
ENTRY unsigned verif_relmap(const unsigned long* members, const unsigned long* parents, unsigned n, int which, unsigned long probe, unsigned long* out, unsigned outcap) {
    index::RelationsMapStash stash;
    for (unsigned i = 0; i < n; ++i) stash.add(members[i], parents[i]);
    unsigned k = 0;
    auto rec = [&](std::uint64_t id) { if (k < outcap) out[k] = id; ++k; };
    if (which == 0) { auto idx = stash.build_member_to_parent_index(); idx.for_each(probe, rec); }
    else if (which == 1) { auto idx = stash.build_parent_to_member_index(); idx.for_each(probe, rec); }
    else { auto idx = stash.build_indexes(); if (which == 2) idx.member_to_parent().for_each(probe, rec); else idx.parent_to_member().for_each(probe, rec); }
    return k;
}

// ---------------------------------------------------------------- item stash
static void make_node(memory::Buffer& b, long id, unsigned ulen) {
    b.clear();
    static const char user[] = "abcdefghijklmnopqrstuvwxyz";
    { builder::NodeBuilder nb{b}; nb.set_id(id); nb.set_user(user, static_cast<string_size_type>(ulen)); }
    b.commit();
}

// add n items (ids[i], user length ulen0 + 3*i), remove those in mask1, optionally collect, add one more (ids[n]), remove those in mask2 (n+1 bits),
// optionally collect again; report for every handle whether it is live and, if so, the id and size found behind it
ENTRY int verif_stash(unsigned n, const long* ids, unsigned ulen0, unsigned mask1, int gc1, unsigned mask2, int gc2,
                      long* got_ids, unsigned* got_sizes, unsigned long* counts) {
    osmium::ItemStash stash;
    memory::Buffer tmp{256, memory::Buffer::auto_grow::yes};
    osmium::ItemStash::handle_type h[8];
    for (unsigned i = 0; i < n; ++i) { make_node(tmp, ids[i], ulen0 + 3 * i); h[i] = stash.add_item(tmp.get<memory::Item>(0)); }
    for (unsigned i = 0; i < n; ++i) if (mask1 & (1U << i)) stash.remove_item(h[i]);
    if (gc1 == 1) stash.garbage_collect();
    // gc1 == 2: let add_item() collect by itself: should_gc() only looks at counters, so the removal counter is raised past its
    // threshold (an over-approximated pre-state: the real trigger needs >= 10000 removed items)
    if (gc1 == 2) stash.m_count_removed += 6000000UL;
    make_node(tmp, ids[n], ulen0 + 1); h[n] = stash.add_item(tmp.get<memory::Item>(0));
    for (unsigned i = 0; i <= n; ++i) if ((mask2 & (1U << i)) && !(mask1 & (1U << i))) stash.remove_item(h[i]);
    if (gc2) stash.garbage_collect();
    for (unsigned i = 0; i <= n; ++i) {
        if ((mask1 | mask2) & (1U << i)) { got_ids[i] = 0; got_sizes[i] = 0; continue; }
        const auto& node = stash.get<osmium::Node>(h[i]);
        got_ids[i] = node.id(); got_sizes[i] = node.byte_size();
    }
    counts[0] = stash.size(); counts[1] = stash.count_removed(); counts[2] = stash.m_buffer.committed();
    return 0;
}
