// C02: decoder kernels (PBF framing fields, PBF primitive blocks, o5m string table)
#include <osmium/io/detail/pbf_input_format.hpp>
#include <osmium/io/detail/pbf_decoder.hpp>
#include <osmium/io/detail/o5m_input_format.hpp>
#include "dump.hpp"
#define ENTRY extern "C" __attribute__((noinline))
using namespace osmium::io::detail;

ENTRY unsigned verif_be32(const char* d) { return PBFParser::get_size_in_network_byte_order(d); }

// rc 0: *out = size; 1: pbf_error
ENTRY int verif_check_size(unsigned size, unsigned* out) {
    try { *out = PBFParser::check_size(size); return 0; } catch (const osmium::pbf_error&) { return 1; }
}

// rc 0: *out = datasize; 1 pbf_error; 2 protozero exception; 3 other
ENTRY int verif_blob_header(const char* data, unsigned len, int header_blob, unsigned long* out) {
    try { *out = PBFParser::decode_blob_header(protozero::data_view{data, len}, header_blob ? "OSMHeader" : "OSMData"); return 0; }
    catch (const osmium::pbf_error&) { return 1; } catch (const protozero::exception&) { return 2; } catch (const std::exception&) { return 3; }
}

// decode one PrimitiveBlock message; dump of the entities goes to out.  rc 0 ok, 1 pbf_error, 2 protozero, 3 other
ENTRY int verif_primitive_block_mask(const char* data, unsigned len, unsigned mask, int read_meta, unsigned char* out, unsigned cap, unsigned* outlen);
ENTRY int verif_primitive_block(const char* data, unsigned len, int read_meta, unsigned char* out, unsigned cap, unsigned* outlen) {
    return verif_primitive_block_mask(data, len, osmium::osm_entity_bits::all, read_meta, out, cap, outlen);
}
// same with an entity mask (osm_entity_bits)
ENTRY int verif_primitive_block_mask(const char* data, unsigned len, unsigned mask, int read_meta, unsigned char* out, unsigned cap, unsigned* outlen) {
    try {
        PBFPrimitiveBlockDecoder decoder{protozero::data_view{data, len}, static_cast<osmium::osm_entity_bits::type>(mask), read_meta ? osmium::io::read_meta::yes : osmium::io::read_meta::no};
        osmium::memory::Buffer b = decoder();
        Dump d{out, cap}; d.buffer_exact(b); *outlen = d.len;
        return d.overflow ? 9 : 0;
    } catch (const osmium::pbf_error&) { return 1; } catch (const protozero::exception&) { return 2; } catch (const std::exception&) { return 3; }
}

// o5m string reference table: start from slot `start`, add the given strings, then look one up.  rc 0: copied entry; 1 o5m_error
ENTRY int verif_reftable(unsigned start, const char* strs, const unsigned* lens, unsigned n, unsigned long index, char* out, unsigned outlen) {
    ReferenceTable t;
    t.add("x", 1);                     // forces allocation
    t.current_entry = start;
    const char* p = strs;
    for (unsigned i = 0; i < n; ++i) { t.add(p, lens[i]); p += lens[i]; }
    try { const char* e = t.get(index); std::memcpy(out, e, outlen); return 0; } catch (const osmium::o5m_error&) { return 1; }
}

ENTRY unsigned verif_reftable_cursor(unsigned start, unsigned nadds, unsigned len) {
    ReferenceTable t; t.add("x", 1); t.current_entry = start;
    char buf[300] = {0};
    for (unsigned i = 0; i < nadds; ++i) t.add(buf, len);
    return t.current_entry;
}
