// C10: the exact predicates that area assembly rests on
#include <osmium/area/detail/node_ref_segment.hpp>
#define ENTRY extern "C" __attribute__((noinline))
using namespace osmium; using namespace osmium::area::detail;

static NodeRefSegment seg(const int* c, long id) {
    return NodeRefSegment{NodeRef{id, Location{c[0], c[1]}}, NodeRef{id + 1, Location{c[2], c[3]}}, role_type::outer, nullptr};
}

// returns 1 if calculate_intersection yields a defined location (written to out)
ENTRY int verif_intersect(const int* a, const int* b, int* out) {
    const Location l = calculate_intersection(seg(a, 1), seg(b, 3));
    out[0] = l.x(); out[1] = l.y();
    return l ? 1 : 0;
}
// what: 0 operator<, 1 operator==, 2 outside_x_range, 3 y_range_overlap
ENTRY int verif_seg_rel(int what, const int* a, const int* b) {
    const NodeRefSegment s1 = seg(a, 1), s2 = seg(b, 3);
    switch (what) { case 0: return s1 < s2; case 1: return s1 == s2; case 2: return outside_x_range(s1, s2); default: return y_range_overlap(s1, s2); }
}
// normalised end points of a segment: first (x, y), second (x, y)
ENTRY void verif_seg_ends(const int* a, int* out) {
    const NodeRefSegment s = seg(a, 1);
    out[0] = s.first().location().x(); out[1] = s.first().location().y(); out[2] = s.second().location().x(); out[3] = s.second().location().y();
}
// the floating-point tail of calculate_intersection ("ua = na / d; i = p0 + ua * (p1 - p0)" and the cast to Location), transcribed in two
// steps with the library's own vec operators: subject of the range lemma (C10 cbmc harnesses) that justifies treating the computed
// point as a defined location when the whole assembler is run (assemble.cpp) with floating point kept opaque
ENTRY double verif_ratio(long na, long d) { return static_cast<double>(na) / static_cast<double>(d); }
ENTRY void verif_scale_add(double ua, const int* p, int* out) {
    const vec p0{p[0], p[1]}, p1{p[2], p[3]};
    const vec i = p0 + ua * (p1 - p0);
    const Location l{static_cast<int32_t>(i.x), static_cast<int32_t>(i.y)};
    out[0] = l.x(); out[1] = l.y();
}
