// C20: ChainHandler (kept in its own translation unit)
#include <osmium/visitor.hpp>
#include <osmium/handler.hpp>
#include <osmium/handler/chain.hpp>
#include <osmium/memory/buffer.hpp>
#include <osmium/osm.hpp>
#include <cstring>
#define ENTRY extern "C" __attribute__((noinline))
using namespace osmium;
static unsigned* g_log; static unsigned g_n, g_cap; static const unsigned char* g_base;
static void logcb(unsigned handler, unsigned cb, const void* item) {
    if (g_n < g_cap) g_log[g_n] = (handler << 16) | (cb << 8) | (item ? static_cast<unsigned>((static_cast<const unsigned char*>(item) - g_base) / 64) : 0xff);
    ++g_n;
}
enum { CB_OBJECT = 1, CB_NODE, CB_WAY, CB_RELATION, CB_AREA, CB_CHANGESET, CB_FLUSH = 13 };
template <unsigned N>
struct LogHandler : handler::Handler {
    void osm_object(const OSMObject& o) const { logcb(N, CB_OBJECT, &o); }
    void node(const Node& o) const { logcb(N, CB_NODE, &o); }
    void way(const Way& o) const { logcb(N, CB_WAY, &o); }
    void relation(const Relation& o) const { logcb(N, CB_RELATION, &o); }
    void area(const Area& o) const { logcb(N, CB_AREA, &o); }
    void changeset(const Changeset& o) const { logcb(N, CB_CHANGESET, &o); }
    void flush() const { logcb(N, CB_FLUSH, nullptr); }
};
ENTRY unsigned verif_apply(int variant, const unsigned short* types, const unsigned char* removed, unsigned n, unsigned* log, unsigned cap) {
    g_log = log; g_n = 0; g_cap = cap;
    memory::Buffer buffer{1024, memory::Buffer::auto_grow::no};
    for (unsigned i = 0; i < n; ++i) {
        unsigned char* p = buffer.reserve_space(64); std::memset(p, 0, 64);
        auto* item = reinterpret_cast<memory::Item*>(p);
        item->m_size = 64; item->m_type = static_cast<item_type>(types[i]); item->m_removed = removed[i] & 1U;
        buffer.commit();
    }
    g_base = buffer.data();
    LogHandler<1> h1; LogHandler<2> h2; LogHandler<3> h3;
    try { handler::ChainHandler<LogHandler<1>, LogHandler<2>> ch{h1, h2}; apply(buffer, ch, h3); }
    catch (const osmium::unknown_type&) { logcb(0, 0xee, nullptr); }
    (void)variant;
    return g_n;
}
