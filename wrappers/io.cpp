// C08 (and the wrapper logic of C09): OS / library calls are replaced by scripted stubs *defined in this TU*: every call pops the next
// entry (return value, errno) of a script that the harness fills with symbolic values, checks it against the call's documented contract
// (verif_assume) and appends (kind, fd, count, buffer offset) to a call log.  The same stubs serve the native replay (-Wl,-Bsymbolic).
#include <osmium/io/detail/read_write.hpp>
#include <osmium/io/compression.hpp>
#include <osmium/io/gzip_compression.hpp>
#include <cerrno>
#include <cstring>
#include <system_error>
#define ENTRY extern "C" __attribute__((noinline))

#ifdef VERIF_NATIVE
static int g_assume_failed = 0;
extern "C" void verif_assume(int cond) { if (!cond) g_assume_failed = 1; }
#else
extern "C" void verif_assume(int cond);          // symbolic engine: assumption on the path (path ends if it cannot hold)
#endif

enum { K_WRITE = 1, K_FSYNC, K_CLOSE, K_DUP, K_FSTAT, K_GZDOPEN, K_GZWRITE, K_GZCLOSE };
static const long* g_rets; static const int* g_errnos; static unsigned g_nscript, g_ncalls;
static long* g_calllog; static unsigned g_logcap;
static const unsigned char* g_buf0;

static long next_ret(int kind, long fd, unsigned long count, const void* buf) {
    const unsigned k = g_ncalls++;
    verif_assume(k < g_nscript);                      // bound on the number of OS / library calls
    if (k >= g_nscript) return -1;
    if (4 * k + 3 < g_logcap) { g_calllog[4 * k] = kind; g_calllog[4 * k + 1] = fd; g_calllog[4 * k + 2] = static_cast<long>(count);
                                g_calllog[4 * k + 3] = buf ? static_cast<long>(static_cast<const unsigned char*>(buf) - g_buf0) : -1; }
    const long r = g_rets[k];
    if (r < 0) errno = g_errnos[k];
    return r;
}

extern "C" {
// POSIX write(2) on a regular file: -1 + errno, or 1..count bytes (0 only for count 0)
ssize_t write(int fd, const void* buf, size_t count) {
    const long r = next_ret(K_WRITE, fd, count, buf);
    verif_assume(r == -1 || (r >= (count ? 1 : 0) && static_cast<unsigned long>(r) <= count));
    return r;
}
int fsync(int fd) { const long r = next_ret(K_FSYNC, fd, 0, nullptr); verif_assume(r == 0 || r == -1); return static_cast<int>(r); }
int close(int fd) { const long r = next_ret(K_CLOSE, fd, 0, nullptr); verif_assume(r == 0 || r == -1); return static_cast<int>(r); }
int dup(int fd) { const long r = next_ret(K_DUP, fd, 0, nullptr); verif_assume(r == -1 || (r >= 3 && r < 1000)); return static_cast<int>(r); }
int fstat(int fd, struct stat* s) { const long r = next_ret(K_FSTAT, fd, 0, nullptr); verif_assume(r >= -1 && r < (1L << 40)); if (r >= 0) { std::memset(s, 0, sizeof(*s)); s->st_size = r; return 0; } return -1; }
// zlib: gzdopen returns a handle or NULL; gzwrite returns the number of uncompressed bytes written, 0 on error; gzclose_w returns Z_OK or an error code
gzFile gzdopen(int fd, const char*) { const long r = next_ret(K_GZDOPEN, fd, 0, nullptr); verif_assume(r == 0 || r == 1); return r ? reinterpret_cast<gzFile>(const_cast<long*>(g_rets)) : nullptr; }
int gzwrite(gzFile, voidpc buf, unsigned len) { const long r = next_ret(K_GZWRITE, 0, len, buf); verif_assume(r == 0 || r == static_cast<long>(len)); return static_cast<int>(r); }
int gzclose_w(gzFile) { const long r = next_ret(K_GZCLOSE, 0, 0, nullptr); verif_assume(r == 0 || (r >= -6 && r <= -1)); return static_cast<int>(r); }
const char* gzerror(gzFile, int* errnum) { *errnum = -1; return "stub"; }
}

static void script(const long* rets, const int* errnos, unsigned n, long* calllog, unsigned logcap, const void* buf0) {
    g_rets = rets; g_errnos = errnos; g_nscript = n; g_ncalls = 0; g_calllog = calllog; g_logcap = logcap; g_buf0 = static_cast<const unsigned char*>(buf0);
#ifdef VERIF_NATIVE
    g_assume_failed = 0;
#endif
}

static int result(int rc, unsigned* ncalls) {
    *ncalls = g_ncalls;
#ifdef VERIF_NATIVE
    if (g_assume_failed) return 77;               // the recorded script does not satisfy the stub contracts: not a valid replay
#endif
    return rc;
}

// rc: 0 returned normally, 1 std::system_error, 2 gzip_error, 3 other exception
ENTRY int verif_reliable_write(int fd, const unsigned char* buf, unsigned long size, const long* rets, const int* errnos, unsigned n, long* calllog, unsigned logcap, unsigned* ncalls) {
    script(rets, errnos, n, calllog, logcap, buf);
    int rc = 0;
    try { osmium::io::detail::reliable_write(fd, buf, size); } catch (const std::system_error&) { rc = 1; } catch (...) { rc = 3; }
    return result(rc, ncalls);
}

// NoCompressor: write(a), write(b), close(), close() again; *stage = number of completed steps; *fsize = file_size() at the end
ENTRY int verif_no_compressor(int fd, int sync, unsigned long size_a, unsigned long size_b, const long* rets, const int* errnos, unsigned n, long* calllog, unsigned logcap,
                              unsigned* ncalls, unsigned* stage, unsigned long* fsize) {
    static const char zeros[64] = {0};
    script(rets, errnos, n, calllog, logcap, nullptr);
    int rc = 0; *stage = 0; *fsize = 0;
    {
        std::string a(size_a, 'a'), b(size_b, 'b');
        osmium::io::NoCompressor c{fd, sync ? osmium::io::fsync::yes : osmium::io::fsync::no};
        try {
            g_buf0 = reinterpret_cast<const unsigned char*>(a.data()); c.write(a); *stage = 1;
            g_buf0 = reinterpret_cast<const unsigned char*>(b.data()); c.write(b); *stage = 2;
            c.close(); *stage = 3;
            c.close(); *stage = 4;
        } catch (const std::system_error&) { rc = 1; } catch (...) { rc = 3; }
        *fsize = c.file_size();
        c.m_fd = -1;          // the destructor must not talk to the stubs any more
    }
    (void)zeros;
    return result(rc, ncalls);
}

ENTRY int verif_gzip_compressor(int fd, int sync, unsigned long size_a, const long* rets, const int* errnos, unsigned n, long* calllog, unsigned logcap,
                                unsigned* ncalls, unsigned* stage, unsigned long* fsize) {
    script(rets, errnos, n, calllog, logcap, nullptr);
    int rc = 0; *stage = 0; *fsize = 0;
    try {
        std::string a(size_a, 'a');
        osmium::io::GzipCompressor c{fd, sync ? osmium::io::fsync::yes : osmium::io::fsync::no};
        *stage = 1;
        try {
            g_buf0 = reinterpret_cast<const unsigned char*>(a.data()); c.write(a); *stage = 2;
            c.close(); *stage = 3;
            c.close(); *stage = 4;
            *fsize = c.file_size();
        } catch (...) { c.m_gzfile = nullptr; throw; }
        c.m_gzfile = nullptr;
    } catch (const osmium::gzip_error&) { rc = 2; } catch (const std::system_error&) { rc = 1; } catch (...) { rc = 3; }
    return result(rc, ncalls);
}
