// C08 (and the wrapper logic of C09): OS / library calls are replaced by scripted stubs *defined in this TU*: every call pops the next
// entry (return value, errno) of a script that the harness fills with symbolic values, checks it against the call's documented contract
// (verif_assume) and appends (kind, fd, count, buffer offset) to a call log.  The same stubs serve the native replay (-Wl,-Bsymbolic).
#include <osmium/io/detail/read_write.hpp>
#include <osmium/io/compression.hpp>
#include <osmium/io/gzip_compression.hpp>
#include <osmium/io/bzip2_compression.hpp>
#include <cstdio>
#include <cerrno>
#include <cstring>
#include <system_error>
#define ENTRY extern "C" __attribute__((noinline))

#ifdef VERIF_NATIVE
static int g_assume_failed = 0;
extern "C" void verif_assume(int cond) { if (!cond) g_assume_failed = 1; }
#else
extern "C" void verif_assume(int cond);          // symbolic engine: assumption on the path (path ends if it cannot hold)
#endif

enum { K_WRITE = 1, K_FSYNC, K_CLOSE, K_DUP, K_FSTAT, K_GZDOPEN, K_GZWRITE, K_GZCLOSE, K_FDOPEN, K_FCLOSE, K_BZWOPEN, K_BZWRITE, K_BZWCLOSE, K_GZREAD, K_GZCLOSER, K_GZOFFSET };
static int g_stdio_fd = -1;
static const long* g_rets; static const int* g_errnos; static unsigned g_nscript, g_ncalls;
static long* g_calllog; static unsigned g_logcap;
static const unsigned char* g_buf0;

static long next_ret(int kind, long fd, unsigned long count, const void* buf) {
    const unsigned k = g_ncalls++;
    verif_assume(k < g_nscript);                      // bound on the number of OS / library calls
    if (k >= g_nscript) return -1;
    if (4 * k + 3 < g_logcap) { g_calllog[4 * k] = kind; g_calllog[4 * k + 1] = fd; g_calllog[4 * k + 2] = static_cast<long>(count);
                                g_calllog[4 * k + 3] = buf ? static_cast<long>(static_cast<const unsigned char*>(buf) - g_buf0) : -1; }
    const long r = g_rets[k];
    if (r < 0) errno = g_errnos[k];
    return r;
}

extern "C" {
// POSIX write(2) on a regular file: -1 + errno, or 1..count bytes (0 only for count 0)
ssize_t write(int fd, const void* buf, size_t count) {
    const long r = next_ret(K_WRITE, fd, count, buf);
    verif_assume(r == -1 || (r >= (count ? 1 : 0) && static_cast<unsigned long>(r) <= count));
    return r;
}
int fsync(int fd) { const long r = next_ret(K_FSYNC, fd, 0, nullptr); verif_assume(r == 0 || r == -1); return static_cast<int>(r); }
int close(int fd) { const long r = next_ret(K_CLOSE, fd, 0, nullptr); verif_assume(r == 0 || r == -1); return static_cast<int>(r); }
int dup(int fd) { const long r = next_ret(K_DUP, fd, 0, nullptr); verif_assume(r == -1 || (r >= 3 && r < 1000)); return static_cast<int>(r); }
int fstat(int fd, struct stat* s) { const long r = next_ret(K_FSTAT, fd, 0, nullptr); verif_assume(r >= -1 && r < (1L << 40)); if (r >= 0) { std::memset(s, 0, sizeof(*s)); s->st_size = r; return 0; } return -1; }
// zlib: gzdopen returns a handle or NULL; gzwrite returns the number of uncompressed bytes written, 0 on error; gzclose_w returns Z_OK or an error code
gzFile gzdopen(int fd, const char*) { const long r = next_ret(K_GZDOPEN, fd, 0, nullptr); verif_assume(r == 0 || r == 1); return r ? reinterpret_cast<gzFile>(const_cast<long*>(g_rets)) : nullptr; }
int gzwrite(gzFile, voidpc buf, unsigned len) { const long r = next_ret(K_GZWRITE, 0, len, buf); verif_assume(r == 0 || r == static_cast<long>(len)); return static_cast<int>(r); }
// the string interface of zlib hands over the bytes up to the first NUL only: logged as a write of that many bytes
int gzputs(gzFile, const char* str) { const unsigned len = static_cast<unsigned>(std::strlen(str)); const long r = next_ret(K_GZWRITE, 0, len, str); verif_assume(r == 0 || r == static_cast<long>(len)); return r ? static_cast<int>(len) : -1; }
int gzclose_w(gzFile) { const long r = next_ret(K_GZCLOSE, 0, 0, nullptr); verif_assume(r == 0 || (r >= -6 && r <= -1)); return static_cast<int>(r); }
const char* gzerror(gzFile, int* errnum) { *errnum = -1; return "stub"; }
// zlib reading: gzread returns -1 on error (also for a damaged or truncated stream) or the number of uncompressed bytes stored (0 at the end);
// the stub marks the first and the last byte it "stored" with the call number; gzoffset is the compressed position, never beyond the file;
// gzclose_r returns Z_OK, or Z_BUF_ERROR when the last read ended in the middle of a stream, or another error code
int gzread(gzFile, voidp buf, unsigned len) {
    const unsigned call = g_ncalls;
    const long r = next_ret(K_GZREAD, 0, len, nullptr); verif_assume(r >= -1 && r <= static_cast<long>(len));
    if (r > 0) { static_cast<unsigned char*>(buf)[0] = static_cast<unsigned char>(0x40 + call); static_cast<unsigned char*>(buf)[r - 1] = static_cast<unsigned char>(0x40 + call); }
    return static_cast<int>(r);
}
static long g_file_size = 0, g_last_offset = 0;
z_off_t gzoffset(gzFile) { const long r = next_ret(K_GZOFFSET, 0, 0, nullptr); verif_assume(r >= g_last_offset && r <= g_file_size); g_last_offset = r; return r; }
int gzclose_r(gzFile) { const long r = next_ret(K_GZCLOSER, 0, 0, nullptr); verif_assume(r == 0 || (r >= -6 && r <= -1)); return static_cast<int>(r); }
int posix_fadvise(int, off_t, off_t, int) noexcept { return 0; }
// stdio on a descriptor: fdopen returns a stream or NULL + errno; fclose returns 0 or EOF + errno; fileno gives the descriptor back
FILE* fdopen(int fd, const char*) noexcept { const long r = next_ret(K_FDOPEN, fd, 0, nullptr); verif_assume(r == 1 || r == -1); g_stdio_fd = fd; return r == 1 ? reinterpret_cast<FILE*>(const_cast<int*>(g_errnos)) : nullptr; }
int fclose(FILE*) { const long r = next_ret(K_FCLOSE, g_stdio_fd, 0, nullptr); verif_assume(r == 0 || r == -1); return static_cast<int>(r); }
int fileno(FILE*) noexcept { return g_stdio_fd; }
// libbz2 writing: BZ2_bzWriteOpen gives a handle (BZ_OK) or NULL with an error code -1..-9; BZ2_bzWrite and BZ2_bzWriteClose64 report BZ_OK or an error code
// through *bzerror; a successful close reports the compressed size (any 40-bit value)
BZFILE* BZ2_bzWriteOpen(int* bzerror, FILE*, int, int, int) { const long r = next_ret(K_BZWOPEN, 0, 0, nullptr); verif_assume(r == 1 || (r >= -9 && r <= -1)); *bzerror = r == 1 ? BZ_OK : static_cast<int>(r); return r == 1 ? reinterpret_cast<BZFILE*>(const_cast<long*>(g_rets)) : nullptr; }
void BZ2_bzWrite(int* bzerror, BZFILE*, void* buf, int len) { const long r = next_ret(K_BZWRITE, 0, static_cast<unsigned long>(len), buf); verif_assume(r == 0 || (r >= -9 && r <= -1)); *bzerror = static_cast<int>(r); }
void BZ2_bzWriteClose64(int* bzerror, BZFILE*, int, unsigned int*, unsigned int*, unsigned int* out_lo, unsigned int* out_hi) {
    const long r = next_ret(K_BZWCLOSE, 0, 0, nullptr); verif_assume(r >= -9 && r < (1L << 40));
    if (r >= 0) { *bzerror = BZ_OK; if (out_lo) *out_lo = static_cast<unsigned int>(r & 0xffffffffL); if (out_hi) *out_hi = static_cast<unsigned int>(r >> 32); } else *bzerror = static_cast<int>(r);
}
const char* BZ2_bzerror(BZFILE*, int* errnum) { *errnum = -1; return "stub"; }
}

static void script(const long* rets, const int* errnos, unsigned n, long* calllog, unsigned logcap, const void* buf0) {
    g_rets = rets; g_errnos = errnos; g_nscript = n; g_ncalls = 0; g_calllog = calllog; g_logcap = logcap; g_buf0 = static_cast<const unsigned char*>(buf0);
#ifdef VERIF_NATIVE
    g_assume_failed = 0;
#endif
}

static int result(int rc, unsigned* ncalls) {
    *ncalls = g_ncalls;
#ifdef VERIF_NATIVE
    if (g_assume_failed) return 77;               // the recorded script does not satisfy the stub contracts: not a valid replay
#endif
    return rc;
}

// rc: 0 returned normally, 1 std::system_error, 2 gzip_error, 3 other exception
ENTRY int verif_reliable_write(int fd, const unsigned char* buf, unsigned long size, const long* rets, const int* errnos, unsigned n, long* calllog, unsigned logcap, unsigned* ncalls) {
    script(rets, errnos, n, calllog, logcap, buf);
    int rc = 0;
    try { osmium::io::detail::reliable_write(fd, buf, size); } catch (const std::system_error&) { rc = 1; } catch (...) { rc = 3; }
    return result(rc, ncalls);
}

// NoCompressor: write(a), write(b), close(), close() again; *stage = number of completed steps; *fsize = file_size() at the end
ENTRY int verif_no_compressor(int fd, int sync, unsigned long size_a, unsigned long size_b, const long* rets, const int* errnos, unsigned n, long* calllog, unsigned logcap,
                              unsigned* ncalls, unsigned* stage, unsigned long* fsize) {
    static const char zeros[64] = {0};
    script(rets, errnos, n, calllog, logcap, nullptr);
    int rc = 0; *stage = 0; *fsize = 0;
    {
        std::string a(size_a, 'a'), b(size_b, 'b');
        osmium::io::NoCompressor c{fd, sync ? osmium::io::fsync::yes : osmium::io::fsync::no};
        try {
            g_buf0 = reinterpret_cast<const unsigned char*>(a.data()); c.write(a); *stage = 1;
            g_buf0 = reinterpret_cast<const unsigned char*>(b.data()); c.write(b); *stage = 2;
            c.close(); *stage = 3;
            c.close(); *stage = 4;
        } catch (const std::system_error&) { rc = 1; } catch (...) { rc = 3; }
        *fsize = c.file_size();
        c.m_fd = -1;          // the destructor must not talk to the stubs any more
    }
    (void)zeros;
    return result(rc, ncalls);
}

ENTRY int verif_gzip_compressor(int fd, int sync, unsigned long size_a, const long* rets, const int* errnos, unsigned n, long* calllog, unsigned logcap,
                                unsigned* ncalls, unsigned* stage, unsigned long* fsize) {
    script(rets, errnos, n, calllog, logcap, nullptr);
    int rc = 0; *stage = 0; *fsize = 0;
    try {
        std::string a(size_a, 'a');
        if (size_a >= 2) a[1] = '\0';            // compressed payloads are binary data (PBF): a NUL byte is ordinary content
        osmium::io::GzipCompressor c{fd, sync ? osmium::io::fsync::yes : osmium::io::fsync::no};
        *stage = 1;
        try {
            g_buf0 = reinterpret_cast<const unsigned char*>(a.data()); c.write(a); *stage = 2;
            c.close(); *stage = 3;
            c.close(); *stage = 4;
            *fsize = c.file_size();
        } catch (...) { c.m_gzfile = nullptr; throw; }
        c.m_gzfile = nullptr;
    } catch (const osmium::gzip_error&) { rc = 2; } catch (const std::system_error&) { rc = 1; } catch (...) { rc = 3; }
    return result(rc, ncalls);
}

// Bzip2Compressor: construct, nwrites x write(a), close(), close() again.  rc: 0 normal, 1 system_error, 2 bzip2_error, 3 other
ENTRY int verif_bzip2_compressor(int fd, int sync, unsigned long size_a, unsigned nwrites, const long* rets, const int* errnos, unsigned n, long* calllog, unsigned logcap,
                                 unsigned* ncalls, unsigned* stage, unsigned long* fsize) {
    script(rets, errnos, n, calllog, logcap, nullptr);
    int rc = 0; *stage = 0; *fsize = 0;
    try {
        std::string a(size_a, 'a');
        struct Holder {       // the destructor of the compressor must not talk to the stubs any more once the scenario is over
            alignas(osmium::io::Bzip2Compressor) unsigned char mem[sizeof(osmium::io::Bzip2Compressor)];
        } h;
        auto* c = new (h.mem) osmium::io::Bzip2Compressor{fd, sync ? osmium::io::fsync::yes : osmium::io::fsync::no};
        *stage = 1;
        g_buf0 = reinterpret_cast<const unsigned char*>(a.data());
        for (unsigned i = 0; i < nwrites; ++i) c->write(a);
        *stage = 2;
        c->close(); *stage = 3;
        c->close(); *stage = 4;
        *fsize = c->file_size();
    } catch (const osmium::bzip2_error&) { rc = 2; } catch (const std::system_error&) { rc = 1; } catch (...) { rc = 3; }
    return result(rc, ncalls);
}

// GzipDecompressor: construct, nreads x read(), close().  per read: lens[k] = length of the returned string (or -2 gzip_error, -3 other), marks[k] = first
// byte | last byte << 8, offs[k] = offset() reported afterwards.  rc of the whole run: 0 normal, 2 gzip_error, 1 system_error, 3 other (the first exception ends the run)
ENTRY int verif_gzip_decompressor(int fd, long file_size, unsigned nreads, const long* rets, const int* errnos, unsigned n, long* calllog, unsigned logcap,
                                  unsigned* ncalls, unsigned* stage, long* lens, unsigned* marks, unsigned long* offs) {
    script(rets, errnos, n, calllog, logcap, nullptr);
    g_file_size = file_size; g_last_offset = 0;
    int rc = 0; *stage = 0;
    std::atomic<std::size_t> offset{0};
    try {
        struct Holder { alignas(osmium::io::GzipDecompressor) unsigned char mem[sizeof(osmium::io::GzipDecompressor)]; } h;
        auto* d = new (h.mem) osmium::io::GzipDecompressor{fd};
        d->set_offset_ptr(&offset);
        *stage = 1;
        for (unsigned k = 0; k < nreads; ++k) {
            const std::string data = d->read();
            lens[k] = static_cast<long>(data.size());
            marks[k] = data.empty() ? 0U : (static_cast<unsigned char>(data.front()) | (static_cast<unsigned>(static_cast<unsigned char>(data.back())) << 8U));
            offs[k] = offset.load();
            *stage = 2 + k;
        }
        d->close(); *stage = 100;
        d->close(); *stage = 101;
    } catch (const osmium::gzip_error&) { rc = 2; } catch (const std::system_error&) { rc = 1; } catch (...) { rc = 3; }
    return result(rc, ncalls);
}
