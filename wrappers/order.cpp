// C16: object orderings and the order checker
#include <osmium/osm/object.hpp>
#include <osmium/osm/node.hpp>
#include <osmium/osm/way.hpp>
#include <osmium/osm/relation.hpp>
#include <osmium/osm/object_comparisons.hpp>
#include <osmium/handler/check_order.hpp>
#include <cstring>
#include <new>
#define ENTRY extern "C" __attribute__((noinline))

// lays out an OSMObject header in caller memory (>= 64 bytes, 8-aligned) through the real setters
ENTRY void verif_obj_init(unsigned char* mem, unsigned type, long id, unsigned version, unsigned ts, int visible) {
    std::memset(mem, 0, 64);
    auto* o = reinterpret_cast<osmium::OSMObject*>(mem);
    o->m_type = static_cast<osmium::item_type>(type);
    o->m_size = sizeof(osmium::OSMObject);
    o->set_id(id);
    o->set_version(static_cast<osmium::object_version_type>(version));
    o->set_timestamp(osmium::Timestamp{ts});
    o->set_visible(visible != 0);
}

ENTRY int verif_cmp(int which, const unsigned char* a, const unsigned char* b) {
    const auto& x = *reinterpret_cast<const osmium::OSMObject*>(a);
    const auto& y = *reinterpret_cast<const osmium::OSMObject*>(b);
    switch (which) {
        case 0: return x < y;
        case 1: return osmium::object_order_type_id_version{}(x, y);
        case 2: return osmium::object_order_type_id_version_without_timestamp{}(x, y);
        case 3: return osmium::object_order_type_id_reverse_version{}(x, y);
        case 4: return x == y;
        case 5: return osmium::object_equal_type_id_version{}(x, y);
        case 6: return osmium::object_equal_type_id{}(x, y);
        case 7: return x > y;
        case 8: return x <= y;
        case 9: return x >= y;
        case 10: return x != y;
        default: return -1;
    }
}

ENTRY int verif_id_order(long a, long b) { return osmium::id_order{}(a, b); }

// feeds n object headers to a fresh CheckOrder; returns the index of the first rejected object or n
ENTRY unsigned verif_check_order(const unsigned char* objs, unsigned n) {
    osmium::handler::CheckOrder co;
    for (unsigned i = 0; i < n; ++i) {
        const auto* o = reinterpret_cast<const osmium::OSMObject*>(objs + 64 * i);
        try {
            switch (o->type()) {
                case osmium::item_type::node: co.node(*static_cast<const osmium::Node*>(o)); break;
                case osmium::item_type::way: co.way(*static_cast<const osmium::Way*>(o)); break;
                case osmium::item_type::relation: co.relation(*static_cast<const osmium::Relation*>(o)); break;
                default: return 1000;
            }
        } catch (const osmium::out_of_order_error&) {
            return i;
        }
    }
    return n;
}
