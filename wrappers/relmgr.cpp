// C11: the RelationsManager CRTP layer itself (relation() with the interest predicates, SecondPassHandler, handle_complete_relation,
// not_in_any_relation callbacks, for_each_incomplete_relation) on node and way members
#include <osmium/relations/relations_manager.hpp>
#include <osmium/builder/osm_object_builder.hpp>
#include <osmium/memory/buffer.hpp>
#include <cstring>
#define ENTRY extern "C" __attribute__((noinline))
using namespace osmium;

struct Log { long* w; unsigned cap; unsigned n; void put(long v) { if (n < cap) w[n] = v; ++n; } };

class Mgr : public relations::RelationsManager<Mgr, true, true, false> {
public:
    Log* log = nullptr; long skip_relation = -1; unsigned unwanted_mask = 0; unsigned mper = 0; long phase = 0; long pos = 0;
    bool new_relation(const Relation& r) const noexcept { return r.id() != skip_relation; }
    bool new_member(const Relation& r, const RelationMember&, std::size_t n) const noexcept { return !((unwanted_mask >> ((r.id() - 100) * mper + n)) & 1U); }
    void complete_relation(const Relation& r) {
        log->put(1); log->put(r.id()); log->put(phase * 100 + pos);
        for (const auto& m : r.members()) {
            log->put(2); log->put(static_cast<long>(m.type())); log->put(m.ref());
            if (m.ref() == 0) { log->put(-2); continue; }
            const OSMObject* o = get_member_object(m);
            log->put(o ? (o->type() == m.type() ? o->id() : -3) : -1);
        }
    }
    void node_not_in_any_relation(const Node& n) { log->put(5); log->put(1); log->put(n.id()); }
    void way_not_in_any_relation(const Way& w) { log->put(5); log->put(2); log->put(w.id()); }
};

// relation r (id 100 + r) has nmem[r] members (types[r * mper + k] in {1 node, 2 way}, refs[...]); then the node stream, then the way stream.
// log: (1, relation, phase*100+pos)(2, type, ref, found)* per completion; (5, type, id) per object no relation wants;
// after the streams (6, relation id) per incomplete relation, (3, type, id, found) per stream object, (4, relations left)
ENTRY unsigned verif_relmgr(unsigned nrel, const unsigned* nmem, unsigned mper, const unsigned* types, const long* refs, long skip, unsigned unwanted,
                            unsigned nnodes, const long* nids, unsigned nways, const long* wids, long* logw, unsigned cap) {
    Log log{logw, cap, 0};
    memory::Buffer rb{4096, memory::Buffer::auto_grow::yes};
    Mgr mgr; mgr.log = &log; mgr.skip_relation = skip; mgr.unwanted_mask = unwanted; mgr.mper = mper;
    for (unsigned r = 0; r < nrel; ++r) {
        rb.clear();
        { builder::RelationBuilder b{rb}; b.set_id(100 + r);
          { builder::RelationMemberListBuilder ml{b}; for (unsigned k = 0; k < nmem[r]; ++k) ml.add_member(types[r * mper + k] == 2 ? item_type::way : item_type::node, refs[r * mper + k], "m"); } }
        rb.commit();
        mgr.relation(rb.get<Relation>(0));
    }
    mgr.prepare_for_lookup();
    auto& h = mgr.handler();
    memory::Buffer ob{256, memory::Buffer::auto_grow::yes};
    mgr.phase = 1;
    for (unsigned i = 0; i < nnodes; ++i) {
        ob.clear(); { builder::NodeBuilder b{ob}; b.set_id(nids[i]); } ob.commit();
        mgr.pos = i; h.node(ob.get<Node>(0));
    }
    mgr.phase = 2;
    for (unsigned i = 0; i < nways; ++i) {
        ob.clear(); { builder::WayBuilder b{ob}; b.set_id(wids[i]); } ob.commit();
        mgr.pos = i; h.way(ob.get<Way>(0));
    }
    h.flush();
    mgr.for_each_incomplete_relation([&](const relations::RelationHandle& rh) { log.put(6); log.put(rh->id()); });
    for (unsigned i = 0; i < nnodes; ++i) { const Node* n = mgr.get_member_node(nids[i]); log.put(3); log.put(1); log.put(nids[i]); log.put(n ? (n->id() == nids[i] ? 1 : 2) : 0); }
    for (unsigned i = 0; i < nways; ++i) { const Way* w = mgr.get_member_way(wids[i]); log.put(3); log.put(2); log.put(wids[i]); log.put(w ? (w->id() == wids[i] ? 1 : 2) : 0); }
    log.put(4); log.put(static_cast<long>(mgr.relations_database().count_relations()));
    return log.n;
}
