// C04 (and the nested-buffer part of C05): buffers and builders.  Every entry point runs a fixed builder program in a buffer of
// the given initial capacity and growth mode and dumps what the buffer (and its nested buffers) then contains.
#include <osmium/memory/buffer.hpp>
#include <osmium/memory/callback_buffer.hpp>
#include <osmium/builder/osm_object_builder.hpp>
#include <osmium/osm.hpp>
#include "dump.hpp"
#define ENTRY extern "C" __attribute__((noinline))
using namespace osmium;
using memory::Buffer;

// dump nested buffers oldest first (the order in which Reader::read() hands them out), then the buffer itself;
// a word 0xb0f in front of every buffer makes the partition visible
static int finish(Buffer& buffer, unsigned char* out, unsigned cap, unsigned* outlen) {
    Dump d{out, cap};
    while (buffer.has_nested_buffers()) {
        std::unique_ptr<Buffer> b{buffer.get_last_nested()};
        d.u64(0xb0f); d.u64(b->committed()); d.buffer(*b);
    }
    d.u64(0xb0f); d.u64(buffer.committed()); d.buffer(buffer);
    *outlen = d.len;
    return d.overflow ? -2 : 0;
}

static void add_node(Buffer& buffer, long id, const char* user, unsigned ulen, unsigned ntags, const char* k, const char* v) {
    {
        builder::NodeBuilder nb{buffer};
        nb.set_id(id).set_version(3).set_changeset(9).set_uid(11).set_timestamp(Timestamp{uint32_t(77)}).set_location(Location{int32_t(123), int32_t(-456)});
        nb.set_user(user, static_cast<string_size_type>(ulen));
        if (ntags) {
            builder::TagListBuilder tl{nb};
            for (unsigned i = 0; i < ntags; ++i) tl.add_tag(k, v);
        }
    }
    buffer.commit();
}

// rc 0 ok, -1 buffer_is_full, -2 dump overflow
ENTRY int verif_nodes(unsigned cap, int mode, unsigned count, const long* ids, const char* user, unsigned ulen, unsigned ntags, const char* k, const char* v,
                      unsigned char* out, unsigned outcap, unsigned* outlen) {
    try {
        Buffer buffer{cap, static_cast<Buffer::auto_grow>(mode)};
        for (unsigned i = 0; i < count; ++i) add_node(buffer, ids[i], user, ulen, ntags, k, v);
        return finish(buffer, out, outcap, outlen);
    } catch (const osmium::buffer_is_full&) { return -1; }
}

ENTRY int verif_way(unsigned cap, int mode, long id, const char* user, unsigned ulen, unsigned nrefs, const long* refs, unsigned ntags, const char* k, const char* v,
                    unsigned char* out, unsigned outcap, unsigned* outlen) {
    try {
        Buffer buffer{cap, static_cast<Buffer::auto_grow>(mode)};
        {
            builder::WayBuilder wb{buffer};
            wb.set_id(id).set_version(1);
            wb.set_user(user, static_cast<string_size_type>(ulen));
            {
                builder::WayNodeListBuilder wn{wb};
                for (unsigned i = 0; i < nrefs; ++i) wn.add_node_ref(refs[i]);
            }
            if (ntags) {
                builder::TagListBuilder tl{wb};
                for (unsigned i = 0; i < ntags; ++i) tl.add_tag(k, v);
            }
        }
        buffer.commit();
        return finish(buffer, out, outcap, outlen);
    } catch (const osmium::buffer_is_full&) { return -1; }
}

// members: type i%3+1, refs[i], role of rlen bytes; member `full` (if < nmem) carries a full node object
ENTRY int verif_relation(unsigned cap, int mode, long id, const char* user, unsigned ulen, unsigned nmem, const long* refs, const char* role, unsigned rlen, unsigned full,
                         unsigned ntags, const char* k, const char* v, unsigned char* out, unsigned outcap, unsigned* outlen) {
    try {
        Buffer nodebuf{256, Buffer::auto_grow::yes};
        add_node(nodebuf, 4711, "fm", 2, 0, "", "");
        const auto& full_node = nodebuf.get<osmium::Node>(0);
        Buffer buffer{cap, static_cast<Buffer::auto_grow>(mode)};
        {
            builder::RelationBuilder rb{buffer};
            rb.set_id(id).set_version(2);
            rb.set_user(user, static_cast<string_size_type>(ulen));
            {
                builder::RelationMemberListBuilder ml{rb};
                for (unsigned i = 0; i < nmem; ++i) {
                    ml.add_member(nwr_index_to_item_type(i % 3), refs[i], role, rlen, i == full ? &full_node : nullptr);
                }
            }
            if (ntags) {
                builder::TagListBuilder tl{rb};
                for (unsigned i = 0; i < ntags; ++i) tl.add_tag(k, v);
            }
        }
        buffer.commit();
        return finish(buffer, out, outcap, outlen);
    } catch (const osmium::buffer_is_full&) { return -1; }
}

ENTRY int verif_changeset(unsigned cap, int mode, unsigned id, const char* user, unsigned ulen, unsigned ncomments, const char* cuser, const char* text,
                          unsigned ntags, const char* k, const char* v, unsigned char* out, unsigned outcap, unsigned* outlen) {
    try {
        Buffer buffer{cap, static_cast<Buffer::auto_grow>(mode)};
        {
            builder::ChangesetBuilder cb{buffer};
            cb.set_id(id).set_uid(5).set_num_changes(8).set_created_at(Timestamp{uint32_t(100)}).set_closed_at(Timestamp{uint32_t(200)});
            cb.set_user(user, static_cast<string_size_type>(ulen));
            if (ntags) {
                builder::TagListBuilder tl{cb};
                for (unsigned i = 0; i < ntags; ++i) tl.add_tag(k, v);
            }
            if (ncomments) {
                cb.set_num_comments(ncomments);
                builder::ChangesetDiscussionBuilder db{cb};
                for (unsigned i = 0; i < ncomments; ++i) {
                    db.add_comment(Timestamp{uint32_t(50 + i)}, 30 + i, cuser);
                    db.add_comment_text(text);
                }
            }
        }
        buffer.commit();
        return finish(buffer, out, outcap, outlen);
    } catch (const osmium::buffer_is_full&) { return -1; }
}

// node A committed, node B built but rolled back, node C committed
ENTRY int verif_rollback(unsigned cap, int mode, const long* ids, const char* user, unsigned ulen, unsigned char* out, unsigned outcap, unsigned* outlen) {
    try {
        Buffer buffer{cap, static_cast<Buffer::auto_grow>(mode)};
        add_node(buffer, ids[0], user, ulen, 1, "k", "v");
        {
            builder::NodeBuilder nb{buffer};
            nb.set_id(ids[1]);
            nb.set_user(user, static_cast<string_size_type>(ulen));
        }
        buffer.rollback();
        add_node(buffer, ids[2], user, ulen, 0, "", "");
        return finish(buffer, out, outcap, outlen);
    } catch (const osmium::buffer_is_full&) { return -1; }
}

struct MoveLog {
    unsigned long* log; unsigned n = 0; unsigned cap;
    void moving_in_buffer(std::size_t old_offset, std::size_t new_offset) { if (n + 2 <= cap) { log[n] = old_offset; log[n + 1] = new_offset; } n += 2; }
};

// `count` nodes (ids[i], user lengths ulen+i), removed where bit i of `removed_mask` is set, then purge_removed with a logging callback.
// offsets[] receives the offset of every node before the purge.
ENTRY int verif_purge(unsigned cap, unsigned count, const long* ids, const char* user, unsigned ulen, unsigned removed_mask, int with_callback,
                      unsigned long* offsets, unsigned long* movelog, unsigned movecap, unsigned* nmoves, unsigned char* out, unsigned outcap, unsigned* outlen) {
    Buffer buffer{cap, Buffer::auto_grow::yes};
    for (unsigned i = 0; i < count; ++i) { offsets[i] = buffer.committed(); add_node(buffer, ids[i], user, ulen + i, i & 1, "k", "v"); }
    offsets[count] = buffer.committed();
    unsigned i = 0;
    for (auto& item : buffer) { if (removed_mask & (1U << i)) item.set_removed(true); ++i; }
    MoveLog ml{movelog, 0, movecap};
    if (with_callback) buffer.purge_removed(&ml); else buffer.purge_removed();
    *nmoves = ml.n;
    return finish(buffer, out, outcap, outlen);
}

// copy operations: add_buffer, push_back, add_item, swap, move construction / assignment
ENTRY int verif_copy(unsigned cap, int mode, int op, const long* ids, const char* user, unsigned ulen, unsigned char* out, unsigned outcap, unsigned* outlen) {
    try {
        Buffer src{256, Buffer::auto_grow::yes};
        add_node(src, ids[0], user, ulen, 1, "k", "v");
        add_node(src, ids[1], user, ulen, 0, "", "");
        Buffer dst{cap, static_cast<Buffer::auto_grow>(mode)};
        add_node(dst, ids[2], user, ulen, 0, "", "");
        switch (op) {
            case 0: dst.add_buffer(src); dst.commit(); break;
            case 1: for (const auto& item : src) dst.push_back(item); break;
            case 2: for (const auto& item : src) { dst.add_item(item); dst.commit(); } break;
            case 3: { using std::swap; swap(src, dst); } break;
            case 4: { Buffer moved{std::move(src)}; dst = std::move(moved); } break;
            case 5: dst.clear(); dst.add_buffer(src); dst.commit(); break;
            // the source holds an object that was built but not committed: only committed contents are copied / visited
            case 6: { builder::NodeBuilder nb{src}; nb.set_id(ids[2] + 1).set_user(user, static_cast<string_size_type>(ulen)); } dst.add_buffer(src); dst.commit(); break;
            case 7: { builder::NodeBuilder nb{src}; nb.set_id(ids[2] + 1).set_user(user, static_cast<string_size_type>(ulen)); } dst.add_buffer(src); dst.commit(); src.rollback(); dst.add_buffer(src); dst.commit(); break;
            case 8: { builder::NodeBuilder nb{src}; nb.set_id(ids[2] + 1).set_user(user, static_cast<string_size_type>(ulen)); } for (const auto& item : src) dst.push_back(item); break;
            default: return -3;
        }
        return finish(dst, out, outcap, outlen);
    } catch (const osmium::buffer_is_full&) { return -1; }
}

// ---------------------------------------------------------------- CallbackBuffer: ops 0 add a node and commit, 1 possibly_flush(), 2 flush(), 3 read()
// log: per hand-over [tag (1 callback, 2 read, 3 what is left at the end), number of nodes, ids...]; returns the number of log words
static long* g_cb_log; static unsigned g_cb_n, g_cb_cap;
static void cb_log(long v) { if (g_cb_n < g_cb_cap) g_cb_log[g_cb_n] = v; ++g_cb_n; }
static void cb_dump(long tag, const Buffer& b) {
    long n = 0; for (const auto& node : b.select<osmium::Node>()) { (void)node; ++n; }
    cb_log(tag); cb_log(n);
    for (const auto& node : b.select<osmium::Node>()) cb_log(node.id());
}
ENTRY unsigned verif_callback_buffer(const unsigned char* ops, unsigned nops, unsigned initial, unsigned maxsize, int with_callback, long* log, unsigned cap) {
    g_cb_log = log; g_cb_n = 0; g_cb_cap = cap;
    osmium::memory::CallbackBuffer cb{initial, maxsize};
    if (with_callback) cb.set_callback([](Buffer&& b) { cb_dump(1, b); });
    long id = 0;
    for (unsigned k = 0; k < nops; ++k) {
        switch (ops[k]) {
            case 0: { { builder::NodeBuilder nb{cb.buffer()}; nb.set_id(++id); nb.set_user(""); } cb.buffer().commit(); break; }
            case 1: cb.possibly_flush(); break;
            case 2: cb.flush(); break;
            default: { Buffer b = cb.read(); cb_dump(2, b); break; }
        }
    }
    cb_dump(3, cb.buffer());
    return g_cb_n;
}
