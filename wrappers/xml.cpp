// C03 (XML): the element callbacks of XMLParser driven directly with a scripted event list (expat itself is not encoded: it guarantees
// well-formedness, i.e. balanced start/end events, which is what the script generator respects)
#include <osmium/io/detail/xml_input_format.hpp>
#include <osmium/thread/pool.hpp>
#include <new>
#include <cstring>
#include "dump.hpp"
#define ENTRY extern "C" __attribute__((noinline))
using namespace osmium::io::detail;

static unsigned char* g_out; static unsigned g_outcap, g_outlen;
extern "C" __attribute__((noinline)) void verif_model_send(void*, osmium::memory::Buffer* b) {
    Dump d{g_out + g_outlen, g_outcap - g_outlen}; d.buffer_exact(*b); g_outlen += d.len;
}

static const char* g_chars = nullptr;    // three bytes of character data supplied by the harness: piece A = [0,2), piece B = [2,3)
ENTRY void verif_xml_chars(const char* c) { g_chars = c; }

// events: 1 <discussion>, 2 <comment date uid user>, 3 <text>, 4 character data (two bytes), 7 character data (one byte), 5 <tag k v>, 6 end of the innermost open element.
// The script runs inside <osm version="0.6"><changeset id="7" ...>; everything still open is closed at the end.
// rc 0 ok, 1 xml_error / format error, 2 other std::exception, 3 non-std exception
ENTRY int verif_xml_events(const unsigned char* ev, unsigned n, unsigned char* out, unsigned cap, unsigned* outlen) {
    g_out = out; g_outcap = cap; g_outlen = 0;
#ifdef VERIF_NATIVE
    // native replay: a really constructed parser on real queues; what it hands downstream is drained and traversed afterwards
    osmium::thread::Pool& pool = osmium::thread::Pool::default_instance();
    future_string_queue_type inq{0, "in"}; future_buffer_queue_type outq{0, "out"};
    std::promise<osmium::io::Header> header_promise; std::atomic<std::size_t> offset{0};
    parser_arguments args{pool, -1, inq, outq, header_promise, &offset, osmium::osm_entity_bits::all, osmium::io::read_meta::yes, osmium::io::buffers_type::any, false};
    XMLParser parser{args};
    XMLParser* p = &parser;
    struct Drain { future_buffer_queue_type& q; ~Drain() { while (q.size() > 0) { std::future<osmium::memory::Buffer> f; q.wait_and_pop(f); osmium::memory::Buffer b = f.get(); if (b) verif_model_send(nullptr, &b); } } };
#else
    struct Raw { alignas(XMLParser) unsigned char mem[sizeof(XMLParser)]; } raw; std::memset(raw.mem, 0, sizeof(raw.mem));
    auto* p = reinterpret_cast<XMLParser*>(raw.mem);
    new (&p->m_context_stack) std::vector<XMLParser::context>{};
    new (&p->m_header) osmium::io::Header{};
    new (&p->m_comment_text) std::string{};
    new (&p->m_buffer) osmium::memory::Buffer{2048, osmium::memory::Buffer::auto_grow::internal};
    p->m_buffers_kind = osmium::io::buffers_type::any;
    p->m_read_which_entities = osmium::osm_entity_bits::all;
    p->m_read_metadata = osmium::io::read_meta::yes;
    p->m_header_is_done = true;
#endif
    int rc = 0; unsigned depth = 0;
    static const char* no_attrs[] = {nullptr};
    static const char* osm_attrs[] = {"version", "0.6", nullptr};
    static const char* cs_attrs[] = {"id", "7", "uid", "3", "user", "u", nullptr};
    static const char* comment_attrs[] = {"date", "2015-01-01T00:00:00Z", "uid", "5", "user", "commenter", nullptr};
    static const char* tag_attrs[] = {"k", "key", "v", "value", nullptr};
    try {
        p->start_element("osm", osm_attrs);
        p->start_element("changeset", cs_attrs);
        for (unsigned i = 0; i < n; ++i) {
            switch (ev[i]) {
                case 1: p->start_element("discussion", no_attrs); ++depth; break;
                case 2: p->start_element("comment", comment_attrs); ++depth; break;
                case 3: p->start_element("text", no_attrs); ++depth; break;
                case 4: p->characters(g_chars ? g_chars : "xy", 2); break;
                case 7: p->characters(g_chars ? g_chars + 2 : "z", 1); break;
                case 5: p->start_element("tag", tag_attrs); ++depth; break;
                default: if (depth > 0) { p->end_element("x"); --depth; } break;
            }
        }
        while (depth > 0) { p->end_element("x"); --depth; }
        p->end_element("changeset");
        p->end_element("osm");
        p->flush_final_buffer();
    } catch (const osmium::xml_error&) { rc = 1; } catch (const osmium::format_version_error&) { rc = 1; } catch (const std::exception&) { rc = 2; } catch (...) { rc = 3; }
#ifdef VERIF_NATIVE
    { Drain d{outq}; }
#endif
    *outlen = g_outlen;
    return rc;
}

// ---------------------------------------------------------------- generic element script (C02 / C03: nodes, ways, relations, change sections, bounds)
// script bytes: 'S' name NUL nattrs (key NUL value NUL)* | 'E' | 'C' len bytes | 0.  Strings are used in place (pointers into the script), so bytes
// the harness left symbolic stay symbolic.  hdr: [number of header boxes, then per box bottom-left x, y, top-right x, y], multiple_object_versions flag at hdr[17]
ENTRY int verif_xml_script(const char* script, unsigned char* out, unsigned cap, unsigned* outlen, int* hdr) {
    g_out = out; g_outcap = cap; g_outlen = 0;
#ifdef VERIF_NATIVE
    osmium::thread::Pool& pool = osmium::thread::Pool::default_instance();
    future_string_queue_type inq{0, "in"}; future_buffer_queue_type outq{0, "out"};
    std::promise<osmium::io::Header> header_promise; std::atomic<std::size_t> offset{0};
    parser_arguments args{pool, -1, inq, outq, header_promise, &offset, osmium::osm_entity_bits::all, osmium::io::read_meta::yes, osmium::io::buffers_type::any, false};
    XMLParser parser{args};
    XMLParser* p = &parser;
    struct Drain { future_buffer_queue_type& q; ~Drain() { while (q.size() > 0) { std::future<osmium::memory::Buffer> f; q.wait_and_pop(f); osmium::memory::Buffer b = f.get(); if (b) verif_model_send(nullptr, &b); } } };
#else
    struct Raw { alignas(XMLParser) unsigned char mem[sizeof(XMLParser)]; } raw; std::memset(raw.mem, 0, sizeof(raw.mem));
    auto* p = reinterpret_cast<XMLParser*>(raw.mem);
    new (&p->m_context_stack) std::vector<XMLParser::context>{};
    new (&p->m_header) osmium::io::Header{};
    new (&p->m_comment_text) std::string{};
    new (&p->m_buffer) osmium::memory::Buffer{2048, osmium::memory::Buffer::auto_grow::internal};
    p->m_buffers_kind = osmium::io::buffers_type::any;
    p->m_read_which_entities = osmium::osm_entity_bits::all;
    p->m_read_metadata = osmium::io::read_meta::yes;
    p->m_header_is_done = true;
#endif
    int rc = 0;
    try {
        const char* s = script;
        while (*s) {
            const char op = *s++;
            if (op == 'S') {
                const char* name = s; s += std::strlen(s) + 1;
                const unsigned na = static_cast<unsigned char>(*s++);
                const char* attrs[2 * 12 + 1];
                unsigned k = 0;
                for (unsigned i = 0; i < na && i < 12; ++i) { attrs[k++] = s; s += std::strlen(s) + 1; attrs[k++] = s; s += std::strlen(s) + 1; }
                attrs[k] = nullptr;
                p->start_element(name, attrs);
            } else if (op == 'E') {
                p->end_element("x");
            } else if (op == 'C') {
                const unsigned n = static_cast<unsigned char>(*s++);
                p->characters(s, static_cast<int>(n)); s += n;
            } else break;
        }
        p->flush_final_buffer();
    } catch (const osmium::xml_error&) { rc = 1; } catch (const osmium::format_version_error&) { rc = 1; } catch (const std::exception&) { rc = 2; } catch (...) { rc = 3; }
#ifdef VERIF_NATIVE
    { Drain d{outq}; }
#endif
    const auto& boxes = p->m_header.boxes();
    hdr[0] = static_cast<int>(boxes.size());
    for (unsigned i = 0; i < boxes.size() && i < 4; ++i) {
        hdr[1 + 4 * i] = boxes[i].bottom_left().x(); hdr[2 + 4 * i] = boxes[i].bottom_left().y(); hdr[3 + 4 * i] = boxes[i].top_right().x(); hdr[4 + 4 * i] = boxes[i].top_right().y();
    }
    hdr[17] = p->m_header.has_multiple_object_versions() ? 1 : 0;
    *outlen = g_outlen;
    return rc;
}
