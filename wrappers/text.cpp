// C13: text conversions of coordinates, timestamps and integer attributes (thin entry points; no library logic here)
#include <osmium/osm/location.hpp>
#include <osmium/osm/timestamp.hpp>
#include <osmium/osm/types_from_string.hpp>
#include <osmium/io/detail/opl_parser_functions.hpp>
#include <osmium/util/misc.hpp>
#include <cstring>
#define ENTRY extern "C" __attribute__((noinline))

ENTRY int verif_parse_coord(const char* s, int* consumed, int* out) {
    const char* p = s;
    try {
        *out = osmium::detail::string_to_location_coordinate(&p);
        *consumed = static_cast<int>(p - s);
        return 0;
    } catch (const osmium::invalid_location&) {
        return 1;
    }
}

ENTRY int verif_format_coord(char* buf, int value) {
    char* e = osmium::detail::append_location_coordinate_to_string(buf, value);
    return static_cast<int>(e - buf);
}

// Location::set_lon / set_lat: whole string must be consumed
ENTRY int verif_set_lon(const char* s, int* out) {
    osmium::Location l;
    try { l.set_lon(s); *out = l.x(); return 0; } catch (const osmium::invalid_location&) { return 1; }
}

ENTRY int verif_set_lon_partial(const char* s, int* consumed, int* out) {
    osmium::Location l; const char* p = s;
    try { l.set_lon_partial(&p); *out = l.x(); *consumed = static_cast<int>(p - s); return 0; } catch (const osmium::invalid_location&) { return 1; }
}
