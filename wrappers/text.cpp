// C13: text conversions of coordinates, timestamps and integer attributes (thin entry points; no library logic here)
#include <osmium/osm/location.hpp>
#include <osmium/osm/timestamp.hpp>
#include <osmium/osm/types_from_string.hpp>
#include <osmium/io/detail/opl_parser_functions.hpp>
#include <osmium/util/misc.hpp>
#include <cstring>
#define ENTRY extern "C" __attribute__((noinline))

ENTRY int verif_parse_coord(const char* s, int* consumed, int* out) {
    const char* p = s;
    try {
        *out = osmium::detail::string_to_location_coordinate(&p);
        *consumed = static_cast<int>(p - s);
        return 0;
    } catch (const osmium::invalid_location&) {
        return 1;
    }
}

ENTRY int verif_format_coord(char* buf, int value) {
    char* e = osmium::detail::append_location_coordinate_to_string(buf, value);
    return static_cast<int>(e - buf);
}

// Location::set_lon / set_lat: whole string must be consumed
ENTRY int verif_set_lon(const char* s, int* out) {
    osmium::Location l;
    try { l.set_lon(s); *out = l.x(); return 0; } catch (const osmium::invalid_location&) { return 1; }
}

ENTRY int verif_set_lon_partial(const char* s, int* consumed, int* out) {
    osmium::Location l; const char* p = s;
    try { l.set_lon_partial(&p); *out = l.x(); *consumed = static_cast<int>(p - s); return 0; } catch (const osmium::invalid_location&) { return 1; }
}

// ---- timestamps
// rc 0: *out = seconds since epoch as time_t, *consumed = bytes consumed; 1: std::invalid_argument
ENTRY int verif_parse_timestamp(const char* s, long* out, int* consumed) {
    const char* p = s;
    try { *out = static_cast<long>(osmium::detail::parse_timestamp(&p)); *consumed = static_cast<int>(p - s); return 0; }
    catch (const std::invalid_argument&) { return 1; }
}

// ISO text of a timestamp (always formatted, also for 0); returns the length
ENTRY int verif_iso(unsigned t, char* out, unsigned cap) {
    const std::string s = osmium::Timestamp{t}.to_iso_all();
    if (s.size() + 1 > cap) return -1;
    std::memcpy(out, s.c_str(), s.size() + 1);
    return static_cast<int>(s.size());
}

// Timestamp(const char*) -> uint32 and back through to_iso(): used for the unset timestamp
ENTRY int verif_iso_unset(char* out) {
    const std::string s = osmium::Timestamp{}.to_iso();
    std::memcpy(out, s.c_str(), s.size() + 1);
    return static_cast<int>(s.size());
}
