// C13: text conversions of coordinates, timestamps and integer attributes (thin entry points; no library logic here)
#include <osmium/osm/location.hpp>
#include <osmium/osm/timestamp.hpp>
#include <osmium/osm/types_from_string.hpp>
#include <osmium/io/detail/opl_parser_functions.hpp>
#include <osmium/util/misc.hpp>
#include <cstring>
#define ENTRY extern "C" __attribute__((noinline))

ENTRY int verif_parse_coord(const char* s, int* consumed, int* out) {
    const char* p = s;
    try {
        *out = osmium::detail::string_to_location_coordinate(&p);
        *consumed = static_cast<int>(p - s);
        return 0;
    } catch (const osmium::invalid_location&) {
        return 1;
    }
}

ENTRY int verif_format_coord(char* buf, int value) {
    char* e = osmium::detail::append_location_coordinate_to_string(buf, value);
    return static_cast<int>(e - buf);
}

// Location::set_lon / set_lat: whole string must be consumed
ENTRY int verif_set_lon(const char* s, int* out) {
    osmium::Location l;
    try { l.set_lon(s); *out = l.x(); return 0; } catch (const osmium::invalid_location&) { return 1; }
}

ENTRY int verif_set_lon_partial(const char* s, int* consumed, int* out) {
    osmium::Location l; const char* p = s;
    try { l.set_lon_partial(&p); *out = l.x(); *consumed = static_cast<int>(p - s); return 0; } catch (const osmium::invalid_location&) { return 1; }
}

// ---- timestamps
// rc 0: *out = seconds since epoch as time_t, *consumed = bytes consumed; 1: std::invalid_argument
ENTRY int verif_parse_timestamp(const char* s, long* out, int* consumed) {
    const char* p = s;
    try { *out = static_cast<long>(osmium::detail::parse_timestamp(&p)); *consumed = static_cast<int>(p - s); return 0; }
    catch (const std::invalid_argument&) { return 1; }
}

// ISO text of a timestamp (always formatted, also for 0); returns the length
ENTRY int verif_iso(unsigned t, char* out, unsigned cap) {
    const std::string s = osmium::Timestamp{t}.to_iso_all();
    if (s.size() + 1 > cap) return -1;
    std::memcpy(out, s.c_str(), s.size() + 1);
    return static_cast<int>(s.size());
}

// Timestamp(const char*) -> uint32 and back through to_iso(): used for the unset timestamp
ENTRY int verif_iso_unset(char* out) {
    const std::string s = osmium::Timestamp{}.to_iso();
    std::memcpy(out, s.c_str(), s.size() + 1);
    return static_cast<int>(s.size());
}

// ---- integer attributes
// kind: 0 object_id_type (int64), 1 changeset_id_type (uint32), 2 object_version_type (uint32), 3 user_id_type (uint32), 4 int32
// rc 0: *out = value, *consumed; 1 opl_error
ENTRY int verif_opl_int(int kind, const char* s, long* out, int* consumed) {
    const char* p = s;
    try {
        switch (kind) {
            case 0: *out = osmium::io::detail::opl_parse_int<osmium::object_id_type>(&p); break;
            case 1: *out = static_cast<long>(osmium::io::detail::opl_parse_int<osmium::changeset_id_type>(&p)); break;
            case 2: *out = static_cast<long>(osmium::io::detail::opl_parse_int<osmium::object_version_type>(&p)); break;
            case 3: *out = static_cast<long>(osmium::io::detail::opl_parse_int<osmium::user_id_type>(&p)); break;
            default: *out = osmium::io::detail::opl_parse_int<int32_t>(&p); break;
        }
        *consumed = static_cast<int>(p - s);
        return 0;
    } catch (const osmium::opl_error&) { return 1; }
}

// what: 0 string_to_object_id, 1 string_to_object_version / changeset_id / uid (detail::string_to_ulong).  rc 0 value, 1 std::range_error
ENTRY int verif_string_to_number(int what, const char* s, long* out) {
    try {
        if (what == 0) *out = osmium::string_to_object_id(s);
        else *out = static_cast<long>(osmium::detail::string_to_ulong(s, "value"));
        return 0;
    } catch (const std::range_error&) { return 1; }
}
