// C14: text escaping (OPL, XML, debug) and the OPL string parser
#include <osmium/io/detail/string_util.hpp>
#include <osmium/io/detail/opl_parser_functions.hpp>
#include <cstring>
#include <string>
#define ENTRY extern "C" __attribute__((noinline))
using namespace osmium::io::detail;

static int copy_out(const std::string& s, char* out, unsigned cap, unsigned* len) {
    if (s.size() + 1 > cap) return 9;
    std::memcpy(out, s.c_str(), s.size() + 1); *len = static_cast<unsigned>(s.size());
    return 0;
}

// kind: 0 OPL (append_utf8_encoded_string), 1 XML, 2 debug.  rc: 0 ok, 1 out_of_range, 2 runtime_error, 3 other std::exception, 9 output too long
ENTRY int verif_escape(int kind, const char* in, char* out, unsigned cap, unsigned* len) {
    std::string e;
    try {
        if (kind == 0) append_utf8_encoded_string(e, in);
        else if (kind == 1) append_xml_encoded_string(e, in);
        else append_debug_encoded_string(e, in, "[", "]");
    } catch (const std::out_of_range&) { return 1;
    } catch (const std::runtime_error&) { return 2;
    } catch (const std::exception&) { return 3; }
    return copy_out(e, out, cap, len);
}

// rc: 0 ok (rest = number of unconsumed bytes), 1 opl_error, 3 other exception
ENTRY int verif_opl_parse_string(const char* in, char* out, unsigned cap, unsigned* len, unsigned* consumed) {
    std::string r; const char* p = in;
    try { opl_parse_string(&p, r); } catch (const osmium::opl_error&) { return 1; } catch (const std::exception&) { return 3; }
    *consumed = static_cast<unsigned>(p - in);
    return copy_out(r, out, cap, len);
}
