// C06 (and the o5m parts of C02/C03): parsers driven chunk by chunk.
// Symbolic build: the parser object is partially constructed in zeroed storage and the two boundary
// functions (queue_wrapper<std::string>::pop, add_to_queue<Buffer>) are replaced by the models below
// (installed as overrides by symbol).  Native build (-DVERIF_NATIVE): the parser is built by its real
// constructor on real queues / futures / promise and the same kernel functions are called in this thread.
#include <osmium/io/detail/opl_input_format.hpp>
#include <osmium/io/detail/o5m_input_format.hpp>
#include <osmium/io/detail/pbf_input_format.hpp>
#include <osmium/thread/pool.hpp>
#include <new>
#include "dump.hpp"
#include <cstring>
#define ENTRY extern "C" __attribute__((noinline))
static int g_read_meta = 1;
ENTRY void verif_set_read_meta(int v) { g_read_meta = v; }      // read_meta::yes (default) or ::no for the parsers driven below
using namespace osmium::io::detail;

// ---------------------------------------------------------------- environment
static const char* g_data; static unsigned g_len, g_pos, g_ncuts, g_ci; static const unsigned* g_cuts;
static unsigned char* g_out; static unsigned g_outcap, g_outlen;

static void env_init(const char* data, unsigned len, const unsigned* cuts, unsigned ncuts, unsigned char* out, unsigned outcap) {
    g_data = data; g_len = len; g_pos = 0; g_cuts = cuts; g_ncuts = ncuts; g_ci = 0; g_out = out; g_outcap = outcap; g_outlen = 0;
}

static void record(const void* p, std::size_t n) {
    if (g_outlen + n > g_outcap) n = g_outcap - g_outlen;
    std::memcpy(g_out + g_outlen, p, n); g_outlen += static_cast<unsigned>(n);
}

static std::string next_chunk() {
    if (g_pos >= g_len) return std::string{};
    unsigned end = (g_ci < g_ncuts) ? g_cuts[g_ci++] : g_len;
    std::string s(g_data + g_pos, end - g_pos); g_pos = end;
    return s;
}

extern "C" {
// model of queue_wrapper<std::string>::pop(): next chunk of the harness's chunk list, then end-of-data and queue no longer in use
__attribute__((noinline)) void verif_model_pop(std::string* ret, queue_wrapper<std::string>* self) {
    new (ret) std::string{};
    if (!self->m_queue.m_in_use) return;
    *ret = next_chunk();
    if (ret->empty()) self->m_queue.m_in_use = false;
}
// model of add_to_queue<Buffer>(queue, Buffer&&): record the committed bytes handed downstream
static int g_summary = 0;      // 1: record (buffer marker, then type and id of every entity) instead of the raw bytes
static void record_buffer(const osmium::memory::Buffer& b) {
    if (!g_summary) { record(b.data(), b.committed()); return; }
    if (g_summary == 2) { Dump d{g_out + g_outlen, g_outcap - g_outlen}; d.buffer_exact(b); g_outlen += d.len; return; }      // complete traversal of every delivered object
    const unsigned long mark = 0xb0fUL; record(&mark, 8);
    for (const auto& item : b) {
        const unsigned long t = static_cast<unsigned long>(item.type()); record(&t, 8);
        const long id = (item.type() == osmium::item_type::changeset) ? static_cast<long>(static_cast<const osmium::Changeset&>(item).id()) : static_cast<const osmium::OSMObject&>(item).id();
        record(&id, 8);
    }
}
__attribute__((noinline)) void verif_model_send(void*, osmium::memory::Buffer* b) {
    record_buffer(*b);
}
}

#ifdef VERIF_NATIVE
struct NativeEnv {
    osmium::thread::Pool& pool = osmium::thread::Pool::default_instance();
    future_string_queue_type inq{0, "in"};
    future_buffer_queue_type outq{0, "out"};
    std::promise<osmium::io::Header> header_promise;
    std::atomic<std::size_t> offset{0};
    parser_arguments args{pool, -1, inq, outq, header_promise, &offset, osmium::osm_entity_bits::all, g_read_meta ? osmium::io::read_meta::yes : osmium::io::read_meta::no, osmium::io::buffers_type::any, false};
    NativeEnv() {
        for (;;) { std::string c = next_chunk(); if (c.empty()) break; add_to_queue(inq, std::move(c)); }
        add_end_of_data_to_queue(inq);
    }
    void drain() {
        while (outq.size() > 0) {
            std::future<osmium::memory::Buffer> f; outq.wait_and_pop(f);
            osmium::memory::Buffer b = f.get();
            if (b) record_buffer(b);
        }
    }
};
#else
using SQ = osmium::thread::Queue<std::future<std::string>>;
struct RawQ { alignas(SQ) unsigned char mem[sizeof(SQ)]; };
static SQ* raw_queue(RawQ& r) {
    std::memset(r.mem, 0, sizeof(r.mem));
    auto* q = reinterpret_cast<SQ*>(r.mem);
    new (&q->m_in_use) std::atomic<bool>{true};
    return q;
}
#endif

// ---------------------------------------------------------------- OPL: line_by_line with a recording worker
struct LineWorker {
    bool done = false;
    bool input_done() const { return done; }
    std::string get_input() { std::string s = next_chunk(); if (s.empty()) done = true; return s; }
    void parse_line(const char* l) { record(l, std::strlen(l)); record("|", 1); }
};

ENTRY unsigned verif_lines(const char* data, unsigned len, const unsigned* cuts, unsigned ncuts, unsigned char* log, unsigned logcap) {
    env_init(data, len, cuts, ncuts, log, logcap);
    LineWorker w;
    try { line_by_line(w); } catch (const std::exception&) { record("<EXC>", 5); }
    return g_outlen;
}

// ---------------------------------------------------------------- o5m: decode_header + decode_data with all real per-type decoders
// rc: 0 ok, 1 o5m_error, 2 other std::exception
ENTRY int verif_o5m_run(const char* data, unsigned len, const unsigned* cuts, unsigned ncuts, unsigned char* out, unsigned outcap, unsigned* outlen) {
    env_init(data, len, cuts, ncuts, out, outcap);
    int rc = 0;
#ifdef VERIF_NATIVE
    NativeEnv env;
    O5mParser parser{env.args};
    O5mParser* p = &parser;
#else
    struct Raw { alignas(O5mParser) unsigned char mem[sizeof(O5mParser)]; } raw; std::memset(raw.mem, 0, sizeof(raw.mem));
    auto* p = reinterpret_cast<O5mParser*>(raw.mem);
    RawQ rq; SQ* q = raw_queue(rq);
    new (&p->m_input_queue) queue_wrapper<std::string>{*q};
    new (&p->m_input) std::string{};
    new (&p->m_reference_table) ReferenceTable{};
    new (&p->m_header) osmium::io::Header{};
    new (&p->m_buffer) osmium::memory::Buffer{1024, osmium::memory::Buffer::auto_grow::internal};
    p->m_buffers_kind = osmium::io::buffers_type::any;
    p->m_read_which_entities = osmium::osm_entity_bits::all;
    p->m_read_metadata = g_read_meta ? osmium::io::read_meta::yes : osmium::io::read_meta::no;
    p->m_header_is_done = true;                 // the header promise is outside the unit
    p->m_data = p->m_input.data(); p->m_end = p->m_data;
#endif
    try { p->decode_header(); p->decode_data(); } catch (const osmium::o5m_error&) { rc = 1; } catch (const std::exception&) { rc = 2; }
#ifdef VERIF_NATIVE
    env.drain();
#endif
    *outlen = g_outlen;
    return rc;
}

// ---------------------------------------------------------------- PBF: blob framing (length prefix, BlobHeader, blob bytes) over the input queue
// records, per blob, its size (4 bytes LE) and its bytes.  rc: 0 ok (EOF), 1 pbf_error, 2 other exception
ENTRY int verif_pbf_frames(const char* data, unsigned len, const unsigned* cuts, unsigned ncuts, unsigned char* out, unsigned outcap, unsigned* outlen) {
    env_init(data, len, cuts, ncuts, out, outcap);
    int rc = 0;
#ifdef VERIF_NATIVE
    NativeEnv env;
    PBFParser parser{env.args};
    PBFParser* p = &parser;
#else
    struct Raw { alignas(PBFParser) unsigned char mem[sizeof(PBFParser)]; } raw; std::memset(raw.mem, 0, sizeof(raw.mem));
    auto* p = reinterpret_cast<PBFParser*>(raw.mem);
    RawQ rq; SQ* q = raw_queue(rq);
    new (&p->m_input_queue) queue_wrapper<std::string>{*q};
    new (&p->m_input_buffer) std::string{};
    p->m_fd = -1;
#endif
    try {
        // the loop of PBFParser::parse_data_blobs() without the blob decoder
        while (const auto size = p->check_type_and_get_blob_size("OSMData")) {
            std::string blob{p->read_from_input_queue_with_check(size)};
            const unsigned n = static_cast<unsigned>(blob.size());
            record(&n, 4); record(blob.data(), blob.size());
        }
    } catch (const osmium::pbf_error&) { rc = 1; } catch (const std::exception&) { rc = 2; }
    *outlen = g_outlen;
    return rc;
}

// ---------------------------------------------------------------- OPL: the whole parser (line splitting, opl_parse_line, buffer hand-over) for C05
// mask: entity bits to read; single: buffers_type::single.  Output: per delivered buffer a marker word, then (type, id) of every entity.
// rc 0 ok, 1 opl_error, 2 other
ENTRY int verif_opl_run(const char* data, unsigned len, const unsigned* cuts, unsigned ncuts, unsigned mask, int single, unsigned char* out, unsigned outcap, unsigned* outlen) {
    env_init(data, len, cuts, ncuts, out, outcap);
    g_summary = 1;
    int rc = 0;
#ifdef VERIF_NATIVE
    NativeEnv env;
    env.args.read_which_entities = static_cast<osmium::osm_entity_bits::type>(mask);
    env.args.buffers_kind = single ? osmium::io::buffers_type::single : osmium::io::buffers_type::any;
    OPLParser parser{env.args};
    OPLParser* p = &parser;
#else
    struct Raw { alignas(OPLParser) unsigned char mem[sizeof(OPLParser)]; } raw; std::memset(raw.mem, 0, sizeof(raw.mem));
    auto* p = reinterpret_cast<OPLParser*>(raw.mem);
    RawQ rq; SQ* q = raw_queue(rq);
    new (&p->m_input_queue) queue_wrapper<std::string>{*q};
    new (&p->m_buffer) osmium::memory::Buffer{256, osmium::memory::Buffer::auto_grow::internal};
    p->m_buffers_kind = single ? osmium::io::buffers_type::single : osmium::io::buffers_type::any;
    p->m_last_type = osmium::item_type::undefined;
    p->m_read_which_entities = static_cast<osmium::osm_entity_bits::type>(mask);
    p->m_read_metadata = g_read_meta ? osmium::io::read_meta::yes : osmium::io::read_meta::no;
    p->m_header_is_done = true;
    p->m_line_count = 0;
#endif
    try { line_by_line(*p); p->flush_final_buffer(); } catch (const osmium::opl_error&) { rc = 1; } catch (const std::exception&) { rc = 2; }
#ifdef VERIF_NATIVE
    env.drain();
#endif
    g_summary = 0;
    *outlen = g_outlen;
    return rc;
}

// selects what the models hand to the harness: 0 raw committed bytes, 1 (type, id) summary, 2 complete traversal dump
ENTRY void verif_set_summary(int mode) { g_summary = mode; }
