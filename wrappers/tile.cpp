// C18: tile arithmetic (translated to C by ir2c and checked by cbmc; floating point stays floating point)
#include <osmium/geom/tile.hpp>
#include <osmium/geom/mercator_projection.hpp>
extern "C" {
__attribute__((noinline)) unsigned verif_tilex(unsigned zoom, double x) { return osmium::geom::mercx_to_tilex(zoom, x); }
__attribute__((noinline)) unsigned verif_tiley(unsigned zoom, double y) { return osmium::geom::mercy_to_tiley(zoom, y); }
__attribute__((noinline)) double verif_lon_to_x(int lon_fix) { return osmium::geom::detail::lon_to_x(osmium::Location::fix_to_double(lon_fix)); }
__attribute__((noinline)) void verif_tile_of_coordinates(unsigned zoom, double x, double y, unsigned* out) {
    const osmium::geom::Tile t{zoom, osmium::geom::Coordinates{x, y}};
    out[0] = t.x; out[1] = t.y; out[2] = t.z;
}
}
