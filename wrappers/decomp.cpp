// C09: the bzip2 decompressor wrappers against an abstract model of libbz2 + stdio (symbolic build) / the real libraries (native build).
// Model: the file is a list of streams; stream i has csize[i] >= 1 compressed bytes and psize[i] payload bytes, all equal to 'a' + i.
// stdio keeps a position and an EOF indicator (set by a short fread or by fgetc at the end, cleared by ungetc); libbz2 reads ahead in
// blocks of `readahead` bytes (BZ_MAX_UNUSED = 5000 in the real library), peeks with fgetc/ungetc like its myfeof(), produces a stream's
// payload once its compressed bytes are consumed, reports BZ_STREAM_END at the end of each stream and keeps the bytes read past it as "unused".
#include <osmium/io/bzip2_compression.hpp>
#include <osmium/io/gzip_compression.hpp>
#include <cstring>
#define ENTRY extern "C" __attribute__((noinline))

#ifndef VERIF_NATIVE
extern "C" void verif_assume(int cond);
static unsigned g_nstreams; static const unsigned* g_csize; static const unsigned* g_psize; static unsigned g_total, g_readahead;
struct MFile { unsigned pos; int eof; int open; }; static MFile g_file;
struct MBz { unsigned abs_in; unsigned avail_in; unsigned produced; int finished; int open; unsigned unused_start; };   // abs_in: file offset of the next compressed byte to consume
static MBz g_bz[8]; static unsigned g_nbz; static char g_unusedbuf[8];

static unsigned stream_at(unsigned abs, unsigned* start) { unsigned s = 0, off = 0; while (s < g_nstreams && abs >= off + g_csize[s]) { off += g_csize[s]; ++s; } *start = off; return s; }

extern "C" {
FILE* fdopen(int, const char*) { g_file.pos = 0; g_file.eof = 0; g_file.open = 1; return reinterpret_cast<FILE*>(&g_file); }
int fclose(FILE*) { g_file.open = 0; return 0; }
int feof(FILE*) noexcept { return g_file.eof; }
long ftell(FILE*) { return g_file.pos; }
int fileno(FILE*) noexcept { return 7; }
int fgetc(FILE*) { if (g_file.pos >= g_total) { g_file.eof = 1; return EOF; } ++g_file.pos; return 'x'; }
int ungetc(int c, FILE*) { --g_file.pos; g_file.eof = 0; return c; }
static unsigned model_fread(unsigned n) { unsigned k = g_total - g_file.pos; if (k > n) k = n; g_file.pos += k; if (k < n) g_file.eof = 1; return k; }
static int model_myfeof() { if (g_file.pos >= g_total) { g_file.eof = 1; return 1; } return 0; }      // fgetc + ungetc peek of libbz2

BZFILE* BZ2_bzReadOpen(int* bzerror, FILE*, int, int, void* unused, int nUnused) {
    verif_assume(g_nbz < 8);
    MBz* b = &g_bz[g_nbz++];
    // the unused bytes handed over are, by construction of the callers, the bytes just before the current file position
    b->avail_in = static_cast<unsigned>(nUnused); b->abs_in = g_file.pos - b->avail_in; b->produced = 0; b->finished = 0; b->open = 1;
    (void)unused; *bzerror = BZ_OK; return reinterpret_cast<BZFILE*>(b);
}
void BZ2_bzReadClose(int* bzerror, BZFILE* h) { reinterpret_cast<MBz*>(h)->open = 0; *bzerror = BZ_OK; }
void BZ2_bzReadGetUnused(int* bzerror, BZFILE* h, void** unused, int* nUnused) {
    MBz* b = reinterpret_cast<MBz*>(h);
    if (!b->finished) { *bzerror = BZ_SEQUENCE_ERROR; return; }
    *unused = g_unusedbuf; *nUnused = static_cast<int>(b->avail_in); *bzerror = BZ_OK;
}
int BZ2_bzRead(int* bzerror, BZFILE* h, void* buf, int len) {
    MBz* b = reinterpret_cast<MBz*>(h);
    if (b->finished) { *bzerror = BZ_SEQUENCE_ERROR; return 0; }
    unsigned out = 0;
    for (unsigned guard = 0; guard < 64; ++guard) {
        if (b->avail_in == 0 && !model_myfeof()) b->avail_in = model_fread(g_readahead);
        unsigned start; const unsigned s = stream_at(b->abs_in, &start);
        if (s < g_nstreams) {
            // consume compressed bytes of stream s
            const unsigned need = start + g_csize[s] - b->abs_in;
            const unsigned k = b->avail_in < need ? b->avail_in : need;
            b->abs_in += k; b->avail_in -= k;
            if (k == need) {        // stream complete: its payload can be produced
                const unsigned room = static_cast<unsigned>(len) - out, left = g_psize[s] - b->produced;
                const unsigned n = left < room ? left : room;
                std::memset(static_cast<char*>(buf) + out, 'a' + static_cast<int>(s), n); out += n; b->produced += n;
                if (b->produced == g_psize[s]) { b->finished = 1; *bzerror = BZ_STREAM_END; return static_cast<int>(out); }
                b->abs_in -= 0;
                if (out == static_cast<unsigned>(len)) { b->abs_in -= k; b->avail_in += k; *bzerror = BZ_OK; return len; }   // output full: stay at the end of this stream's input
            }
        }
        if (b->avail_in == 0 && model_myfeof()) { *bzerror = (s >= g_nstreams && b->abs_in == g_total && false) ? BZ_OK : BZ_UNEXPECTED_EOF; return 0; }
    }
    verif_assume(0); *bzerror = BZ_IO_ERROR; return 0;
}
const char* BZ2_bzerror(BZFILE*, int* errnum) { *errnum = 0; return "model"; }

// ---- in-memory interfaces: the same abstract streams; the position in the input is next_in relative to the start of the buffer
static const char* g_membuf; static unsigned g_mem_produced; static int g_mem_done;
// stall_code: what the library returns when it is called with no input left in the middle of a stream and cannot make progress
// (libbz2: BZ_OK -- it just waits for more input; zlib: Z_BUF_ERROR).  A call that still consumes input returns ok_code in both libraries.
static int mem_decode(const char** next_in, unsigned* avail_in, char** next_out, unsigned* avail_out, int end_code, int ok_code, int eof_code, int stall_code) {
    if (g_mem_done) return eof_code;                         // calling again after the end of a stream without re-initialising is a sequence error
    for (unsigned guard = 0; guard < 64; ++guard) {
        const unsigned abs = static_cast<unsigned>(*next_in - g_membuf);
        unsigned start; const unsigned s = stream_at(abs, &start);
        if (s >= g_nstreams) return eof_code;
        const unsigned need = start + g_csize[s] - abs;
        if (*avail_in < need) {                              // input ends inside a stream: everything is consumed, nothing (more) can be produced
            const bool progress = *avail_in > 0;
            *next_in += *avail_in; *avail_in = 0;
            return progress ? ok_code : stall_code;
        }
        const unsigned left = g_psize[s] - g_mem_produced; const unsigned n = left < *avail_out ? left : *avail_out;
        std::memset(*next_out, 'a' + static_cast<int>(s), n); *next_out += n; *avail_out -= n; g_mem_produced += n;
        if (g_mem_produced == g_psize[s]) { *next_in += need; *avail_in -= need; g_mem_produced = 0; g_mem_done = 1; return end_code; }
        return ok_code;                                      // output buffer full
    }
    return eof_code;
}
int BZ2_bzDecompressInit(bz_stream*, int, int) { g_mem_done = 0; g_mem_produced = 0; return BZ_OK; }
int BZ2_bzDecompressEnd(bz_stream*) { return BZ_OK; }
int BZ2_bzDecompress(bz_stream* st) {
    const char* in = st->next_in; const int r = mem_decode(&in, &st->avail_in, &st->next_out, &st->avail_out, BZ_STREAM_END, BZ_OK, BZ_DATA_ERROR, BZ_OK);
    st->next_in = const_cast<char*>(in); return r;
}
int inflateInit2_(z_streamp, int, const char*, int) { g_mem_done = 0; g_mem_produced = 0; return Z_OK; }
int inflateEnd(z_streamp) { return Z_OK; }
int inflateReset(z_streamp) { g_mem_done = 0; g_mem_produced = 0; return Z_OK; }
int inflate(z_streamp st, int) {
    const char* in = reinterpret_cast<const char*>(st->next_in); char* out = reinterpret_cast<char*>(st->next_out);
    const int r = mem_decode(&in, &st->avail_in, &out, &st->avail_out, Z_STREAM_END, Z_OK, Z_BUF_ERROR, Z_BUF_ERROR);
    st->next_in = reinterpret_cast<unsigned char*>(const_cast<char*>(in)); st->next_out = reinterpret_cast<unsigned char*>(out); return r;
}
}
#endif

// runs the decompressor to the end.  Output: run-length encoding (byte, count as 4 bytes LE) of everything read() returned; *nreads = number of
// non-empty read() results.  rc 0 ok, 1 bzip2_error, 2 other exception
ENTRY int verif_bzip2_fd(int fd, unsigned nstreams, const unsigned* csize, const unsigned* psize, unsigned truncate_to, unsigned readahead,
                         unsigned char* rle, unsigned cap, unsigned* rlelen, unsigned* nreads, unsigned long* offset) {
#ifndef VERIF_NATIVE
    g_nstreams = nstreams; g_csize = csize; g_psize = psize; g_readahead = readahead; g_nbz = 0;
    unsigned t = 0; for (unsigned i = 0; i < nstreams; ++i) t += csize[i];
    g_total = truncate_to < t ? truncate_to : t;
#endif
    unsigned n = 0; *nreads = 0; int rc = 0;
    int last = -1; unsigned run = 0;
    auto flush = [&]() { if (run && n + 5 <= cap) { rle[n] = static_cast<unsigned char>(last); std::memcpy(rle + n + 1, &run, 4); n += 5; } run = 0; };
    try {
        std::atomic<std::size_t> off{0};
        osmium::io::Bzip2Decompressor d{fd};
        d.set_offset_ptr(&off);
        for (unsigned guard = 0; guard < 32; ++guard) {
            const std::string s = d.read();
            if (s.empty()) break;
            ++*nreads;
            for (const char c : s) { if (c != last) { flush(); last = c; } ++run; }
        }
        *offset = off;
        d.close();
    } catch (const osmium::bzip2_error&) { rc = 1; } catch (const std::exception&) { rc = 2; }
    flush();
    *rlelen = n;
    return rc;
}

// in-memory decompressors: kind 0 bzip2, 1 gzip.  In the symbolic build `data` is a dummy buffer of the total compressed size.
ENTRY int verif_buffer_decomp(int kind, const char* data, unsigned size, unsigned nstreams, const unsigned* csize, const unsigned* psize,
                              unsigned char* rle, unsigned cap, unsigned* rlelen, unsigned* nreads) {
#ifndef VERIF_NATIVE
    g_nstreams = nstreams; g_csize = csize; g_psize = psize; g_membuf = data; g_total = size;
#endif
    unsigned n = 0; *nreads = 0; int rc = 0;
    int last = -1; unsigned run = 0;
    auto flush = [&]() { if (run && n + 5 <= cap) { rle[n] = static_cast<unsigned char>(last); std::memcpy(rle + n + 1, &run, 4); n += 5; } run = 0; };
    auto drain = [&](osmium::io::Decompressor& d) {
        for (unsigned guard = 0; guard < 32; ++guard) {
            const std::string s = d.read();
            if (s.empty()) break;
            ++*nreads;
            for (const char c : s) { if (c != last) { flush(); last = c; } ++run; }
        }
        d.close();
    };
    try {
        if (kind == 0) { osmium::io::Bzip2BufferDecompressor d{data, size}; drain(d); }
        else { osmium::io::GzipBufferDecompressor d{data, size}; drain(d); }
    } catch (const osmium::bzip2_error&) { rc = 1; } catch (const osmium::gzip_error&) { rc = 1; } catch (const std::exception&) { rc = 2; }
    flush();
    *rlelen = n;
    return rc;
}
