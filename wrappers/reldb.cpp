// C11: relations database + members database + item stash, driven the way RelationsManager drives them
#include <osmium/relations/members_database.hpp>
#include <osmium/relations/relations_database.hpp>
#include <osmium/storage/item_stash.hpp>
#include <osmium/builder/osm_object_builder.hpp>
#include <osmium/memory/buffer.hpp>
#include <cstring>
#define ENTRY extern "C" __attribute__((noinline))
using namespace osmium;

// nrel relations; relation r has id 100 + r and the node members refs[r * mper .. r * mper + nmem[r])  (mper = max members per relation).
// Then the node stream ids[0..nnodes) (in the given order).  When a relation is complete the callback (like RelationsManager) looks all
// its members up, records them, removes them from the members database and removes the relation.
// log: words  (1, relation id, position in stream) per completion followed by (2, member id, found id or -1) per member;
// after the stream: (3, node id, found?1:0) for a lookup of every distinct stream id; then (4, relations left, tracked, available, removed)
ENTRY unsigned verif_relations(unsigned nrel, const unsigned* nmem, unsigned mper, const long* refs, unsigned nnodes, const long* ids, long* log, unsigned cap) {
    unsigned n = 0;
    auto L = [&](long v) { if (n < cap) log[n] = v; ++n; };
    memory::Buffer rb{4096, memory::Buffer::auto_grow::yes};
    std::size_t roff[8];
    for (unsigned r = 0; r < nrel; ++r) {
        roff[r] = rb.committed();
        { builder::RelationBuilder b{rb}; b.set_id(100 + r);
          { builder::RelationMemberListBuilder ml{b}; for (unsigned k = 0; k < nmem[r]; ++k) ml.add_member(item_type::node, refs[r * mper + k], "m"); } }
        rb.commit();
    }
    ItemStash stash; relations::RelationsDatabase rdb{stash}; relations::MembersDatabase<Node> mdb{stash, rdb};
    for (unsigned r = 0; r < nrel; ++r) {
        auto h = rdb.add(rb.get<Relation>(roff[r]));
        std::size_t k = 0;
        for (const auto& m : h->members()) { mdb.track(h, m.ref(), k); ++k; }
    }
    mdb.prepare_for_lookup();
    memory::Buffer nb{256, memory::Buffer::auto_grow::yes};
    for (unsigned i = 0; i < nnodes; ++i) {
        nb.clear();
        { builder::NodeBuilder b{nb}; b.set_id(ids[i]).set_version(static_cast<object_version_type>(i + 1)); }
        nb.commit();
        mdb.add(nb.get<Node>(0), [&](relations::RelationHandle& rh) {
            L(1); L(rh->id()); L(i);
            for (const auto& m : rh->members()) {
                const Node* node = mdb.get(m.ref());
                L(2); L(m.ref()); L(node ? node->id() : -1);
            }
            for (const auto& m : rh->members()) mdb.remove(m.ref(), rh->id());
            rh.remove();
        });
    }
    for (unsigned i = 0; i < nnodes; ++i) {
        bool seen = false; for (unsigned j = 0; j < i; ++j) if (ids[j] == ids[i]) seen = true;
        if (seen) continue;
        const Node* node = mdb.get(ids[i]);
        L(3); L(ids[i]); L(node ? (node->id() == ids[i] ? 1 : 2) : 0);
    }
    const auto c = mdb.count();
    L(4); L(static_cast<long>(rdb.count_relations())); L(static_cast<long>(c.tracked)); L(static_cast<long>(c.available)); L(static_cast<long>(c.removed));
    return n;
}
