// C10: the real area assembler (segment extraction, sorting, duplicate removal, intersection search, ring construction,
// inner/outer assignment, ring orientation, AreaBuilder output) on a way / on a multipolygon relation with small member ways
#include <osmium/area/assembler.hpp>
#include <osmium/area/problem_reporter.hpp>
#include <osmium/builder/osm_object_builder.hpp>
#include <osmium/memory/buffer.hpp>
#include <vector>
#define ENTRY extern "C" __attribute__((noinline))

namespace {
struct CountingReporter : public osmium::area::ProblemReporter {
    unsigned intersections = 0, duplicate_segments = 0, overlapping = 0, ring_not_closed = 0, other = 0;
    void report_duplicate_node(osmium::object_id_type, osmium::object_id_type, osmium::Location) override { ++other; }
    void report_touching_ring(osmium::object_id_type, osmium::Location) override { ++other; }
    void report_intersection(osmium::object_id_type, osmium::Location, osmium::Location, osmium::object_id_type, osmium::Location, osmium::Location, osmium::Location) override { ++intersections; }
    void report_duplicate_segment(const osmium::NodeRef&, const osmium::NodeRef&) override { ++duplicate_segments; }
    void report_overlapping_segment(const osmium::NodeRef&, const osmium::NodeRef&) override { ++overlapping; }
    void report_ring_not_closed(const osmium::NodeRef&, const osmium::Way*) override { ++ring_not_closed; }
    void report_role_should_be_outer(osmium::object_id_type, osmium::Location, osmium::Location) override { ++other; }
    void report_role_should_be_inner(osmium::object_id_type, osmium::Location, osmium::Location) override { ++other; }
    void report_way_in_multiple_rings(const osmium::Way&) override { ++other; }
    void report_inner_with_same_tags(const osmium::Way&) override { ++other; }
    void report_invalid_location(osmium::object_id_type, osmium::object_id_type) override { ++other; }
    void report_way(const osmium::Way&) override {}
};

void add_way(osmium::memory::Buffer& buf, osmium::object_id_type id, unsigned n, const long long* ids, const int* xs, const int* ys) {
    {
        osmium::builder::WayBuilder b{buf};
        b.set_id(id);
        b.set_user("");
        {
            osmium::builder::WayNodeListBuilder w{b};
            for (unsigned i = 0; i < n; ++i) w.add_node_ref(osmium::NodeRef{ids[i], osmium::Location{xs[i], ys[i]}});
        }
    }
    buf.commit();
}

// out: [ok, intersections, duplicate_segments, overlapping, ring_not_closed, other reports, nareas, then per area: nouter, per outer: npts, (x, y)*, ninner, per inner: npts, (x, y)*]
unsigned dump_areas(const osmium::memory::Buffer& outb, int* out, unsigned cap, unsigned k) {
    unsigned nareas = 0; const unsigned at = k++;
    for (const auto& area : outb.select<osmium::Area>()) {
        ++nareas;
        unsigned no = 0; const unsigned ao = k++;
        for (const auto& outer : area.outer_rings()) {
            ++no;
            if (k + 2 + 2 * outer.size() >= cap) return k;
            out[k++] = static_cast<int>(outer.size());
            for (const auto& nr : outer) { out[k++] = nr.location().x(); out[k++] = nr.location().y(); }
            unsigned ni = 0; const unsigned ai = k++;
            for (const auto& inner : area.inner_rings(outer)) {
                ++ni;
                if (k + 2 + 2 * inner.size() >= cap) return k;
                out[k++] = static_cast<int>(inner.size());
                for (const auto& nr : inner) { out[k++] = nr.location().x(); out[k++] = nr.location().y(); }
            }
            out[ai] = static_cast<int>(ni);
        }
        out[ao] = static_cast<int>(no);
    }
    out[at] = static_cast<int>(nareas);
    return k;
}
}

ENTRY int verif_assemble_way(unsigned n, const long long* ids, const int* xs, const int* ys, int* out, unsigned cap, unsigned* outlen) {
    osmium::memory::Buffer in{1024, osmium::memory::Buffer::auto_grow::yes};
    add_way(in, 1, n, ids, xs, ys);
    CountingReporter rep;
    osmium::area::AssemblerConfig cfg;
    cfg.problem_reporter = &rep;
    osmium::area::Assembler a{cfg};
    osmium::memory::Buffer outb{2048, osmium::memory::Buffer::auto_grow::yes};
    const bool ok = a(in.get<osmium::Way>(0), outb);
    unsigned k = 0;
    out[k++] = ok ? 1 : 0; out[k++] = static_cast<int>(rep.intersections); out[k++] = static_cast<int>(rep.duplicate_segments);
    out[k++] = static_cast<int>(rep.overlapping); out[k++] = static_cast<int>(rep.ring_not_closed); out[k++] = static_cast<int>(rep.other);
    k = dump_areas(outb, out, cap, k);
    *outlen = k;
    return ok ? 1 : 0;
}

// multipolygon relation with nways member ways; way w has cnt[w] node refs taken consecutively from ids/xs/ys
ENTRY int verif_assemble_relation(unsigned nways, const unsigned* cnt, const long long* ids, const int* xs, const int* ys, int* out, unsigned cap, unsigned* outlen) {
    osmium::memory::Buffer in{4096, osmium::memory::Buffer::auto_grow::yes};
    std::vector<std::size_t> offsets;
    unsigned pos = 0;
    for (unsigned w = 0; w < nways; ++w) {
        offsets.push_back(in.committed());
        add_way(in, 10 + w, cnt[w], ids + pos, xs + pos, ys + pos);
        pos += cnt[w];
    }
    const std::size_t reloff = in.committed();
    {
        osmium::builder::RelationBuilder b{in};
        b.set_id(5);
        b.set_user("");
        {
            osmium::builder::RelationMemberListBuilder m{b};
            for (unsigned w = 0; w < nways; ++w) m.add_member(osmium::item_type::way, 10 + w, "");
        }
    }
    in.commit();
    std::vector<const osmium::Way*> members;
    for (const auto off : offsets) members.push_back(&in.get<osmium::Way>(off));
    CountingReporter rep;
    osmium::area::AssemblerConfig cfg;
    cfg.problem_reporter = &rep;
    osmium::area::Assembler a{cfg};
    osmium::memory::Buffer outb{4096, osmium::memory::Buffer::auto_grow::yes};
    const bool ok = a(in.get<osmium::Relation>(reloff), members, outb);
    unsigned k = 0;
    out[k++] = ok ? 1 : 0; out[k++] = static_cast<int>(rep.intersections); out[k++] = static_cast<int>(rep.duplicate_segments);
    out[k++] = static_cast<int>(rep.overlapping); out[k++] = static_cast<int>(rep.ring_not_closed); out[k++] = static_cast<int>(rep.other);
    k = dump_areas(outb, out, cap, k);
    *outlen = k;
    return ok ? 1 : 0;
}
