#!/usr/bin/env python3-vt
"""tools/mktables.py -- regenerates the per-property harness tables of DESIGN.md section 3b from harness/*.py (between '## 3b.' and 'Deviations from the plan')"""
import sys, os, re
ROOT = os.path.join(os.path.dirname(os.path.abspath(__file__)), '..')
sys.path.insert(0, os.path.join(ROOT, 'engine')); sys.path.insert(0, os.path.join(ROOT, 'harness'))
import importlib, fw

def esc(s): return str(s).replace('|', '\\|').replace('\n', ' ')

out = []
for pid in ['C%02d' % k for k in range(1, 21)]:
    if not os.path.exists(os.path.join(ROOT, 'harness', pid + '.py')): continue
    os.environ['VERIF_TIER'] = 'quick'; hq = fw.load_harnesses(pid, 'quick')
    os.environ['VERIF_TIER'] = 'thorough'; ht = {h.name: h for h in fw.load_harnesses(pid, 'thorough')}
    mod = importlib.import_module(pid)
    out.append('### %s\n' % pid)
    out.append('| harness | engine | jobs q/t | what is decided | bounds (quick; thorough where different) |')
    out.append('|---|---|---|---|---|')
    for h in hq:
        t = ht.get(h.name)
        b = h.bounds if (t is None or t.bounds == h.bounds) else '%s; thorough: %s' % (h.bounds, t.bounds)
        out.append('| %s | E2-%s | %d / %s | %s | %s |' % (h.name, h.mode, len(h.jobs), len(t.jobs) if t else '-', esc(h.desc), esc(b)))
    for name, t in ht.items():
        if name not in {h.name for h in hq}: out.append('| %s | E2-%s | - / %d | %s | %s |' % (name, t.mode, len(t.jobs), esc(t.desc), esc(t.bounds)))
    if hasattr(mod, 'cbmc_harnesses'):
        cq, ct = mod.cbmc_harnesses('quick'), mod.cbmc_harnesses('thorough')
        fns = {}
        for c in ct: fns.setdefault(c.fn, []).append(c)
        nq = {}
        for c in cq: nq[c.fn] = nq.get(c.fn, 0) + 1
        for fn, cs in sorted(fns.items()):
            out.append('| %s | E1 cbmc (%s) | %d / %d runs | %s | %s |' % (fn, ' '.join(cs[0].backend) or 'sat', nq.get(fn, 0), len(cs), esc(cs[0].desc), esc(cs[0].bounds)))
    out.append('')
p = os.path.join(ROOT, 'DESIGN.md'); s = open(p).read()
a = s.index('### C01\n', s.index('## 3b.')); b = s.index('Deviations from the plan (section 2)')
s = s[:a] + '\n'.join(out) + '\n' + s[b:]
open(p, 'w').write(s)
print('section 3b regenerated: %d lines' % len(out))
