#!/usr/bin/env python3
"""Regenerates MANIFEST.json from the table below (kept in one place so that it stays consistent)."""
import json, os
ROOT = os.path.dirname(os.path.dirname(os.path.abspath(__file__)))
TECH = 'path-wise symbolic execution of the clang-14 LLVM IR of the real functions (own interpreter, z3 SMT queries per path; counterexamples replayed on the native g++ build)'
CLAIMED = {
 'C13': dict(text='Bounded symbolic model checking of the real conversion kernels: the coordinate round trip is decided for all 2^32 values; strict parsing for every byte string up to the stated length and for grammar-shaped long strings against an exact integer reference.',
             note='Trusts clang-14 IR generation, the IR interpreter (validated per run against the native build on test inputs), z3; libc strtoll/timegm/gmtime_r are contract models.', ref='§2 C13'),
 'C16': dict(text='Bounded symbolic model checking of the real comparators: strict-weak-order axioms, mutual consistency and agreement with the documented (type, id rule, version) key for three objects whose type, 64-bit id, version, timestamp and visibility are fully symbolic; CheckOrder against the strict order on short symbolic sequences from a fresh state.',
             note='std::stable_sort itself is not encoded (its contract is the link between the axioms and sorted output); ids exclude INT64_MIN (documented domain); timestamps valid where the order uses them.', ref='§2 C16'),
 'C14': dict(text='Bounded symbolic model checking of the real escaping and parsing functions: OPL escape followed by the OPL string parser is the identity for every Unicode scalar value (symbolic 21-bit value) and for all strings of two of them, with no structural character in the escaped form (round trip implies injectivity); every byte string up to the stated length in an exact-size buffer gives no access past the terminator and the documented exception class; XML escaping is undone by a reference attribute-value decoder.',
             note='expat is represented by a 20-line XML 1.0 attribute-value decoder in the harness; strings longer than the bound are covered only through per-code-point behaviour.', ref='§2 C14'),
 'C06': dict(text='Bounded symbolic model checking of the real carry-over code of three parsers: OPL line splitting for every string over {a, LF, CR} up to the stated length and every segmentation; O5mParser header + data decoding with all real per-type decoders and PBFParser blob framing on concrete small files under every single cut, pairs of cuts, one byte at a time (and all 8192 segmentations of a 14-byte file); outcome and delivered buffers must equal the one-piece run.',
             note='The threaded pipeline is cut at queue_wrapper<std::string>::pop and add_to_queue<Buffer> (boundary models written in C++ in the wrapper TU); counterexamples are replayed natively through the real Queue/future/promise objects. XML (expat) and real decompressors as chunk sources are outside.', ref='§2 C06'),
 'C02': dict(text='Bounded symbolic model checking of decoder kernels against specification formulas: the PBF length prefix for all 2^32 inputs, BlobHeader decoding with fields in any order / indexdata / unknown fields and a symbolic datasize, PBFPrimitiveBlockDecoder on blocks with dense nodes and plain nodes whose deltas, offsets and metadata are symbolic (non-default granularity, offsets, date granularity, missing Info), and the o5m string reference table ring law including wrap-around.',
             note='Kernel level only: XML (expat), zlib/lz4 inflation, whole-file agreement of the four readers and blocks with more than two entities are outside; protozero is interpreted from its headers.', ref='§2 C02'),
 'C04': dict(text='Bounded symbolic model checking with a memory-safety oracle (every load/store checked against live objects): builder programs for nodes, ways, relations (with full members), changesets with discussions, rollback, purge_removed (all removal subsets, with callback offsets) and add_buffer/push_back/add_item/swap/move/clear run in buffers whose initial capacity and string lengths are symbolic, so growth is forced at every builder call, for auto_grow no/yes/internal; the result is read back through the library iterators and must equal what was passed in.',
             note='Capacities up to 160 (quick) / 256 (thorough); string contents concrete, ids symbolic; std::bad_alloc outside; purge_removed on buffers with non-entity top-level items outside.', ref='§2 C04'),
 'C15': dict(text='Bounded symbolic model checking against set/multimap models: IdSetDense (32- and 64-bit ids, tiny chunks) one operation at a time from an arbitrary valid state with symbolic chunk contents and a symbolic id (inductive step, growth and chunk borders included), iteration from states with members at symbolic positions, IdSetSmall, RelationsMapStash with symbolic 64-bit pairs through all index builders, and ItemStash add/remove/garbage_collect histories over all removal subsets.',
             note='One-step (inductive) for IdSetDense: the representation invariant is "size = number of set bits, chunks allocated per skeleton"; production chunk size and the automatic GC trigger (>= 10000 removals) are outside.', ref='§2 C15'),
 'C20': dict(text='Bounded symbolic model checking of the dispatch code: apply()/apply_item() in ten configurations (const and non-const buffers, item ranges of all item types, one to three static handlers, lambdas with const/non-const signatures, DynamicHandler, ChainHandler, ItemIterator<OSMObject>) on buffers whose item types range over all 13 item types with symbolic removed flags, against a reference dispatch table (order of handlers, generic-then-specific callback, flush once per handler); DiffIterator on short histories with symbolic type and id.',
             note='io::InputIterator over a live Reader (threads) is outside; items are raw 64-byte headers since the callbacks under test only receive references.', ref='§2 C20'),
 'C17': dict(text='Bounded symbolic model checking of the geometry factory and the WKB encoder: GeometryFactory driven with a logging implementation and with the real WKBFactoryImpl (WKB/EWKB, binary/hex, read back by an independent reader) on ways and areas whose locations are symbolic (valid, undefined, out of range, runs of duplicates) for {all, unique} x {forward, backward}: emitted coordinates, order, duplicate suppression, ring grouping, back-patched counts and the error class equal the reference; double2string under the C11 contract of snprintf.',
             note='Coordinates travel bit-for-bit through a projection that keeps the validity check of IdentityProjection (no floating point in the query); the decimal text of WKT/GeoJSON numbers depends on printf("%f") and is covered only through the snprintf contract model; Mercator projection is C18.', ref='§2 C17'),
 'C08': dict(text='Bounded symbolic model checking over fault sequences: the OS and zlib calls are scripted stubs whose return values and errno are symbolic within their documented contracts; reliable_write, NoCompressor and GzipCompressor (write, write, close, close; stdout and a regular descriptor; fsync yes/no) must hand every byte to write() in order, sync before close iff requested, never touch stdout, and turn every failing call into std::system_error / gzip_error while never failing spuriously.',
             note='Writer, the write thread, futures and queues (schedules) are outside: only the sequential error path below them is decided; stub contracts (POSIX write on a regular file never returns 0 for count > 0; zlib return codes) are assumptions; at most 3-7 calls per scenario.', ref='§2 C08'),
}
NA = {
 'C19': 'The property is its schedule quantifier (lost wake-ups, FIFO under contention, exactly-once execution); bounded symbolic interleaving with cbmc did not finish a 2-thread toy monitor in 200 s here, and enumerating schedules would be a different technique family.',
}
PENDING = 'check not built yet in this session (planned, see DESIGN.md)'
ids = [json.loads(l)['id'] for l in open(os.path.join(ROOT, 'properties.jsonl'))]
checks = []
for i in ids:
    if i in CLAIMED:
        c = CLAIMED[i]
        checks.append(dict(property_id=i, quick_cmd='./check %s --tier quick' % i, thorough_cmd='./check %s --tier thorough' % i,
                           evidence_file='evidence/%s.json' % i, replay_cmd_template='./check %s --replay {path}' % i, engine='llsym',
                           level_claimed=dict(category='model_checking', text=c['text'], design_ref=c['ref']), level_note=c['note'],
                           technique=c.get('tech', TECH)))
na = [dict(property_id=i, reason=NA.get(i, PENDING)) for i in ids if i not in CLAIMED]
m = dict(version=1, setup_cmd='true',
         hooks=dict(guard='OSMCODE_LIBOSMIUM_VERIF', enable='no source hooks are needed: wrappers are compiled with -fno-access-control -DOSMCODE_LIBOSMIUM_VERIF against /repo/include',
                    baseline_off_cmd='cmake -G Ninja -S /repo -B /repo/_build >/dev/null && cmake --build /repo/_build >/dev/null && ctest --test-dir /repo/_build -j8 --timeout 900',
                    source_commits=[], add_only=True),
         engines=[dict(name='llsym', path='engine/llsym.py', serves_properties=sorted(CLAIMED), kind_free_text='path-wise symbolic interpreter for LLVM-14 IR on z3 (BV and INT encodings), native replay through ctypes'),
                  dict(name='ir2c+cbmc', path='engine/ir2c.py', serves_properties=[], kind_free_text='LLVM IR -> C translator feeding cbmc 6.11 (floating-point and table kernels)')],
         checks=checks, not_applicable=na,
         notes='All checks rebuild IR and native objects from /repo/include on every run into a mkdtemp directory that is removed on exit. Exit 2 = undecided (machinery problem), never reported as success.')
json.dump(m, open(os.path.join(ROOT, 'MANIFEST.json'), 'w'), indent=1)
print('claimed', sorted(CLAIMED), 'n/a', [x['property_id'] for x in na])
