#!/usr/bin/env python3
"""tools/mkseedtable.py -- regenerates the table of DESIGN.md section 8 from seeded/*/meta.json"""
import json, glob, os, re
ROOT = os.path.join(os.path.dirname(os.path.abspath(__file__)), '..')
rows = []
for d in sorted(glob.glob(os.path.join(ROOT, 'seeded', '*_*'))):
    m = json.load(open(os.path.join(d, 'meta.json'))); sid = os.path.basename(d)
    if m.get('detected'):
        res = '**%s**' % m['detected_by'] + ('; ' + m['note'] if m.get('note') else '')
    else: res = 'missed: ' + m.get('why_missed', '')
    rows.append('| %s | %s | %s | %s |' % (sid, m['change'].replace('|', '\\|'), m['needs_to_manifest'].replace('|', '\\|'), res.replace('|', '\\|')))
p = os.path.join(ROOT, 'DESIGN.md'); s = open(p).read()
a = s.index('| id | change | needs | result |', s.index('## 8. Seeded changes'))
b = s.index('\n\n', a)
s = s[:a] + '| id | change | needs | result |\n|---|---|---|---|\n' + '\n'.join(rows) + s[b:]
open(p, 'w').write(s)
n = len(rows); det = sum(1 for d in glob.glob(os.path.join(ROOT, 'seeded', '*_*')) if json.load(open(os.path.join(d, 'meta.json'))).get('detected'))
metas = [json.load(open(os.path.join(d, 'meta.json'))) for d in glob.glob(os.path.join(ROOT, 'seeded', '*_*'))]
late = sum(1 for m in metas if m.get('detected') and ('note' in m or 'added after' in (m.get('detected_by') or '')))
print('%d seeds, %d detected, %d only after strengthening' % (n, det, late))
