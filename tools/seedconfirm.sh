#!/bin/sh
# tools/seedconfirm.sh <worktree> <seeddir> [extra g++ flags]: confirm a seeded change independently:
# demo passes without it, fails with it, and the full test suite passes with it.  Log -> <seeddir>/confirm.log
WT="$1"; SD="$2"; shift 2
L="$SD/confirm.log"; : > "$L"
cd "$SD" || exit 3
git -C "$WT" checkout -- . ; git -C "$WT" status --short >> "$L"
FL="-std=c++17 -fno-access-control -I$WT/include"
g++ $FL "$@" demo.cpp -o demo_orig -lz -lbz2 -lexpat -lpthread >> "$L" 2>&1 && ./demo_orig >> "$L" 2>&1; echo "demo without change: exit $?" >> "$L"
git -C "$WT" apply "$SD/patch.diff" >> "$L" 2>&1 || { echo "PATCH DOES NOT APPLY" >> "$L"; exit 3; }
g++ $FL "$@" demo.cpp -o demo_mut -lz -lbz2 -lexpat -lpthread >> "$L" 2>&1 && ./demo_mut >> "$L" 2>&1; echo "demo with change: exit $?" >> "$L"
[ -d "$WT/_build" ] || cmake -G Ninja -S "$WT" -B "$WT/_build" -DBUILD_EXAMPLES=ON > /dev/null 2>&1
cmake --build "$WT/_build" -j6 > /dev/null 2>> "$L"; echo "build with change: exit $?" >> "$L"
ctest --test-dir "$WT/_build" -j6 --timeout 900 2>&1 | grep -E "tests passed|tests failed|Failed|\*\*\*" | head -8 >> "$L"
git -C "$WT" checkout -- .
rm -f demo_orig demo_mut
grep -E "exit|tests passed|tests failed" "$L"
