#!/usr/bin/env python3-vt
"""debug runner: tools/dbg.py <pid> <harness> <jobindex> [tier] [wall] -- single process, prints stats and findings"""
import sys, os, time, json, tempfile, shutil
sys.path.insert(0, os.path.join(os.path.dirname(os.path.abspath(__file__)), '..', 'engine'))
import fw
pid, hname, jobi = sys.argv[1], sys.argv[2], int(sys.argv[3]); tier = sys.argv[4] if len(sys.argv) > 4 else 'quick'
wall = float(sys.argv[5]) if len(sys.argv) > 5 else 120
os.environ['VERIF_TIER'] = tier
h = [x for x in fw.load_harnesses(pid, tier) if x.name == hname][0]
d = tempfile.mkdtemp(prefix='dbg-')
try:
    b = fw.Build(d); ll = b.ir(h.wrapper, h.defs)
    I = fw.make_interp(h, ll, [k['key'] for k in fw.known_findings() if k['property'] == pid])
    t = time.time()
    res, left = I.explore(lambda I_: h.fn(I_, h.jobs[jobi]), wall=wall)
    st = I.stats
    print('paths', st['paths'], 'queries', st['queries'], 'solver_s %.1f' % st['solver_s'], 'wall %.1f' % (time.time() - t), 'left', len(left), 'reached', I.reached)
    print('unsupported', sorted(set(st['unsupported']))[:8])
    seen = {}
    for f in res: seen.setdefault((f['kind'], f['msg']), []).append(f['inputs'])
    for k, v in seen.items(): print('FINDING x%d' % len(v), k, v[:3])
finally:
    shutil.rmtree(d)
