#!/bin/sh
# tools/seedtest.sh <patch.diff> <property-id> [extra check args]: apply a seeded change to /repo, run the check, undo the change
P="$1"; ID="$2"; shift 2
git -C /repo apply "$P" || { echo "patch does not apply"; exit 3; }
cd /verif && timeout 1500 ./check "$ID" "$@" 2>&1 | grep -v conda | cut -c1-400 | tail -8
git -C /repo checkout -- .
git -C /repo status --short | head -3
