#!/bin/sh
# tools/seedtest.sh <patch.diff> <property-id> [extra check args]
# Runs the check against a scratch worktree of /repo's HEAD with the seeded change applied (VERIF_REPO), so that /repo itself
# stays untouched and several seeds can be tried in parallel.  The worktree is removed afterwards.
P="$1"; ID="$2"; shift 2
WT=$(mktemp -d /tmp/seedwt.XXXXXX); rmdir "$WT"
git -C /repo worktree add -q --detach "$WT" HEAD || exit 3
git -C "$WT" apply "$P" || { echo "patch does not apply"; git -C /repo worktree remove --force "$WT"; exit 3; }
cd /verif && VERIF_REPO="$WT" timeout 2400 ./check "$ID" "$@" 2>&1 | grep -v conda | cut -c1-400 | tail -8
git -C /repo worktree remove --force "$WT"
